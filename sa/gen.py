"""Systematic enumeration of small TEAL control skeletons (thorough tier).

A skeleton is a main program of up to `kmain` blocks followed by an optional subroutine `f` of up to `ksub`
blocks.  Every block but the first starts with a label; every block ends with a terminator drawn from the full
terminator alphabet of its region; optionally each block carries a check.  The enumeration is deterministic
(no randomness): `programs(...)` yields (name, source) in a fixed order, `shard(i, n)` selects every n-th.
Programs in which control can fall from the main program into the subroutine body, or off the end of a
subroutine region into nothing but another subroutine, are excluded ("subroutine bodies are entered only through
callsub").
"""
import itertools

MAIN_TERMS = ["fall", "b", "bz", "bnz", "callsub", "return", "err", "retsub"]   # retsub outside a subroutine: accepted by the assembler, fails when executed
SUB_TERMS = ["fall", "b", "bz", "bnz", "retsub", "return", "err"]
FREE = "txn Amount"


def _term_options(region, idx, n, has_sub):
    """terminators available to block idx of n blocks in `region`, with their jump targets"""
    out = []
    labels = [f"{region}{j}" for j in range(1, n)]
    for t in (MAIN_TERMS if region == "m" else SUB_TERMS):
        if t == "fall":
            if idx + 1 < n:
                out.append(("fall", None))
            elif region == "m" and not has_sub:
                out.append(("fall", None))         # running off the end of the program
            elif region == "s":
                out.append(("fall", None))         # last block of the source: running off the end
        elif t in ("b", "bz", "bnz"):
            tg = list(labels)
            if region == "s":
                tg = ["f"] + labels if t != "b" or idx != 0 else labels   # `b f` in the entry block is a trivial infinite loop; keep others
            for l in tg:
                if t in ("bz", "bnz") and idx + 1 >= n and (region == "s" or not has_sub):
                    out.append((t, l))             # conditional branch as last instruction of the source
                elif t in ("bz", "bnz") and idx + 1 >= n and region == "m" and has_sub:
                    continue                       # fall-through would enter the subroutine body
                else:
                    out.append((t, l))
        elif t == "callsub":
            if has_sub and (idx + 1 < n):
                out.append(("callsub", "f"))
        else:
            out.append((t, None))
    return out


def render(main, sub, checks=None, cond=None):
    """main/sub: lists of (terminator, target); checks: per-block list of instruction lines placed before the terminator;
    cond: per-block condition (list of lines) pushed before a bz/bnz (default: a free value)"""
    lines = ["#pragma version 6"]
    k = 0
    for region, blocks in (("m", main), ("s", sub)):
        for i, (t, tg) in enumerate(blocks):
            if region == "s" and i == 0:
                lines.append("f:")
            elif i > 0:
                lines.append(f"{region}{i}:")
            lines += (checks[k] if checks else [])
            if t == "fall":
                lines.append("int 9")
                lines.append("pop") if not (i + 1 >= len(blocks) and (region == "s" or not sub)) else None
                if lines[-1] is None:
                    lines.pop()
            elif t == "b":
                lines.append(f"b {tg}")
            elif t in ("bz", "bnz"):
                lines += (cond[k] if cond and cond[k] else [FREE])
                lines.append(f"{t} {tg}")
            elif t == "callsub":
                lines.append("callsub f")
            elif t == "return":
                lines += ["int 1", "return"]
            elif t == "err":
                lines.append("err")
            elif t == "retsub":
                lines.append("retsub")
            k += 1
    return "\n".join(lines) + "\n"


def skeletons(kmain=3, ksub=2):
    """all (main, sub) terminator assignments within the bounds"""
    for nm in range(1, kmain + 1):
        for ns in range(0, ksub + 1):
            has_sub = ns > 0
            mopts = [_term_options("m", i, nm, has_sub) for i in range(nm)]
            sopts = [_term_options("s", i, ns, True) for i in range(ns)]
            for m in itertools.product(*mopts):
                if has_sub and not any(t == "callsub" for t, _ in m):
                    continue               # the subroutine label must be a callsub target
                for s in itertools.product(*sopts) if ns else [()]:
                    yield list(m), list(s)


def programs(kmain=3, ksub=2):
    for n, (m, s) in enumerate(skeletons(kmain, ksub)):
        name = "M[" + ",".join(t + (":" + tg if tg else "") for t, tg in m) + "]" + (" F[" + ",".join(t + (":" + tg if tg else "") for t, tg in s) + "]" if s else "")
        yield name, render(m, s)


# ---------------------------------------------------------------------------------------------- programs with checks

CHECKS = {
    "none": [],
    "size==2": ["global GroupSize", "int 2", "==", "assert"],
    "size<3": ["global GroupSize", "int 3", "<", "assert"],
    "index==0": ["txn GroupIndex", "int 0", "==", "assert"],
    "index>=1": ["txn GroupIndex", "int 1", ">=", "assert"],
    "rekey==zero": ["txn RekeyTo", "global ZeroAddress", "==", "assert"],
    "fee<=1000": ["txn Fee", "int 1000", "<=", "assert"],
    "size==2||free": [FREE, "global GroupSize", "int 2", "==", "||", "assert"],
    "!(size==4)": ["global GroupSize", "int 4", "==", "!", "assert"],
    "gtxn1.rekey==zero": ["gtxn 1 RekeyTo", "global ZeroAddress", "==", "assert"],
    "gtxns(1).rekey==zero": ["int 1", "gtxns RekeyTo", "global ZeroAddress", "==", "assert"],
    "rel+1.rekey==zero": ["txn GroupIndex", "int 1", "+", "gtxns RekeyTo", "global ZeroAddress", "==", "assert"],
    "rel-1.rekey==zero": ["txn GroupIndex", "int 1", "-", "gtxns RekeyTo", "global ZeroAddress", "==", "assert"],
    "index==1": ["txn GroupIndex", "int 1", "==", "assert"],
    "index!=1": ["txn GroupIndex", "int 1", "!=", "assert"],
}
CONDS = {
    "free": [FREE],
    "size==2": ["global GroupSize", "int 2", "=="],
    "index==0": ["txn GroupIndex", "int 0", "=="],
    "rekey==zero": ["txn RekeyTo", "global ZeroAddress", "=="],
    "fee<=1000": ["txn Fee", "int 1000", "<="],
    "size!=3": ["global GroupSize", "int 3", "!="],
    "gtxn1.rekey==zero": ["gtxn 1 RekeyTo", "global ZeroAddress", "=="],
    "index==1": ["txn GroupIndex", "int 1", "=="],
}


def checked_programs(kmain=3, ksub=2, check_names=("none", "size==2", "index==0"), cond_names=("free", "size==2"), stride=1, offset=0):
    """skeletons decorated with checks and branch conditions; deterministic order; every `stride`-th starting at `offset`.
    The decorations of one skeleton are the product check_names^blocks x cond_names^branches in lexicographic order (the undecorated,
    branch-free program is left out); the selected indices are computed directly instead of walking the whole space."""
    n = 0          # global index of the first decoration of the current skeleton
    nc, nd = len(check_names), len(cond_names)
    for m, s in skeletons(kmain, ksub):
        blocks = list(m) + list(s)
        branchy = [i for i, (t, _) in enumerate(blocks) if t in ("bz", "bnz")]
        ncond = nd ** len(branchy)
        total = (nc ** len(blocks)) * ncond
        first = 1 if (not branchy and check_names and check_names[0] == "none") else 0
        count = total - first
        # global indices n .. n+count-1 correspond to product indices first .. total-1
        k = (offset - n) % stride
        while k < count:
            pi = k + first
            ci, di = divmod(pi, ncond)
            cks = []
            for _ in range(len(blocks)):
                ci, r = divmod(ci, nc)
                cks.append(check_names[r])
            cks.reverse()
            cds = []
            for _ in range(len(branchy)):
                di, r = divmod(di, nd)
                cds.append(cond_names[r])
            cds.reverse()
            cond = [None] * len(blocks)
            for bi, c in zip(branchy, cds):
                cond[bi] = CONDS[c]
            name = ("M[" + ",".join(t + (":" + tg if tg else "") for t, tg in m) + "]" + (" F[" + ",".join(t + (":" + tg if tg else "") for t, tg in s) + "]" if s else "")
                    + " checks=" + ",".join(cks) + " conds=" + ",".join(cds))
            yield name, render(m, s, [CHECKS[c] for c in cks], cond)
            k += stride
        n += count


# ---------------------------------------------------------------------------------------------- meaning-preserving rewrites (C15)

PAD = ["int 9", "pop"]


def rewrite(src, variant):
    """a meaning-preserving rewriting of a generated program (text level).  Block structure is unchanged: blocks correspond by index.

    variant 'layout'  : labels renamed, comments, blank lines, indentation, trailing comments
    variant 'hex'     : every integer literal in hex, labels renamed
    variant 'octal'   : every integer literal in octal (leading 0)
    variant 'pushint' : `int c` written `pushint c`
    variant 'intc'    : constants moved to an intcblock at the top of the entry block, `int c` written intc_k / intc k
    variant 'padding' : stack-neutral `int 9; pop` at statement boundaries (block start, before the block's terminator statement)
    variant 'all'     : layout + hex + padding + pushint for every second constant
    """
    lines = src.strip("\n").split("\n")
    labels = sorted({l[:-1] for l in lines if l.endswith(":")})
    ren = {l: f"L_{i}_{l[::-1]}" for i, l in enumerate(labels)} if variant in ("layout", "hex", "all") else {}

    def relabel(l):
        if l.endswith(":") and l[:-1] in ren:
            return ren[l[:-1]] + ":"
        t = l.split()
        if t and t[0] in ("b", "bz", "bnz", "callsub") and t[1] in ren:
            return f"{t[0]} {ren[t[1]]}"
        return l

    consts = []
    for l in lines:
        t = l.split()
        if len(t) == 2 and t[0] == "int" and t[1].isdigit() and int(t[1]) not in consts:
            consts.append(int(t[1]))
    out = []
    k = 0
    for i, l in enumerate(lines):
        l = relabel(l)
        t = l.split()
        is_int = len(t) == 2 and t[0] == "int" and t[1].isdigit()
        if is_int:
            c = int(t[1])
            k += 1
            if variant == "hex" or (variant == "all" and k % 2 == 0):
                l = f"int {hex(c)}"
            elif variant == "octal":
                l = f"int 0{oct(c)[2:]}" if c else "int 00"
            elif variant == "pushint" or (variant == "all" and k % 2 == 1):
                l = f"pushint {c}"
            elif variant == "intc":
                j = consts.index(c)
                l = f"intc_{j}" if j < 4 else f"intc {j}"
        if variant in ("layout", "all") and not l.startswith("#pragma"):
            if i % 3 == 0:
                out.append("")
            if i % 4 == 1:
                out.append("// a comment line")
            l = ("    " if i % 2 else "\t") + l + (" // trailing comment" if i % 5 == 2 else "")
        bare = l.split("//")[0].split()
        if variant in ("padding", "all") and bare and bare[0] in ("b", "callsub", "retsub", "err"):
            out += PAD          # before a one-line terminator statement
        out.append(l)
        if variant in ("padding", "all") and (l.startswith("#pragma") or (bare and bare[0].endswith(":"))):
            out += PAD          # at the start of a block
        if l.startswith("#pragma") and variant == "intc" and consts:
            out.append("intcblock " + " ".join(map(str, consts)))
    return "\n".join(out) + "\n"


def loop_call_programs():
    """skeletons with 3 main and 3 subroutine blocks in which the main program loops back over a call and the subroutine can both return
    and end the program: the shapes in which the per-activation loop cut and the call/return matching of a path search interact"""
    for m, s in skeletons(3, 3):
        if len(s) != 3 or not any(t == "callsub" for t, _ in m):
            continue
        if not any(t in ("b", "bz", "bnz") and tg and int(tg[1:]) <= i for i, (t, tg) in enumerate(m)):
            continue
        if not (any(t == "return" for t, _ in s) and any(t == "retsub" for t, _ in s)):
            continue
        name = "M[" + ",".join(t + (":" + tg if tg else "") for t, tg in m) + "] F[" + ",".join(t + (":" + tg if tg else "") for t, tg in s) + "]"
        yield name, render(m, s)
