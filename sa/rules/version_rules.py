"""C19.2 / C19.3: version check, mode detection, contract type and routing."""
import itertools

from ..absint import Obj, Interp, PyRaise, Unsupported, EnumMember
from ..absobj import Builder
from .optable import _spec_ops, op_lines, _opkey, FIELD_FAMILY
from .cfg_rules import PT
from .output_rules import build_tealer


def rule_verify_version(ctx, rep):
    rule = "T-VERSION"
    rep.rule(rule, "_verify_version flags an instruction exactly when the declared version is below its AVM introduction version, a field exactly "
                   "when the instruction is supported but the field's introduction version is above the declared one (all five field families), "
                   "and a program exactly when it mixes application-only and signature-only instructions")
    w = ctx.world
    b = Builder(ctx)
    f = w.func(PT, "_verify_version")
    where = f"{ctx.path(PT)}:{f.node.lineno}"
    seen = set()
    n = 0
    for op, line, imms in op_lines(ctx):
        if op["mnemonic"] in seen or op.get("version_unarbitrated"):
            continue
        seen.add(op["mnemonic"])
        # use the oldest field of the family so that only the instruction's version matters
        if "field" in op["imm"]:
            fam = ctx.spec("avm_fields.json")["families"][FIELD_FAMILY[op["mnemonic"]]]
            cand = [l for o, l, _ in op_lines(ctx) if o is op]
            oldest = min(cand, key=lambda l: fam.get(l.split()[-2] if l.split()[-1].isdigit() else l.split()[-1], {"version": 99})["version"])
            line = oldest
            fname = line.split()[-2] if line.split()[-1].isdigit() else line.split()[-1]
            fver = fam[fname]["version"]
        else:
            fver = 0
        try:
            ins = b.ins(line)
        except Exception:
            continue
        for v in range(1, 9):
            try:
                got = w.call(f, [ins], v)
            except PyRaise as e:
                got = f"RAISES {e.exc}"
            want = v < max(op["version"], fver)
            n += 1
            rep.check(got is want, rule, f"{op['mnemonic']} under version {v}", where, got, want,
                      why="an instruction is reported as unsupported exactly when its introduction version exceeds the declared version",
                      sample={"line": line, "declared": v, "introduced": op["version"], "flagged": want})
    # fields, one per family, boundary versions
    fams = ctx.spec("avm_fields.json")["families"]
    carriers = {"TransactionField": "txn {}", "GlobalField": "global {}", "AssetHoldingField": "asset_holding_get {}", "AssetParamsField": "asset_params_get {}",
                "AppParamsField": "app_params_get {}", "AcctParamsField": "acct_params_get {}"}
    opver = {op["mnemonic"]: op["version"] for op in _spec_ops(ctx)}
    for fam, tmpl in carriers.items():
        for fname, info in fams[fam].items():
            line = tmpl.format(fname + (" 1" if info["array"] else ""))
            if info["array"]:
                line = line.replace("txn ", "txna ")
            ins = b.ins(line)
            iv = opver[line.split()[0]]
            for v in sorted({max(1, info["version"] - 1), info["version"], min(8, info["version"] + 1)}):
                got = w.call(f, [ins], v)
                want = v < max(iv, info["version"])
                n += 1
                rep.check(got is want, rule, f"{fam}.{fname} under version {v}", where, got, want,
                          why="a field is reported as unsupported exactly when its introduction version exceeds the declared version")
    # mixed mode
    for lines, want in ((["arg 0", "app_global_get"], True), (["arg 0", "int 1"], False), (["app_global_get", "int 1"], False),
                        (["int 1", "balance", "args"], True), (["int 1"], False)):
        got = w.call(f, [b.ins(l) for l in lines], 8)
        rep.check(got is want, rule, f"mixed mode: {lines}", where, got, want)
    # the mixture is reported (on stderr) whatever the declared version is
    for lines, v, want in ((["arg 0", "app_global_get"], 1, True), (["arg_0", "log"], 4, True), (["args", "app_global_get"], 4, True), (["arg 0", "box_del"], 2, True),
                           (["app_global_get", "log"], 1, False), (["arg 0", "args"], 1, False), (["int 1", "log"], 1, False)):
        w.stderr = []
        w.call(f, [b.ins(l) for l in lines], v)
        said = any("both Application and Signature" in l for l in w.stderr)
        unsupported = sum(1 for l in w.stderr if "is not supported in Teal version" in l)
        rep.check(said is want, rule, f"mixture reported for {lines} under version {v}", where, {"mixture reported": said, "unsupported reports": unsupported}, {"mixture reported": want},
                  why="a program using application-only and signature-only instructions is flagged, also when some of them are newer than the declared version")
    w.stderr = None
    rep.count("version rows", n)
    rep.require(n >= 1500, f"only {n} version rows")


def _enum_name(v):
    return v.name if isinstance(v, EnumMember) else str(v)


def rule_mode_and_type(ctx, rep):
    rule = "T-MODE"
    rep.rule(rule, "execution mode = mode of the first instruction that is not available in both modes; declared version = #pragma version (1 when "
                   "absent); Stateful contracts are approval programs, everything else logic signatures; a logic signature is analysed as "
                   "logic_sig, an application as application")
    w = ctx.world
    pt = w.func(PT, "parse_teal")
    where = ctx.path(PT)
    progs = {
        "stateless first": ("#pragma version 6\narg 0\npop\nint 1\nreturn\n", 6, "STATELESS", "LogicSig"),
        "stateful first": ("#pragma version 5\nint 0\napp_global_get\npop\nint 1\nreturn\n", 5, "STATEFUL", "ApprovalProgram"),
        "neither": ("#pragma version 4\nint 1\nreturn\n", 4, "ANY", "LogicSig"),
        "no pragma": ("int 1\nint 1\n==\n", 1, "ANY", "LogicSig"),
        "stateful after stateless-neutral code": ("#pragma version 8\ntxn Fee\npop\nbyte \"k\"\nbox_del\nreturn\n", 8, "STATEFUL", "ApprovalProgram"),
        "stateful only in a subroutine": ("#pragma version 6\ncallsub f\nint 1\nreturn\nf:\nint 0\nbalance\npop\nretsub\n", 6, "STATEFUL", "ApprovalProgram"),
        "version 2": ("#pragma version 2\nint 1\nreturn\n", 2, "ANY", "LogicSig"),
        # the AVM checks every instruction of the program against the mode, reachable or not
        "stateful only in code after return": ("#pragma version 6\nint 1\nreturn\nint 0\napp_global_get\npop\n", 6, "STATEFUL", "ApprovalProgram"),
        "stateless only under a label nobody jumps to": ("#pragma version 6\nint 1\nreturn\ndead:\narg 0\npop\nint 1\nreturn\n", 6, "STATELESS", "LogicSig"),
        "stateful only in an uncalled subroutine": ("#pragma version 6\nint 1\nreturn\nf:\nbyte \"m\"\nlog\nretsub\n", 6, "STATEFUL", "ApprovalProgram"),
    }
    for name, (src, ver, mode, ctype) in progs.items():
        try:
            teal = w.call(pt, src, "c")
            got = (w.getattr(teal, "version"), _enum_name(w.getattr(teal, "mode")), _enum_name(w.getattr(teal, "contract_type")))
        except PyRaise as e:
            got = f"RAISES {e.exc} {e.where}"
        rep.check(got == (ver, mode, ctype), rule, f"{name}", where, got, (ver, mode, ctype), sample={"program": name, "version": ver, "mode": mode, "type": ctype})
    # routing
    for name in ("stateless first", "stateful first", "neither"):
        src, ver, mode, ctype = progs[name]
        tl = build_tealer(ctx, src)
        grp = w.getattr(tl, "groups")[0]
        txn = w.getattr(grp, "transactions")[0]
        ls, app = w.getattr(txn, "logic_sig"), w.getattr(txn, "application")
        want = ("logic_sig" if ctype == "LogicSig" else "application")
        got = "logic_sig" if (ls is not None and app is None and w.getattr(txn, "has_logic_sig")) else "application" if (app is not None and ls is None) else "both/none"
        rep.check(got == want, rule, f"routing of a {ctype} ({name})", ctx.path("tealer.utils.command_line.common"), got, want)


def rule_detect_mode_table(ctx, rep):
    rule = "T-MODE(table)"
    rep.rule(rule, "_detect_execution_mode over instruction lists: the first instruction whose mode is not ANY decides, ANY when there is none")
    w = ctx.world
    b = Builder(ctx)
    f = w.func(PT, "_detect_execution_mode")
    where = f"{ctx.path(PT)}:{f.node.lineno}"
    A, S, L = "int 1", "app_global_get", "arg 0"
    for seq in itertools.product((A, S, L), repeat=3):
        want = next((("STATEFUL" if x == S else "STATELESS") for x in seq if x != A), "ANY")
        got = _enum_name(w.call(f, [b.ins(x) for x in seq]))
        rep.check(got == want, rule, " ; ".join(seq), where, got, want)
    rep.check(_enum_name(w.call(f, [])) == "ANY", rule, "empty list", where, _enum_name(w.call(f, [])), "ANY")


def rule_config_version(ctx, rep):
    rule = "T-VERSION(config)"
    rep.rule(rule, "a contract loaded through a group configuration keeps the version its source declares (#pragma version, 1 when absent), its mode "
                   "and its costs, whatever the configuration's own `version` entry says")
    w = ctx.world
    GC = "tealer.utils.command_line.group_config"
    COMMON = "tealer.utils.command_line.common"
    w.module("tealer.teal.parse_functions").values["_apply_transaction_context_analysis"] = ("builtin", "noop")
    from_yaml = w.getattr(w.cls(GC, "GroupConfig"), "from_yaml")
    init = w.func(COMMON, "init_tealer_from_config")
    where = f"{ctx.path(COMMON)}:{init.node.lineno}"
    srcs = {"v2.teal": "#pragma version 2\nbyte \"a\"\nsha256\npop\nint 1\nreturn\n", "v6.teal": "#pragma version 6\nint 0\nbyte \"k\"\napp_global_get\npop\nint 1\nreturn\n",
            "nov.teal": "int 1\nint 1\n==\n"}
    want = {"A": (2, "ANY"), "B": (6, "STATEFUL"), "C": (1, "ANY")}
    for cfg_version in (1, 8):
        w.files = dict(srcs)
        doc = {"name": "g", "contracts": [
            {"name": "A", "file_path": "v2.teal", "type": "LogicSig", "version": cfg_version, "subroutines": [], "functions": [{"name": "main", "dispatch_path": ["B0"]}]},
            {"name": "B", "file_path": "v6.teal", "type": "ApprovalProgram", "version": cfg_version, "subroutines": [], "functions": [{"name": "main", "dispatch_path": ["B0"]}]},
            {"name": "C", "file_path": "nov.teal", "type": "LogicSig", "version": cfg_version, "subroutines": [], "functions": [{"name": "main", "dispatch_path": ["B0"]}]}],
            "groups": [{"operation": "op", "transactions": [{"txn_id": "T0", "txn_type": "pay", "logic_sig": {"contract": "A", "function": "main"}},
                                                             {"txn_id": "T1", "txn_type": "appl", "application": {"contract": "B", "function": "main"}},
                                                             {"txn_id": "T2", "txn_type": "pay", "logic_sig": {"contract": "C", "function": "main"}}]}]}
        try:
            tl = w.call(init, w.call(from_yaml, doc))
            got = {}
            costs = {}
            for name, c in w.getattr(tl, "contracts").items():
                got[str(name).upper()[:1] if len(str(name)) == 1 else str(name)] = (w.getattr(c, "version"), _enum_name(w.getattr(c, "mode")))
                costs[str(name)] = [w.getattr(b, "cost") for b in w.getattr(c, "bbs")]
        except PyRaise as e:
            got, costs = f"RAISES {e.exc} {e.where}", None
        got_n = {k.upper(): v for k, v in got.items()} if isinstance(got, dict) else got
        rep.check(got_n == want, rule, f"declared versions and modes with `version: {cfg_version}` in the configuration", where, got_n, want,
                  why="the version of a contract follows the configuration file instead of the program")
        if isinstance(costs, dict):
            ca = next((v for k, v in costs.items() if k.upper() == "A"), None)
            # sha256 costs 35 from version 2 on (7 in version 1): block cost 1 (byte) + 35 + 1 (pop) + 1 (int) + 1 (return) ; the pragma line costs nothing
            rep.check(ca == [39], rule, f"block cost of the version-2 contract with `version: {cfg_version}` in the configuration", where, ca, [39])
