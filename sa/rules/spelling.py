"""C15: spellings of the same program element are read identically (the clauses visible in the source)."""
import ast
import itertools

from ..absint import Obj, Interp, PyRaise, Unsupported
from ..absobj import Builder
from .cmptables import _find_analyses, _call, _analysis_where, _fee_view, _den, _addr_consts, _labels
from .cfg_rules import SHAPES, tealer_cfg, PT
from ..tables import PARSE


def _val(ctx, o, attr):
    try:
        return ctx.world.getattr(o, attr)
    except PyRaise as e:
        return f"RAISES {e.exc}"


def rule_int_spellings(ctx, rep):
    rule = "T-SPELL(int)"
    rep.rule(rule, "an integer immediate written in decimal, hexadecimal (0x..) or octal (leading 0) parses to the same value, for int/pushint "
                   "and for every opcode with integer immediates; both integer parsers of the package agree")
    w = ctx.world
    b = Builder(ctx)
    where = ctx.path(PARSE)
    p1 = w.func(PARSE, "_parse_int")
    p2 = w.func("tealer.teal.instructions.parse_transaction_field", "_parse_int")
    samples = {0: ["0", "0x0", "00"], 1: ["1", "0x1", "01", "0x01"], 8: ["8", "0x8", "010"], 16: ["16", "0x10", "020", "0x0010"],
               255: ["255", "0xff", "0xFF", "0377"], 272000: ["272000", "0x42680", "01023200"], 18446744073709551615: ["18446744073709551615", "0xffffffffffffffff"]}
    for want, spells in samples.items():
        for sp in spells:
            for nm, f in (("instruction parser", p1), ("field parser", p2)):
                try:
                    got = w.call(f, sp)
                except PyRaise as e:
                    got = f"RAISES {e.exc}"
                rep.check(got == want, rule, f"{nm}: '{sp}'", where, got, want, sample={"spelling": sp, "value": want})
            for opc in ("int", "pushint"):
                o = b.ins(f"{opc} {sp}")
                rep.check(_val(ctx, o, "value") == want, rule, f"{opc} {sp}", where, _val(ctx, o, "value"), want)
    for line_a, line_b, attrs in (("gtxn 2 Fee", "gtxn 0x2 Fee", ["idx"]), ("load 10", "load 0xa", ["idx"]), ("dig 3", "dig 03", ["idx"]),
                                  ("intc 4", "intc 0x4", ["index"]), ("gtxna 1 ApplicationArgs 2", "gtxna 0x1 ApplicationArgs 0x2", ["idx"]),
                                  ("pushints 1 16 255", "pushints 0x1 020 0xff", []), ("intcblock 1 16", "intcblock 01 0x10", ["constants"]),
                                  ("txna ApplicationArgs 10", "txna ApplicationArgs 0xa", []), ("substring 2 10", "substring 0x2 012", [])):
        a, c = b.ins(line_a), b.ins(line_b)
        it = Interp(a.cls.mod)
        same = a.cls is c.cls and it.to_str(a) == it.to_str(c) and all(_val(ctx, a, x) == _val(ctx, c, x) for x in attrs)
        rep.check(same, rule, f"'{line_a}' == '{line_b}'", where, it.to_str(c), it.to_str(a))
    # every opcode of the specification that takes integer immediates (transaction index, array index, slot, depth, ...): the value 8 written
    # as 8, 0x8 and 010 in every integer position gives the same instruction (class, fields, printed form)
    from .optable import op_lines
    pl = w.func(PARSE, "parse_line")
    seen, n = set(), 0
    for op, line, imms in op_lines(ctx):
        kinds = op["imm"]
        if op["mnemonic"] in seen or not any(k == "int" or (k == "field" and str(v).endswith(" 1")) for k, v in zip(kinds, imms)) or "0" in imms:
            continue
        seen.add(op["mnemonic"])
        forms = {}
        for sp in ("8", "0x8", "010"):
            toks = [op["mnemonic"]]
            for k, v in zip(kinds, imms):
                if v in (None, ""):
                    continue
                toks.append(sp if k == "int" else (str(v)[:-1] + sp if k == "field" and str(v).endswith(" 1") else str(v)))
            try:
                o = w.call(pl, " ".join(toks))
                forms[sp] = (o.cls.name, Interp(o.cls.mod).to_str(o), sorted((k, v) for k, v in o.fields.items() if isinstance(v, int) and not isinstance(v, bool)))
            except PyRaise as e:
                forms[sp] = ("RAISES", e.exc, " ".join(toks))
        n += 1
        bad = {sp: f for sp, f in forms.items() if f != forms["8"] or f[0] == "RAISES"}
        rep.check(not bad, rule, f"{op['mnemonic']}: integer immediates 8 / 0x8 / 010", where, bad, {"8": forms["8"]},
                  why="the same immediate written in another base is read as a different value", sample={"opcode": op["mnemonic"], "decimal form": forms["8"][1]})
    rep.count("opcodes with integer immediates compared in three bases", n)
    rep.require(n >= 25, f"only {n} opcodes with integer immediates found in the specification")


def rule_named_constants(ctx, rep):
    rule = "T-SPELL(named)"
    rep.rule(rule, "a transaction type or completion action named by word or by number yields the same table cell; the name tables equal the AVM's")
    fs = ctx.spec("avm_fields.json")
    an = _find_analyses(ctx)
    cls = an["txn_types"]
    me = Obj(cls)
    where = _analysis_where(ctx, cls.mod.name, cls.name)
    b = Builder(ctx)
    key = list(ctx.world.getattr(me, "BASE_KEYS"))[0]
    for field, names in (("TypeEnum", fs["type_enum"]), ("OnCompletion", fs["on_completion"])):
        for (nm, num), opsym, pos in itertools.product(names.items(), ("==", "!="), "LR"):
            if nm == "unknown":
                continue
            cells = []
            for spell in (f"int {nm}", f"int {num}", f"pushint {num}", f"pushint {nm}", f"int 0x{num:x}"):
                seq = [f"txn {field}", spell] if pos == "L" else [spell, f"txn {field}"]
                v, _, _ = b.operand(seq + [opsym])
                got = _call(ctx, me, "_get_asserted_single", key, v)
                cells.append((spell, (sorted(_labels(got[0])), sorted(_labels(got[1]))) if isinstance(got, tuple) and isinstance(got[0], set) else got))
            ok = all(c[1] == cells[0][1] for c in cells)
            rep.check(ok, rule, f"{field} {opsym} {nm} ({pos})", where, [c for c in cells if c[1] != cells[0][1]][:2], f"same cell as '{cells[0][0]}'",
                      sample={"field": field, "constant": nm, "number": num})


def rule_constant_block(ctx, rep):
    rule = "T-SPELL(intc)"
    rep.rule(rule, "`int c`, `pushint c`, `intc k` / `intc_k` (k-th entry of the single entry-block intcblock) give the same comparison-table cell; "
                   "an unresolvable intc gives no information; the constant block is resolved only when there is exactly one, in the entry block")
    w = ctx.world
    an = _find_analyses(ctx)
    b = Builder(ctx)
    TEAL = w.cls("tealer.teal.teal", "Teal")

    def mk_teal(consts):
        t = Obj(TEAL, _version=8, _int_constants=[], _byte_constants=[])
        if consts is not None:
            w.call(w.method(t, "set_int_constants"), list(consts))
        return t

    teal = mk_teal([7, 3, 1000, 4])
    cases = [("int_fields", "GroupSize", "global GroupSize", 3, "intc 1", "intc_1"), ("fee_field", "Fee", "txn Fee", 1000, "intc 2", "intc_2"),
             ("txn_types", "TransactionType", "txn OnCompletion", 4, "intc 3", "intc_3"), ("int_fields", "GroupIndex", "txn GroupIndex", 7, "intc 0", "intc_0")]
    for modname, key, line, c, sp1, sp2 in cases:
        cls = an[modname]
        me = Obj(cls)
        where = _analysis_where(ctx, cls.mod.name, cls.name)

        def view(got):
            if isinstance(got, tuple) and len(got) == 2:
                if isinstance(got[0], Obj):
                    return tuple(_fee_view(ctx, x) for x in got)
                if isinstance(got[0], set):
                    return (sorted(map(str, got[0])), sorted(map(str, got[1])))
            return got

        for opsym, pos in itertools.product(("==", "<", ">="), "LR"):
            if modname == "txn_types" and opsym != "==":
                continue
            cells = []
            for spell in (f"int {c}", f"pushint {c}", sp1, sp2):
                seq = [line, spell] if pos == "L" else [spell, line]
                v, _, _ = b.operand(seq + [opsym], teal=teal)
                cells.append((spell, view(_call(ctx, me, "_get_asserted_single", key, v))))
            ok = all(x[1] == cells[0][1] for x in cells)
            rep.check(ok, rule, f"{key} {opsym} {c} ({pos}): int / pushint / intc / intc_k", where, [x for x in cells if x[1] != cells[0][1]][:2], f"same cell as '{cells[0][0]}'",
                      why="the verdict depends on how the constant is spelled", sample={"key": key, "c": c, "spellings": [x[0] for x in cells]})
        # an index outside the constant block / no resolved block: no information, no exception
        for tl, nm in ((mk_teal([7]), "index outside the block"), (mk_teal(None), "no resolved constant block")):
            v, _, _ = b.operand([line, "intc 3", "=="], teal=tl)
            got = _call(ctx, me, "_get_asserted_single", key, v)
            v0, _, _ = b.operand([line, "load 0", "=="], teal=tl)
            base = _call(ctx, me, "_get_asserted_single", key, v0)
            if modname == "fee_field":
                ok = view(got) == view(base)
            else:
                ok = view(got) == view(base)
            rep.check(ok and not (isinstance(got, tuple) and got and got[0] == "RAISES"), rule, f"{key}: intc with {nm}", where, view(got), view(base),
                      why="an intc the tool cannot resolve must be treated like any value it cannot evaluate")
    # resolution rule of _fill_intc_bytec_info
    f = w.func(PT, "_fill_intc_bytec_info")
    where = f"{ctx.path(PT)}:{f.node.lineno}"
    for nm, blocks, want in (("one intcblock in the entry block", [["intcblock 5 6", "int 1"], ["int 2"]], [5, 6]),
                             ("intcblock outside the entry block", [["int 1"], ["intcblock 5 6"]], []),
                             ("two intcblocks", [["intcblock 5 6", "intcblock 7"], ["int 2"]], []),
                             ("one intcblock in the entry block and another one later", [["intcblock 5 6", "int 1"], ["intcblock 7 8"]], []),
                             ("two intcblocks outside the entry block", [["int 1"], ["intcblock 5 6"], ["intcblock 7"]], []),
                             ("no intcblock", [["int 1"], ["int 2"]], [])):
        t = mk_teal(None)
        bbs, allins = [], []
        for k, lines in enumerate(blocks):
            bb, objs = b.block(lines, idx=k, teal=t)
            bbs.append(bb)
            allins += objs
        icb = [o for o in allins if o.cls.name == "Intcblock"]
        w.call(f, icb, [], bbs[0], t)
        got = list(w.getattr(t, "_int_constants"))
        rep.check(got == want, rule, f"constant block resolution: {nm}", where, got, want)


def rule_one_door(ctx, rep):
    rule = "R-DOOR"
    rep.rule(rule, "outside utils/analyses.py no analysis or detector recognises integer/byte constants by testing instruction classes itself: "
                   "all go through is_int_push_ins / is_byte_push_ins (so int, pushint and intc* are treated alike)")
    const_classes = {"Int", "PushInt", "IntcInstruction", "Intc", "Intc0", "Intc1", "Intc2", "Intc3", "Byte", "PushBytes", "BytecInstruction",
                     "Bytec", "Bytec0", "Bytec1", "Bytec2", "Bytec3"}
    n = 0
    doors = 0
    for modname, tree in ctx.trees.items():
        if not (modname.startswith("tealer.analyses") or modname.startswith("tealer.detectors") or modname == "tealer.utils.analyses"):
            continue
        for node in ast.walk(tree):
            if isinstance(node, ast.Call) and isinstance(node.func, ast.Name) and node.func.id == "isinstance" and len(node.args) == 2:
                names = {x.id if isinstance(x, ast.Name) else getattr(x, "attr", None) for x in ast.walk(node.args[1]) if isinstance(x, (ast.Name, ast.Attribute))}
                n += 1
                if names & const_classes:
                    if modname == "tealer.utils.analyses":
                        doors += 1
                    else:
                        rep.violation(rule, f"{modname}: {ast.unparse(node)[:70]}", f"{ctx.path(modname)}:{node.lineno}", sorted(names & const_classes),
                                      "is_int_push_ins / is_byte_push_ins", "a constant spelled with another opcode would be treated differently")
            if isinstance(node, ast.Call) and isinstance(node.func, ast.Name) and node.func.id in ("is_int_push_ins", "is_byte_push_ins"):
                rep.ok(rule, {"site": f"{modname}:{node.lineno}", "door": node.func.id})
    rep.count("isinstance tests inspected", n)
    rep.require(doors >= 2, "the constant recognisers in utils/analyses.py were not found")


def _rewrite(src):
    """meaning-preserving rewrite: rename labels, indent, add comments and blank lines; returns (new source, old line -> new line)"""
    import re
    labels = re.findall(r"(?m)^\s*([A-Za-z_][\w]*):", src)
    ren = {l: f"renamed_{k}_{l[::-1]}" for k, l in enumerate(labels)}
    out, mapping = [], {}
    for i, raw in enumerate(src.splitlines(), start=1):
        t = raw
        if t.strip() and not t.strip().startswith("//") and not t.strip().startswith("#pragma"):
            toks = t.split()
            code = []
            for tok in toks:
                if tok.startswith("//"):
                    break
                code.append(tok)
            rest = toks[len(code):]
            if code and code[0].endswith(":") and code[0][:-1] in ren:
                code[0] = ren[code[0][:-1]] + ":"
            elif code and code[0] in ("b", "bz", "bnz", "callsub", "switch", "match"):
                code = [code[0]] + [ren.get(x, x) for x in code[1:]]
            t = "    " + "   ".join(code) + ("   // note" if i % 2 else "") + (" " + " ".join(rest) if rest else "")
            out.append("// a comment line")
            if i % 3 == 0:
                out.append("")
        out.append(t)
        mapping[i] = len(out)
    return "\n".join(out) + "\n", mapping


def rule_rewrite_invariance(ctx, rep):
    rule = "T-REWRITE"
    rep.rule(rule, "renaming labels, adding comment lines, blank lines, indentation and trailing comments leaves the graph unchanged up to the "
                   "induced renumbering of lines (on the abstract program shape classes)")
    where = ctx.path(PT)
    n = 0
    for name, src in SHAPES.items():
        if name == "comments and blank lines":
            continue
        new, mapping = _rewrite(src)
        try:
            a, _ = tealer_cfg(ctx, src)
            c, _ = tealer_cfg(ctx, new)
        except PyRaise as e:
            rep.violation(rule, f"{name}: builds", where, f"RAISES {e.exc} {e.where}", "two graphs")
            continue
        def norm(g, m=None):
            return {k: {"lines": [m[l] if m else l for l in v["lines"]], "next": v["next"], "prev": v["prev"]} for k, v in g["blocks"].items()}
        def subs(g):
            return sorted((v["entry"], tuple(v["blocks"]), tuple(v["exits"]), tuple(v["callers"]), tuple(v["return_points"])) for v in g["subs"].values())
        n += 1
        rep.check(norm(a, mapping) == norm(c) and subs(a) == subs(c), rule, name, where, norm(c), norm(a, mapping),
                  why="the graph depends on label names, comments or layout", sample={"program": name})
    rep.count("programs rewritten", n)


def _pad(src):
    """insert stack-neutral padding (`int 0; pop`, a comment) after every bz/bnz/b/callsub line and before every label;
    returns (new source, old line -> new line)"""
    out, mapping = [], {}
    for i, raw in enumerate(src.splitlines(), start=1):
        t = raw.strip()
        if t.endswith(":") and i > 1:
            out += ["// padding before a label", "int 0", "pop"]
        out.append(raw)
        mapping[i] = len(out)
    return "\n".join(out) + "\n", mapping


PAD_PROGRAMS = {
    "branch to the next line on an OnCompletion check": "#pragma version 6\ntxn OnCompletion\nint UpdateApplication\n==\nbnz next\nnext:\nint 1\nreturn\n",
    "branch to the next line on a TypeEnum check": "#pragma version 6\ntxn TypeEnum\nint pay\n==\nbz next\nnext:\nint 1\nreturn\n",
    "branch to the next line on a RekeyTo check": "#pragma version 6\ntxn RekeyTo\nglobal ZeroAddress\n==\nbnz next\nnext:\nint 1\nreturn\n",
    "branch to the next line on a Fee check": "#pragma version 6\ntxn Fee\nint 1000\n<=\nbz next\nnext:\nint 1\nreturn\n",
    "diamond with size and kind checks": "#pragma version 6\nglobal GroupSize\nint 2\n==\nbnz two\ntxn OnCompletion\nint NoOp\n==\nassert\nb join\ntwo:\ntxn RekeyTo\nglobal ZeroAddress\n==\nassert\njoin:\nint 1\nreturn\n",
    "subroutine with a check, called twice": "#pragma version 6\ncallsub f\ntxn Fee\nint 1000\n<=\nassert\ncallsub f\nint 1\nreturn\nf:\ntxn OnCompletion\nint DeleteApplication\n!=\nassert\nretsub\n",
}


def rule_padding_invariance(ctx, rep):
    rule = "T-REWRITE(contexts)"
    rep.rule(rule, "inserting stack-neutral padding (`int 0; pop` and a comment before every label) leaves the per-block contexts of all four "
                   "analyses unchanged, incl. a branch whose target is the next line (the complete analysis is evaluated abstractly on the "
                   "program and on its padded version)")
    from .fixpoint import analyse
    where = ctx.path("tealer.analyses.dataflow.transaction_context.generic")
    for name, src in PAD_PROGRAMS.items():
        padded, mapping = _pad(src)
        try:
            a, la = analyse(ctx, src)
            c, lc = analyse(ctx, padded)
        except PyRaise as e:
            rep.violation(rule, f"{name}: runs", where, f"RAISES {e.exc} {e.where}", "two analyses")
            continue
        # blocks correspond through their first instruction (padding is inserted before labels: it extends the previous block or forms a new one)
        last_a = {b: mapping[ls[0]] for b, ls in la.items()}
        by_last_c = {ls[0]: b for b, ls in lc.items()}
        diffs = []
        for key in a:
            for b, v in a[key].items():
                cb = by_last_c.get(last_a[b])
                if cb is None:
                    diffs.append((key, b, "no corresponding block"))
                elif c[key][cb] != v:
                    diffs.append((key, f"B{b}", v, c[key][cb]))
        rep.check(not diffs, rule, name, where, diffs[:4], [], why="verdicts depend on stack-neutral padding", sample={"program": name, "keys": sorted(a)})


MOVE_PROGRAMS = {
    # main + two subroutines with different checks; the bodies of f and g are written in either order
    "two subroutines after main": (
        "#pragma version 6\nglobal GroupSize\nint 2\n==\nassert\ncallsub f\ntxn Amount\nbz skip\ncallsub g\nskip:\nint 1\nreturn\n",
        "f:\ntxn RekeyTo\nglobal ZeroAddress\n==\nassert\nretsub\n",
        "g:\ntxn Fee\nint 1000\n<=\nassert\ntxn GroupIndex\nint 0\n==\nassert\nretsub\n"),
    "nested call, callee written before or after its caller": (
        "#pragma version 6\ncallsub outer\nint 1\nreturn\n",
        "outer:\ntxn TypeEnum\nint pay\n==\nassert\ncallsub inner\nretsub\n",
        "inner:\ntxn CloseRemainderTo\nglobal ZeroAddress\n==\nassert\nretsub\n"),
    "subroutine with a loop and one that exits the program": (
        "#pragma version 6\ntxn NumAppArgs\nbz plain\ncallsub lp\nplain:\ncallsub fin\nint 0\nreturn\n",
        "lp:\nint 0\nagain:\nint 1\n+\ndup\nint 3\n<\nbnz again\npop\nglobal GroupSize\nint 3\n<\nassert\nretsub\n",
        "fin:\ntxn RekeyTo\nglobal ZeroAddress\n==\nbz bad\nint 1\nreturn\nbad:\nerr\n"),
}


def rule_move_subroutines(ctx, rep):
    rule = "T-REWRITE(move)"
    rep.rule(rule, "writing whole subroutine bodies in a different order leaves the graph (blocks by their text, successors, subroutines, callers, "
                   "return points) and the per-block contexts of all four analyses unchanged up to the induced renumbering of blocks and lines")
    from .fixpoint import analyse
    where = ctx.path(PT)
    for name, (main, f, g) in MOVE_PROGRAMS.items():
        a_src, b_src = main + f + g, main + g + f
        try:
            ga, _ = tealer_cfg(ctx, a_src)
            gb, _ = tealer_cfg(ctx, b_src)
            ca, la = analyse(ctx, a_src)
            cb, lb = analyse(ctx, b_src)
        except PyRaise as e:
            rep.violation(rule, f"{name}: runs", where, f"RAISES {e.exc} {e.where}", "two analyses")
            continue
        la_txt, lb_txt = a_src.split("\n"), b_src.split("\n")

        def key_of(lines_txt, block_lines):
            # a block is identified by the text of its instructions (labels make them unique in these programs)
            return tuple(lines_txt[l - 1] for l in block_lines)

        def graph(g, lines_txt):
            k = {b: key_of(lines_txt, v["lines"]) for b, v in g["blocks"].items()}
            blocks = {k[b]: {"next": [k[x] for x in v["next"]], "prev": sorted(k[x] for x in v["prev"])} for b, v in g["blocks"].items()}
            subs = sorted((k[v["entry"]], tuple(sorted(k[x] for x in v["blocks"])), tuple(sorted(k[x] for x in v["exits"])), tuple(sorted(k[x] for x in v["callers"])),
                           tuple(sorted(k[x] for x in v["return_points"]))) for v in g["subs"].values())
            return blocks, subs
        A, B = graph(ga, la_txt), graph(gb, lb_txt)
        rep.check(len(A[0]) == len(ga["blocks"]) and A == B, rule, f"{name}: graph", where, sorted(set(map(str, B[0].items())) ^ set(map(str, A[0].items())))[:4], [],
                  why="the graph depends on the order in which subroutine bodies are written", sample={"program": name})
        ka = {b: key_of(la_txt, ls) for b, ls in la.items()}
        kb = {key_of(lb_txt, ls): b for b, ls in lb.items()}
        diffs = []
        for key in ca:
            for b, v in ca[key].items():
                ob = kb.get(ka[b])
                if ob is None:
                    diffs.append((key, f"B{b}", "no corresponding block"))
                elif cb[key][ob] != v:
                    diffs.append((key, f"B{b} / B{ob}", v, cb[key][ob]))
        rep.check(not diffs, rule, f"{name}: contexts", ctx.path("tealer.analyses.dataflow.transaction_context.generic"), diffs[:4], [],
                  why="block contexts depend on the order in which subroutine bodies are written", sample={"program": name, "keys": sorted(ca)})


def rule_fixpoint_order(ctx, rep):
    rule = "T-ORDER(fixpoint)"
    rep.rule(rule, "the contexts the four analyses compute do not depend on the order of the function's block list and subroutine table (both "
                   "come out of a set of subroutine objects in construct_function, i.e. in an order that changes from run to run): the complete "
                   "analysis evaluated with both orders on programs with two subroutines, loops and early exits gives the same per-block result")
    from .fixpoint import analyse
    where = ctx.path("tealer.analyses.dataflow.transaction_context.generic")
    progs = {name: main + f + g for name, (main, f, g) in MOVE_PROGRAMS.items()}
    progs.update({k: v for k, v in PAD_PROGRAMS.items() if "subroutine" in k or "diamond" in k})
    for name, src in progs.items():
        try:
            a, la = analyse(ctx, src)
            b, lb = analyse(ctx, src, reverse_order=True)
        except PyRaise as e:
            rep.violation(rule, f"{name}: runs", where, f"RAISES {e.exc} {e.where}", "two analyses")
            continue
        diffs = [(key, f"B{blk}", a[key][blk], b[key].get(blk)) for key in a for blk in a[key] if a[key][blk] != b[key].get(blk)]
        rep.check(not diffs and la == lb, rule, name, where, diffs[:4], [], why="block contexts depend on the order in which blocks and subroutines are listed",
                  sample={"program": name, "keys": sorted(a)})


def rule_spelled_programs(ctx, rep):
    rule = "T-SPELL(program)"
    rep.rule(rule, "whole programs whose integer constants are respelled (hex, octal, pushint, entry-block intcblock + intc_k) go through parse_teal, "
                   "construct_function and the four analyses with the same per-block contexts as the original")
    from .fixpoint import analyse
    from .. import gen
    where = ctx.path(PT)
    progs = {"diamond with size and kind checks": PAD_PROGRAMS["diamond with size and kind checks"],
             "subroutine with a check, called twice": PAD_PROGRAMS["subroutine with a check, called twice"],
             "fee, size and index checks with a loop": "#pragma version 6\nint 0\nloop:\nint 1\n+\ndup\nint 3\n<\nbnz loop\npop\ntxn Fee\nint 2000\n<=\nassert\nglobal GroupSize\nint 4\n<\nassert\n"
                                                       "txn GroupIndex\nint 1\n>=\nbz out\nint 1\nreturn\nout:\nint 0\nreturn\n"}
    for name, src in progs.items():
        try:
            base, lines0 = analyse(ctx, src)
        except PyRaise as e:
            rep.violation(rule, f"{name}: runs", where, f"RAISES {e.exc} {e.where}", "an analysis")
            continue
        for variant in ("hex", "octal", "pushint", "intc"):
            new = gen.rewrite(src, variant)
            try:
                got, lines1 = analyse(ctx, new)
            except PyRaise as e:
                rep.violation(rule, f"{name} / {variant}: runs", where, f"RAISES {e.exc} {e.where}", "an analysis")
                continue
            diffs = [(key, f"B{b}", got[key].get(b), v) for key in base for b, v in base[key].items() if got.get(key, {}).get(b) != v]
            rep.check(not diffs and sorted(lines0) == sorted(lines1), rule, f"{name} / {variant}", where, diffs[:4], [],
                      why="the spelling of an integer constant changes a block context", sample={"program": name, "variant": variant})


LAYOUT_PAIRS = {
    # (original, the same program with another layout / spelling of immediates on the lines that are not integer constants)
    "address compared with a value from scratch space": (
        "#pragma version 6\ntxn RekeyTo\nload 10\n==\nassert\ntxn CloseRemainderTo\nglobal CreatorAddress\n==\nassert\nint 1\nreturn\n",
        "#pragma version 6\n   txn RekeyTo // the field\n\tload 0xa   // slot ten\n==\nassert\ntxn   CloseRemainderTo\n  global CreatorAddress // creator\n==\nassert\nint 1\nreturn\n"),
    "address compared with another transaction's field and with application state": (
        "#pragma version 6\ntxn Sender\ngtxn 1 Receiver\n==\nassert\ntxn AssetCloseTo\nbyte \"k\"\napp_global_get\n==\nbz no\nint 1\nreturn\nno:\nerr\n",
        "#pragma version 6\ntxn Sender\n gtxn 01 Receiver // peer\n==\nassert\ntxn AssetCloseTo\nbyte \"k\" // key\n\tapp_global_get\n==\nbz no\nint 1\nreturn\nno:\nerr\n"),
    "fee and group size compared with run-time values": (
        "#pragma version 6\ntxn Fee\nload 1\n<=\nassert\nglobal GroupSize\nload 2\n==\nassert\nint 1\nreturn\n",
        "#pragma version 6\ntxn Fee\nload 0x1 // max fee\n<=\nassert\nglobal GroupSize\n  load 02\n==\nassert\nint 1\nreturn\n"),
}


def rule_layout_pairs(ctx, rep):
    rule = "T-REWRITE(pairs)"
    rep.rule(rule, "pairs of programs that differ only in comments, whitespace and the spelling of immediates on lines other than integer "
                   "constants (scratch slots, transaction indices): the four analyses give the same per-block contexts - the names the address "
                   "analysis gives to run-time addresses included")
    from .fixpoint import analyse
    where = ctx.path("tealer.analyses.dataflow.transaction_context.addr_fields")
    for name, (a_src, b_src) in LAYOUT_PAIRS.items():
        try:
            a, la = analyse(ctx, a_src, which=(("int_fields", None), ("addr_fields", None), ("fee_field", ["Fee"]), ("txn_types", None)))
            b, lb = analyse(ctx, b_src, which=(("int_fields", None), ("addr_fields", None), ("fee_field", ["Fee"]), ("txn_types", None)))
        except PyRaise as e:
            rep.violation(rule, f"{name}: runs", where, f"RAISES {e.exc} {e.where}", "two analyses")
            continue
        diffs = [(key, f"B{blk}", a[key][blk], b[key].get(blk)) for key in a for blk in a[key] if a[key][blk] != b.get(key, {}).get(blk)]
        rep.check(not diffs and sorted(la) == sorted(lb), rule, name, where, diffs[:3], [], why="a block context depends on how a line of the source is written",
                  sample={"pair": name, "keys": sorted(a)})
