"""Detector side of C01 / C02 / C13: dangerous-value predicates, the report gate and the path search."""
import ast
import itertools

from ..absint import Obj, Interp, PyRaise, Unsupported, FuncV, ClassV, EnumMember
from ..absobj import Builder, Graph
from .. import guards as G
from .cmptables import _call

DU = "tealer.detectors.utils"
BTCM = "tealer.teal.context.block_transaction_context"
ENUMS = "tealer.utils.teal_enums"


# ---------------------------------------------------------------------------------------------- discovery

HELPERS = ("detect_missing_tx_field_validations_group", "detect_missing_tx_field_validations_group_complete", "detect_missing_tx_field_validations")


def _captured_closures(ctx, d, output_group):
    """run the detector's detect() with the path-search helpers replaced by probes (in whichever module they are called from);
    returns [(helper, positional args, keyword args, arguments bound to the helper's parameter names)]"""
    w = ctx.world
    du = w.module(DU)
    got = []
    probes = {}
    real = {}
    for h in HELPERS:
        if h not in du.defs:
            continue
        du.values.pop(h, None) if isinstance(du.values.get(h), tuple) else None
        real[h] = du.lookup(h)

        def probe(*args, _h=h, **kw):
            params = [a.arg for a in real[_h].node.args.posonlyargs + real[_h].node.args.args]
            bound = dict(zip(params, args))
            bound.update(kw)
            got.append((_h, list(args), dict(kw), bound))
            return []
        probes[h] = ("host", probe)
    saved = []
    for m in [m for m in w.cache.values() if m is not None]:
        for h, pv in probes.items():
            if h in m.values:
                saved.append((m, h, m.values[h]))
                m.values[h] = pv
    for h, pv in probes.items():
        du.values[h] = pv
    try:
        TL = w.cls("tealer.tealer", "Tealer")
        tl = Obj(TL, _output_group=output_group)
        tl.fields["output_group"] = output_group
        det = Obj(d["cls"], tealer=tl)
        w.call(w.method(det, "detect"))
    finally:
        for m in [m for m in w.cache.values() if m is not None]:
            for h, pv in probes.items():
                if m.values.get(h) is pv:
                    del m.values[h]
        for m, h, v in saved:
            m.values[h] = v
        for h, v in real.items():
            du.values[h] = v
    return got


def path_detectors(ctx):
    """AbstractDetector subclasses whose detect() reaches one of the path-search helpers, found by running detect() abstractly with the
    helpers replaced by probes: {NAME: {cls, mod, detect, calls (by output_group), pred_fv, report_fv, types_value, pred, report}}"""
    def build():
        w = ctx.world
        base = w.cls("tealer.detectors.abstract_detector", "AbstractDetector")
        out = {}
        for modname, tree in ctx.trees.items():
            if not modname.startswith("tealer.detectors."):
                continue
            mod = w.module(modname)
            for st in tree.body:
                if not isinstance(st, ast.ClassDef):
                    continue
                cls = mod.lookup(st.name)
                if not (isinstance(cls, ClassV) and cls.is_sub(base) and cls is not base):
                    continue
                c, det = cls.find("detect")
                if det is None or "abstractmethod" in {getattr(x, "attr", getattr(x, "id", None)) for x in det.decorator_list}:
                    continue
                d = {"cls": cls, "mod": c.mod, "detect": det, "calls": {}}
                for og in (False, True):
                    try:
                        d["calls"][og] = _captured_closures(ctx, d, og)
                    except (PyRaise, Unsupported):
                        d["calls"][og] = []
                first = d["calls"][False] or d["calls"][True]
                if not first:
                    continue
                bound = first[0][3]
                pred = bound.get("checks_field")
                if not isinstance(pred, FuncV):
                    continue
                d["pred_fv"], d["pred"] = pred, pred.node
                rc = bound.get("satisfies_report_condition")
                d["report_fv"], d["report"] = (rc, rc.node) if isinstance(rc, FuncV) else (None, None)
                d["types_value"] = None
                for call in d["calls"][True]:
                    if call[3].get("vulnerable_transaction_types") is not None:
                        d["types_value"] = call[3]["vulnerable_transaction_types"]
                try:
                    name = w.getattr(cls, "NAME")
                except PyRaise:
                    continue
                out[name] = d
        return out
    return ctx.cached("path_detectors", build)


def _mk_ctx(ctx, **attrs):
    w = ctx.world
    BTC = w.cls(BTCM, "BlockTransactionContext")
    AFV = w.cls(BTCM, "AddrFieldValue")
    c = w.new(BTC)
    it = Interp(BTC.mod)
    for k, v in attrs.items():
        if k in ("rekeyto", "closeto", "assetcloseto", "sender"):
            v = w.new(AFV, any_addr=v, no_addr=False, possible_addr=[] if v else ["X"])
        it.assign_attr(c, k, v)
    return c


def _types(ctx, *names, exclude=()):
    w = ctx.world
    T = w.cls(ENUMS, "TealerTransactionType")
    allt = list(w.module(ENUMS).lookup("ALL_TRANSACTION_TYPES"))
    return [t for t in allt if t.name not in exclude]


def _pred_tables(ctx):
    const = ctx.spec("avm_fields.json")["constants"]
    K, MAXU, N = const["MAX_TRANSACTION_COST"], const["MAX_UINT64"], const["MAX_GROUP_SIZE"]

    def tt(present, label):
        return _types(ctx, exclude=() if present else (label,))

    return {
        "rekey-to": [({"rekeyto": a}, not a) for a in (True, False)],
        "can-close-account": [({"closeto": a, "transaction_types": tt(p, "Pay")}, not (a and p)) for a, p in itertools.product((True, False), repeat=2)],
        "can-close-asset": [({"assetcloseto": a, "transaction_types": tt(p, "Axfer")}, not (a and p)) for a, p in itertools.product((True, False), repeat=2)],
        "missing-fee-check": [({"max_fee_unknown": u, "max_fee": f}, u or f <= K) for u, f in itertools.product((True, False), (0, 1000, K - 1, K, K + 1, MAXU))],
        "is-updatable": [({"transaction_types": tt(p, "ApplUpdateApplication")}, not p) for p in (True, False)],
        "is-deletable": [({"transaction_types": tt(p, "ApplDeleteApplication")}, not p) for p in (True, False)],
        "unprotected-updatable": [({"sender": a, "transaction_types": tt(p, "ApplUpdateApplication")}, not (a and p)) for a, p in itertools.product((True, False), repeat=2)],
        "unprotected-deletable": [({"sender": a, "transaction_types": tt(p, "ApplDeleteApplication")}, not (a and p)) for a, p in itertools.product((True, False), repeat=2)],
        "group-size-check": [({"is_gtxn_context": g, "group_sizes": s}, (not g) and N not in s)
                             for g, s in itertools.product((True, False), ([], [1], [N], list(range(1, N + 1)), list(range(1, N))))],
    }


def rule_checks_field(ctx, rep):
    rule = "T-PRED"
    rep.rule(rule, "dangerous-value predicate of each path-reporting detector: truth table over the context atoms it reads equals "
                   "'the dangerous value is excluded'")
    dets = path_detectors(ctx)
    const = ctx.spec("avm_fields.json")["constants"]
    K, MAXU, N = const["MAX_TRANSACTION_COST"], const["MAX_UINT64"], const["MAX_GROUP_SIZE"]
    want_names = {"rekey-to", "can-close-account", "can-close-asset", "missing-fee-check", "is-updatable", "is-deletable",
                  "unprotected-updatable", "unprotected-deletable", "group-size-check"}
    rep.require(want_names <= set(dets), f"path-reporting detectors not found: {sorted(want_names - set(dets))}")

    tables = _pred_tables(ctx)
    for name in sorted(want_names):
        d = dets[name]
        f = d["pred_fv"]
        where = f"{ctx.path(d['mod'].name)}:{d['pred'].lineno}"
        for attrs, want in tables[name]:
            c = _mk_ctx(ctx, **attrs)
            try:
                got = ctx.world.call(f, c)
            except PyRaise as e:
                got = f"RAISES {e.exc}"
            shown = {k: (v if not isinstance(v, list) else f"{len(v)} values" if len(v) > 3 else [getattr(x, 'name', x) for x in v]) for k, v in attrs.items()}
            rep.check(got is want, rule, f"{name} {shown}", where, got, want,
                      why="the predicate says 'validated' although the dangerous value can still occur (or the reverse)",
                      sample={"detector": name, "context": shown, "validated": want})
    rep.count("path-reporting detectors", len(dets))


def _marker_pred(ctx):
    """predicate 'this context validates' = its max_fee_unknown flag (a marker the rows set)"""
    mod = ctx.world.module(DU)
    node = ast.parse("lambda block_ctx: block_ctx.max_fee_unknown", mode="eval").body
    return FuncV(mod, node, closure=None)


def rule_validated_in_block(ctx, rep):
    rule = "T-VALIDATED"
    rep.rule(rule, "validated_in_block: true iff the own context validates, or the given absolute index's at-index context validates, "
                   "or (no index given) every possible own index's at-index context validates")
    w = ctx.world
    f = w.func(DU, "validated_in_block")
    where = f"{ctx.path(DU)}:{f.node.lineno}"
    pred = _marker_pred(ctx)
    n = 0
    for own, gi, g0, g1, g2, absidx in itertools.product((True, False), ([], [0], [1], [0, 1], [0, 1, 2]), (True, False), (True, False), (True, False), (None, 0, 1)):
        g = Graph(ctx)
        bb = g.block("X", ["int 1", "return"])
        g.subroutine("main", "X", ["X"])
        fn = g.function("main")
        c = w.call(w.method(fn, "transaction_context"), bb)
        it = Interp(c.cls.mod)
        it.assign_attr(c, "max_fee_unknown", own)
        it.assign_attr(c, "group_indices", list(gi))
        for i, val in ((0, g0), (1, g1), (2, g2)):
            it.assign_attr(w.call(w.method(c, "gtxn_context"), i), "max_fee_unknown", val)
        gv = {0: g0, 1: g1, 2: g2}
        want = own or (gv[absidx] if absidx is not None else all(gv[i] for i in gi))
        try:
            got = w.call(f, bb, fn, pred, absidx)
        except PyRaise as e:
            got = f"RAISES {e.exc}"
        n += 1
        rep.check(got is want, rule, f"own={own} indices={gi} at-index={[g0, g1, g2]} absolute_index={absidx}", where, got, want,
                  why="validation through gtxn <own index> must hold for every index the transaction can have",
                  sample={"own": own, "indices": gi, "at_index": [g0, g1, g2], "absolute_index": absidx, "validated": want})
    rep.count("validated_in_block rows", n)


# ---------------------------------------------------------------------------------------------- search_paths (E3)

def _search_paths_fn(ctx):
    outer = ctx.func(DU, "detect_missing_tx_field_validations")
    inner = [n for n in outer.body if isinstance(n, ast.FunctionDef)]
    if len(inner) != 1:
        raise Unsupported("detect_missing_tx_field_validations: expected exactly one nested search function")
    return outer, inner[0]


def _single_defs(fn, params):
    """local name -> defining expression, for names assigned exactly once in fn (not parameters)"""
    count, val = {}, {}
    for n in ast.walk(fn):
        if isinstance(n, ast.Assign) and len(n.targets) == 1 and isinstance(n.targets[0], ast.Name):
            count[n.targets[0].id] = count.get(n.targets[0].id, 0) + 1
            val[n.targets[0].id] = n.value
        elif isinstance(n, (ast.AugAssign, ast.For)) and isinstance(getattr(n, "target", None), ast.Name):
            count[n.target.id] = count.get(n.target.id, 0) + 2
    return {k: v for k, v in val.items() if count[k] == 1 and k not in params}


def _inline(expr, defs, depth=0):
    """replace names that are simple aliases by their definition (bounded depth)"""
    if depth > 3:
        return expr
    class T(ast.NodeTransformer):
        def visit_Name(self, node):
            if isinstance(node.ctx, ast.Load) and node.id in defs:
                return _inline(defs[node.id], defs, depth + 1)
            return node
    import copy
    return T().visit(copy.deepcopy(expr))


def _atom_role(ctx, test, P, outer_params, defs=None):
    """semantic role of a guard atom inside search_paths; P = parameter names by position"""
    if defs:
        test = _inline(test, defs)
    bb, path, result, stack, executed = P
    if isinstance(test, ast.Compare) and len(test.ops) == 1:
        op, left, right = test.ops[0], test.left, test.comparators[0]
        if isinstance(op, (ast.In, ast.NotIn)) and isinstance(left, ast.Name) and left.id == bb:
            src = ast.unparse(right)
            if executed in G.names_in(right):
                role = "REVISIT-TOP" if isinstance(right, ast.Subscript) and ast.unparse(right.slice) == "-1" else "REVISIT-OTHER"
                return role, isinstance(op, ast.In)
            if path in G.names_in(right):
                return "REVISIT-PATH", isinstance(op, ast.In)
        if isinstance(op, (ast.In, ast.NotIn)):
            return "RECURSION", isinstance(op, ast.In)
        if isinstance(op, (ast.Is, ast.IsNot)) and isinstance(right, ast.Constant) and right.value is None:
            return "HAS-RETURN-POINT", isinstance(op, ast.IsNot)
    if isinstance(test, ast.Call):
        fn = test.func
        if isinstance(fn, ast.Name):
            if fn.id == "validated_in_block":
                args = [ast.unparse(a) for a in test.args]
                ok = len(args) >= 3 and args[0] == bb and args[1] == outer_params[0] and args[2] == outer_params[1]
                return ("VALIDATED" if ok else "VALIDATED-BADARGS"), True
            if fn.id == "leaf_block_global":
                ok = len(test.args) == 1 and ast.unparse(test.args[0]) == bb
                return ("LEAF" if ok else "LEAF-BADARGS"), True
            if len(outer_params) > 2 and fn.id == outer_params[2]:
                return "REPORT", True
    if isinstance(test, ast.Attribute) and isinstance(test.value, ast.Name) and test.value.id == bb:
        if test.attr == "is_callsub_block":
            return "CALLSUB", True
        if test.attr == "is_retsub_block":
            return "RETSUB", True
    return "OTHER:" + ast.unparse(test)[:60], True


def rule_search_paths_exits(ctx, rep):
    """syntactic guard table; when the search function no longer has the recognised shape (nested recursive function with five
    parameters) the rule does not apply - T-SEARCH decides the behaviour - and says so instead of failing"""
    from ..report import AnalysisError
    try:
        _rule_search_paths_exits(ctx, rep)
    except (AnalysisError, Unsupported, IndexError, AttributeError) as e:
        rep.note(f"R-GATE not applicable to the current shape of the path search ({e}); the behaviour is decided by T-SEARCH")
        rep.count("R-GATE skipped (shape not recognised)")


def _rule_search_paths_exits(ctx, rep):
    rule = "R-GATE"
    rep.rule(rule, "search_paths: a path is appended only under {not revisited in the current activation, not validated, global leaf, "
                   "report condition}; every other exit is one of the four prunes {revisit, validated, recursion, leaf}; the recursive "
                   "calls cover all global successors resp. the return point of the top call-stack frame; path arguments are persistent")
    outer, sp = _search_paths_fn(ctx)
    P = G.params(sp)
    OP = G.params(outer)
    rep.require(len(P) == 5 and len(OP) >= 2, f"search function signature changed: {P} / {OP}")
    bb, path, result, stack, executed = P
    where = lambda n: f"{ctx.path(DU)}:{n.lineno}"
    sites = G.walk(sp)
    defs = _single_defs(sp, set(P))

    def roles(site):
        out = {}
        for t, pol in site.guards:
            r, positive = _atom_role(ctx, t, P, OP, defs)
            out[r] = pol if positive else not pol
        return out

    appends, returns, rec_calls, mutations = [], [], [], []
    for s in sites:
        st = s.stmt
        if isinstance(st, ast.Return):
            returns.append(s)
        for c in G.calls_in(st) if not isinstance(st, (ast.If, ast.For, ast.While, ast.FunctionDef)) else []:
            if isinstance(c.func, ast.Attribute) and isinstance(c.func.value, ast.Name):
                if c.func.value.id == result and c.func.attr == "append":
                    appends.append((s, c))
                elif c.func.value.id in (path, stack, executed) and c.func.attr in ("append", "extend", "pop", "insert", "remove", "clear", "sort", "reverse"):
                    mutations.append((s, c))
                elif c.func.value.id == result and c.func.attr != "append":
                    mutations.append((s, c))
            if isinstance(c.func, ast.Name) and c.func.id == sp.name:
                rec_calls.append((s, c))
        if isinstance(st, ast.AugAssign) and isinstance(st.target, ast.Name) and st.target.id in (path, stack, executed):
            mutations.append((s, st))
        if isinstance(st, (ast.Assign, ast.Delete)):
            for t in (st.targets if isinstance(st, (ast.Assign, ast.Delete)) else []):
                if isinstance(t, ast.Subscript) and isinstance(t.value, ast.Name) and t.value.id in (path, stack, executed):
                    mutations.append((s, st))
                if isinstance(t, ast.Subscript) and isinstance(t.value, ast.Subscript) and isinstance(t.value.value, ast.Name) and t.value.value.id in (stack, executed):
                    mutations.append((s, st))
    # 1. persistent arguments
    rep.check(not mutations, rule, "persistent path/call-stack/executed arguments", where(mutations[0][0].stmt) if mutations else where(sp),
              [ast.unparse(m[1])[:80] for m in mutations], [],
              why="these lists are shared by sibling recursive calls; an in-place update splices one branch's blocks into another's path")
    # nested-list aliasing: executed[-1].append(...) style
    for s in sites:
        for c in G.calls_in(s.stmt) if not isinstance(s.stmt, (ast.If, ast.For, ast.While, ast.FunctionDef)) else []:
            if isinstance(c.func, ast.Attribute) and c.func.attr in ("append", "extend", "pop", "insert", "remove") and \
                    isinstance(c.func.value, ast.Subscript) and G.names_in(c.func.value) & {stack, executed, path}:
                rep.violation(rule, "persistent nested lists", where(s.stmt), ast.unparse(c)[:80], "no in-place update",
                              "an inner list of the executed/call-stack argument is shared with sibling calls")
    # 2. the report gate
    rep.require(len(appends) >= 1, "no statement appends to the result list")
    for s, c in appends:
        r = roles(s)
        arg_ok = len(c.args) == 1 and isinstance(c.args[0], ast.Name) and c.args[0].id == path
        need = {"REVISIT-TOP": False, "VALIDATED": False, "LEAF": True, "REPORT": True}
        got = {k: r.get(k) for k in need}
        rep.check(got == need and arg_ok, rule, "report gate", where(s.stmt), {"guards": {k: v for k, v in r.items()}, "appends": ast.unparse(c)}, need,
                  why="a path may be reported only at a global leaf, when no block on it validated and the report condition holds")
        # the appended path must already contain the current block
        extended = any(isinstance(b, ast.Assign) and any(isinstance(t, ast.Name) and t.id == path for t in b.targets)
                       and bb in G.names_in(b.value) and path in G.names_in(b.value) and isinstance(b.value, ast.BinOp)
                       for b in s.after)
        rep.check(extended, rule, "reported path ends with the leaf block", where(s.stmt), "path not extended by the current block before the append", "path = path + [bb] dominates the append")
    # 3. every return is one of the allowed prunes
    allowed = []
    for s in returns:
        r = roles(s)
        kind = None
        if r.get("REVISIT-TOP") is True:
            kind = "revisit"
        elif r.get("VALIDATED") is True and r.get("REVISIT-TOP") is False:
            kind = "validated"
        elif r.get("LEAF") is True and r.get("VALIDATED") is False:
            kind = "leaf"
        elif r.get("RECURSION") is True and r.get("CALLSUB") is True and r.get("LEAF") is False:
            kind = "recursion"
        allowed.append(kind)
        rep.check(kind is not None, rule, f"exit under {sorted((k, v) for k, v in r.items())}", where(s.stmt), {k: v for k, v in r.items()},
                  "one of: revisit / validated / leaf / recursion",
                  why="an exit that is none of the four prunes cuts paths the property requires to be explored")
    rep.check({"revisit", "validated", "leaf"} <= set(allowed), rule, "the three mandatory prunes exist", where(sp), sorted(k for k in allowed if k), ["leaf", "revisit", "validated"])
    others = [r for s in sites for r in roles(s) if r.startswith(("OTHER", "REVISIT-PATH", "REVISIT-OTHER", "VALIDATED-BADARGS", "LEAF-BADARGS"))]
    rep.check(not others, rule, "no unrecognised guard", where(sp), sorted(set(others)), [],
              why="a guard outside the known roles (loop test on the whole path, validated test on other arguments, ...) changes which paths are explored")
    # 4. recursive calls
    rep.require(len(rec_calls) >= 2, "fewer than two recursive calls in the search function")
    n_succ = n_ret = 0
    for s, c in rec_calls:
        r = roles(s)
        a = [ast.unparse(x) for x in c.args]
        if s.loops:
            loop = s.loops[-1]
            it = loop.iter
            ok_iter = isinstance(loop, ast.For) and isinstance(it, ast.Call) and isinstance(it.func, ast.Name) and it.func.id == "next_blocks_global" \
                and [ast.unparse(x) for x in it.args] == [OP[0], bb]
            filt = [x for x in ast.walk(loop) if isinstance(x, (ast.Break, ast.Continue))]
            inner_guards = [t for t, pol in s.guards if any(t is n for b in loop.body for n in ast.walk(b))]
            ok_args = isinstance(loop.target, ast.Name) and a == [loop.target.id, path, result, stack, executed]
            rep.check(ok_iter and not filt and not inner_guards and ok_args and r.get("RETSUB") is False and r.get("LEAF") is False, rule,
                      "successor coverage", where(c), {"iter": ast.unparse(it), "args": a, "filters": len(filt) + len(inner_guards)},
                      "for next in next_blocks_global(function, bb): search(next, path, result, stack, executed) - no filter",
                      why="every global successor of a non-leaf, non-retsub block must be explored")
            n_succ += 1
        else:
            # continuation after retsub: block comes from the top call-stack frame's callsub block
            ok_guard = r.get("RETSUB") is True and r.get("LEAF") is False
            ok_pop = a[1:] == [path, result, f"{stack}[:-1]", f"{executed}[:-1]"]
            # data dependence of the first argument: a name assigned from <frame callsub>.sub_return_point where the frame is stack[-1]
            first = c.args[0]
            dep_ok = False
            if isinstance(first, ast.Name):
                defs = [b for b in s.after if isinstance(b, ast.Assign) and any(first.id in G.names_in(t) for t in b.targets)]
                if defs:
                    d = defs[-1]
                    if isinstance(d.value, ast.Attribute) and d.value.attr == "sub_return_point":
                        src = G.names_in(d.value.value)
                        frames = [b for b in s.after if isinstance(b, ast.Assign) and G.names_in(ast.Tuple(elts=b.targets, ctx=ast.Load())) & src]
                        dep_ok = any(isinstance(fr.value, ast.Subscript) and isinstance(fr.value.value, ast.Name) and fr.value.value.id == stack
                                     and ast.unparse(fr.value.slice) == "-1" for fr in frames)
            rep.check(ok_guard and ok_pop and dep_ok and r.get("HAS-RETURN-POINT") is True, rule, "retsub continuation", where(c),
                      {"guards": {k: v for k, v in r.items()}, "args": a, "block from top frame": dep_ok},
                      "under RETSUB: search(stack[-1].callsub.sub_return_point, path, result, stack[:-1], executed[:-1])",
                      why="after retsub execution resumes at the block following the matching callsub, with that frame popped")
            n_ret += 1
    rep.check(n_succ == 1 and n_ret == 1, rule, "one successor loop and one retsub continuation", where(sp), {"successor loops": n_succ, "retsub continuations": n_ret}, {"successor loops": 1, "retsub continuations": 1})
    # 5. initial call
    init = [c for c in G.calls_in(outer) if isinstance(c.func, ast.Name) and c.func.id == sp.name and not any(c is x for x in ast.walk(sp))]
    rep.require(len(init) == 1, "initial call of the search function not found")
    a = [ast.unparse(x) for x in init[0].args]
    entry_ok = False
    if isinstance(init[0].args[0], ast.Name):
        for st in outer.body:
            if isinstance(st, ast.Assign) and any(isinstance(t, ast.Name) and t.id == init[0].args[0].id for t in st.targets):
                entry_ok = ast.unparse(st.value) == f"{OP[0]}.entry"
    else:
        entry_ok = a[0] == f"{OP[0]}.entry"
    rep.check(entry_ok and a[1] == "[]" and a[3] == f"[(None, {OP[0]}.main)]" and a[4] == "[[]]", rule, "initial call", where(init[0]), a,
              ["<function.entry>", "[]", "<result>", "[(None, function.main)]", "[[]]"],
              why="the search starts at the function entry with the main frame and an empty activation")


# ---------------------------------------------------------------------------------------------- search_paths rows (abstract neighbourhoods)

def _run_search(ctx, g, fn, validated=(), report=None):
    w = ctx.world
    f = w.func(DU, "detect_missing_tx_field_validations")
    for name in validated:
        c = w.call(w.method(fn, "transaction_context"), g.blocks[name])
        Interp(c.cls.mod).assign_attr(c, "max_fee_unknown", True)
    args = [fn, _marker_pred(ctx)]
    if report is not None:
        mod = w.module(DU)
        args.append(FuncV(mod, ast.parse(report, mode="eval").body, closure=None))
    try:
        paths = w.call(f, *args)
    except PyRaise as e:
        return f"RAISES {e.exc} {e.where}"
    tag = {id(bb): n for n, bb in g.blocks.items()}
    return [[tag[id(b)] for b in p] for p in paths]


def _shapes(ctx):
    """(name, builder) -> (graph, function, validated blocks, expected reported paths)"""
    def diamond():
        g = Graph(ctx)
        g.block("P", ["txn Amount", "bnz r"]); g.block("Q", ["int 1", "pop"]); g.block("R", ["r:", "int 2", "pop"]); g.block("J", ["int 1", "return"])
        g.edge("P", "Q"); g.edge("P", "R"); g.edge("Q", "J"); g.edge("R", "J")
        g.subroutine("main", "P", ["P", "Q", "R", "J"])
        return g, g.function("main")

    def loop():
        g = Graph(ctx)
        g.block("P", ["int 0"]); g.block("L", ["l:", "dup", "bz x"]); g.block("M", ["int 1", "+", "b l"]); g.block("X", ["x:", "int 1", "return"])
        g.edge("P", "L"); g.edge("L", "M"); g.edge("L", "X"); g.edge("M", "L")
        g.subroutine("main", "P", ["P", "L", "M", "X"])
        return g, g.function("main")

    def call_twice():
        g = Graph(ctx)
        g.block("C1", ["callsub f"]); g.block("C2", ["callsub f"]); g.block("E", ["int 1", "return"])
        g.block("F0", ["f:", "txn Amount", "bnz f1"]); g.block("F1", ["retsub"]); g.block("F2", ["f1:", "retsub"])
        g.edge("C1", "C2"); g.edge("C2", "E"); g.edge("F0", "F1"); g.edge("F0", "F2")
        g.subroutine("main", "C1", ["C1", "C2", "E"]); g.subroutine("f", "F0", ["F0", "F1", "F2"])
        g.call("C1", "f"); g.call("C2", "f")
        return g, g.function("main", ["f"])

    def nested():
        g = Graph(ctx)
        g.block("C", ["callsub f"]); g.block("E", ["int 1", "return"])
        g.block("F0", ["f:", "callsub g"]); g.block("F1", ["retsub"]); g.block("G0", ["g:", "retsub"])
        g.edge("C", "E"); g.edge("F0", "F1")
        g.subroutine("main", "C", ["C", "E"]); g.subroutine("f", "F0", ["F0", "F1"]); g.subroutine("g", "G0", ["G0"])
        g.call("C", "f"); g.call("F0", "g")
        return g, g.function("main", ["f", "g"])

    def recursion():
        g = Graph(ctx)
        g.block("C", ["callsub f"]); g.block("E", ["int 1", "return"])
        g.block("F0", ["f:", "dup", "bz base"]); g.block("F1", ["callsub f"]); g.block("F2", ["retsub"]); g.block("F3", ["base:", "retsub"])
        g.edge("C", "E"); g.edge("F0", "F1"); g.edge("F0", "F3"); g.edge("F1", "F2")
        g.subroutine("main", "C", ["C", "E"]); g.subroutine("f", "F0", ["F0", "F1", "F2", "F3"])
        g.call("C", "f"); g.call("F1", "f")
        return g, g.function("main", ["f"])

    def call_last():
        g = Graph(ctx)
        g.block("P", ["int 1", "pop"]); g.block("C", ["callsub f"]); g.block("F0", ["f:", "txn Amount", "bnz f1"]); g.block("F1", ["retsub"]); g.block("F2", ["f1:", "int 1", "return"])
        g.edge("P", "C"); g.edge("F0", "F1"); g.edge("F0", "F2")
        g.subroutine("main", "P", ["P", "C"]); g.subroutine("f", "F0", ["F0", "F1", "F2"])
        g.call("C", "f")
        return g, g.function("main", ["f"])

    def loop_to_callsub():
        # a loop in the caller whose back edge targets a callsub block; the callee has a terminating block and a retsub
        g = Graph(ctx)
        g.block("P", ["int 0"]); g.block("C", ["l:", "callsub f"]); g.block("R", ["dup", "bz l"]); g.block("E", ["int 1", "return"])
        g.block("F0", ["f:", "txn Amount", "bnz f1"]); g.block("F1", ["retsub"]); g.block("F2", ["f1:", "int 1", "return"])
        g.edge("P", "C"); g.edge("C", "R"); g.edge("R", "E"); g.edge("R", "C"); g.edge("F0", "F1"); g.edge("F0", "F2")
        g.subroutine("main", "P", ["P", "C", "R", "E"]); g.subroutine("f", "F0", ["F0", "F1", "F2"])
        g.call("C", "f")
        return g, g.function("main", ["f"])

    def loop_in_sub_called_twice():
        g = Graph(ctx)
        g.block("C1", ["callsub f"]); g.block("C2", ["callsub f"]); g.block("E", ["int 1", "return"])
        g.block("F0", ["f:", "int 0"]); g.block("F1", ["fl:", "dup", "bz fx"]); g.block("F2", ["int 1", "+", "b fl"]); g.block("F3", ["fx:", "retsub"])
        g.edge("C1", "C2"); g.edge("C2", "E"); g.edge("F0", "F1"); g.edge("F1", "F2"); g.edge("F1", "F3"); g.edge("F2", "F1")
        g.subroutine("main", "C1", ["C1", "C2", "E"]); g.subroutine("f", "F0", ["F0", "F1", "F2", "F3"])
        g.call("C1", "f"); g.call("C2", "f")
        return g, g.function("main", ["f"])

    return [
        ("diamond", diamond, (), [["P", "Q", "J"], ["P", "R", "J"]]),
        ("diamond, one arm validated", diamond, ("Q",), [["P", "R", "J"]]),
        ("diamond, leaf validated", diamond, ("J",), []),
        ("diamond, entry validated", diamond, ("P",), []),
        ("loop", loop, (), [["P", "L", "X"]]),
        ("loop, body validated", loop, ("M",), [["P", "L", "X"]]),
        ("subroutine called twice", call_twice, (), [["C1", "F0", x, "C2", "F0", y, "E"] for x in ("F1", "F2") for y in ("F1", "F2")]),
        ("subroutine called twice, one retsub arm validated", call_twice, ("F2",), [["C1", "F0", "F1", "C2", "F0", "F1", "E"]]),
        ("nested calls", nested, (), [["C", "F0", "G0", "F1", "E"]]),
        ("recursion", recursion, (), [["C", "F0", "F3", "E"]]),
        ("callsub as last instruction", call_last, (), [["P", "C", "F0", "F2"]]),
        ("loop back to a callsub block", loop_to_callsub, (), [["P", "C", "F0", "F1", "R", "E"], ["P", "C", "F0", "F2"]]),
        ("loop inside a subroutine called twice", loop_in_sub_called_twice, (), [["C1", "F0", "F1", "F3", "C2", "F0", "F1", "F3", "E"]]),
    ]


def rule_search_paths_rows(ctx, rep):
    rule = "T-SEARCH"
    rep.rule(rule, "detect_missing_tx_field_validations on abstract CFG neighbourhoods (diamond, loop, shared subroutine, nested calls, recursion, "
                   "callsub as last instruction, loop through a callsub, loop inside a shared subroutine) with marker 'validated' contexts: "
                   "the reported block sequences are exactly the accepting, unvalidated, call/return-matched, per-activation loop-free paths")
    where = ctx.path(DU)
    for name, mk, validated, want in _shapes(ctx):
        g, fn = mk()
        got = _run_search(ctx, g, fn, validated)
        same = isinstance(got, list) and sorted(got) == sorted(want)     # a multiset: duplicates matter, the order of discovery does not
        rep.check(same, rule, name, where, got, want,
                  why="reported paths differ from the paths of the abstract graph (missing path, spurious path, duplicate, wrong order or wrong return point)",
                  sample={"shape": name, "paths": want})
    # the report condition gates the append and sees the whole path
    g, fn = _shapes(ctx)[0][1]()
    got = _run_search(ctx, g, fn, (), report="lambda p: len(p) == 3 and p[1].idx == 1")
    rep.check(got == [["P", "Q", "J"]], rule, "report condition filters paths", where, got, [["P", "Q", "J"]])


# ---------------------------------------------------------------------------------------------- C13 group verdicts

def _leaf_function(ctx, marks, two_leaves=False, second_marks=None):
    """a function with one (or two) global leaf blocks whose contexts carry 'validated' markers:
    marks = {"self": bool, "at": {i: bool}, "abs": {i: bool}, "rel": {k: bool}, "indices": [...]}"""
    w = ctx.world
    g = Graph(ctx)
    if two_leaves:
        g.block("P", ["txn Amount", "bnz r"]); g.block("X", ["int 1", "return"]); g.block("Y", ["r:", "int 1", "return"])
        g.edge("P", "X"); g.edge("P", "Y")
        g.subroutine("main", "P", ["P", "X", "Y"])
        leaves = ["X", "Y"]
    else:
        g.block("X", ["int 1", "return"])
        g.subroutine("main", "X", ["X"])
        leaves = ["X"]
    fn = g.function("main")
    for n, m in zip(leaves, [marks, second_marks or marks]):
        c = w.call(w.method(fn, "transaction_context"), g.blocks[n])
        it = Interp(c.cls.mod)
        it.assign_attr(c, "max_fee_unknown", m.get("self", False))
        it.assign_attr(c, "group_indices", list(m.get("indices", [0, 1])))
        for i, v in m.get("at", {}).items():
            it.assign_attr(w.call(w.method(c, "gtxn_context"), i), "max_fee_unknown", v)
        for i, v in m.get("abs", {}).items():
            it.assign_attr(w.call(w.method(c, "absolute_context"), i), "max_fee_unknown", v)
        for k, v in m.get("rel", {}).items():
            it.assign_attr(w.call(w.method(c, "relative_context"), k), "max_fee_unknown", v)
    # non-leaf blocks validate nothing: only leaves count
    return fn


def rule_group_verdicts(ctx, rep):
    rule = "T-GROUP"
    rep.rule(rule, "detect_missing_tx_field_validations_group_complete on abstract groups: a transaction is cleared exactly by (own contract: "
                   "own context / at-index context of its configured index / all possible indices) or (another member's absolute context of its "
                   "configured index) or (another member's relative context of the configured offset, sign and direction respected), evaluated at "
                   "global leaf blocks only and for all leaves; eligibility by detector type and transaction type")
    w = ctx.world
    f = w.func(DU, "detect_missing_tx_field_validations_group_complete")
    where = f"{ctx.path(DU)}:{f.node.lineno}"
    TX = "tealer.execution_context.transactions"
    TXN, GRP = w.cls(TX, "Transaction"), w.cls(TX, "GroupTransaction")
    fill = w.func(TX, "fill_group_relative_indexes")
    dets = path_detectors(ctx)
    stateless, stateful = Obj(dets["rekey-to"]["cls"]), Obj(dets["is-updatable"]["cls"])
    TT = w.cls(ENUMS, "TransactionType")
    pred = _marker_pred(ctx)
    TL = w.cls("tealer.tealer", "Tealer")
    n = 0

    def run(detector, t0cfg, t1cfg, relation, types=None):
        """t?cfg: dict(kind='logic_sig'|'application'|'both'|'none', marks=..., abs=idx|None, type=name)"""
        it = Interp(TXN.mod)
        txs = []
        for cfg in (t0cfg, t1cfg):
            t = w.new(TXN)
            fnobj = _leaf_function(ctx, cfg["marks"], cfg.get("two_leaves", False), cfg.get("second"))
            if cfg["kind"] == "logic_sig_unconfigured":
                it.assign_attr(t, "has_logic_sig", True)      # signed by a logic signature that is not part of the configuration
            if cfg["kind"] in ("logic_sig", "both"):
                it.assign_attr(t, "has_logic_sig", True)
                it.assign_attr(t, "logic_sig", fnobj)
            if cfg["kind"] in ("application", "both"):
                it.assign_attr(t, "application", fnobj if cfg["kind"] == "application" else _leaf_function(ctx, cfg.get("app_marks", {})))
            it.assign_attr(t, "absoulte_index", cfg.get("abs"))
            it.assign_attr(t, "type", w.getattr(TT, cfg.get("type", "Any")))
            txs.append(t)
        grp = w.new(GRP)
        it.assign_attr(grp, "transactions", txs)
        if relation == "t1_sees_t0_at_+1":          # configured on T1: T0 is at offset +1 from T1
            w.getattr(txs[1], "relative_indexes")[1] = txs[0]
        elif relation == "t1_sees_t0_at_-2":
            w.getattr(txs[1], "relative_indexes")[-2] = txs[0]
        elif relation == "t0_sees_t1_at_-1":        # only the reverse direction is configured: no route for T0
            w.getattr(txs[0], "relative_indexes")[-1] = txs[1]
        w.call(fill, grp)
        tl = Obj(TL, _groups=[grp])
        tl.fields["groups"] = [grp]
        args = [tl, detector, pred] + ([types] if types is not None else [])
        try:
            out = w.call(f, *args)
        except PyRaise as e:
            return f"RAISES {e.exc} {e.where}"
        vuln = set()
        named = {}
        for o in out:
            for t, fns in w.getattr(o, "transactions").items():
                vuln.add("T0" if t is txs[0] else "T1")
                roles = []
                for fx in fns:
                    roles.append("logic_sig" if fx is w.getattr(t, "logic_sig") else "application" if fx is w.getattr(t, "application") else "other")
                named["T0" if t is txs[0] else "T1"] = roles
        last_named.clear()
        last_named.update(named)
        return vuln

    last_named = {}
    blank = {"kind": "logic_sig", "marks": {}}
    # rows: (name, detector, t0, t1, relation, types, expected vulnerable set restricted to T0)
    rows = []
    def add_row(own_self, at1, absidx, other_abs1, other_abs2, rel, other_rel1, other_relm1, other_relm2):
        t0 = {"kind": "logic_sig", "marks": {"self": own_self, "at": {0: False, 1: at1}, "indices": [0, 1]}, "abs": absidx}
        t1 = {"kind": "logic_sig", "marks": {"self": True, "abs": {1: other_abs1, 2: other_abs2}, "rel": {1: other_rel1, -1: other_relm1, -2: other_relm2}}, "abs": None}
        own = own_self or (at1 if absidx == 1 else False)   # indices [0,1] with at-index 0 unvalidated: the for-all route fails
        by_abs = absidx == 1 and other_abs1
        by_rel = (rel == "t1_sees_t0_at_+1" and other_rel1) or (rel == "t1_sees_t0_at_-2" and other_relm2)
        want = set() if (own or by_abs or by_rel) else {"T0"}
        rows.append((f"self={own_self} at[1]={at1} abs={absidx} other.abs[1]={other_abs1} other.abs[2]={other_abs2} relation={rel} "
                     f"other.rel[+1]={other_rel1} other.rel[-1]={other_relm1} other.rel[-2]={other_relm2}", stateless, t0, t1, rel, None, want))

    RELS = ("none", "t1_sees_t0_at_+1", "t1_sees_t0_at_-2", "t0_sees_t1_at_-1")
    # routes: own context / own at-index context / absolute index / relative offset, each alone and combined
    for own_self, at1, absidx, other_abs1, rel, other_rel in itertools.product((False, True), (False, True), (None, 1), (False, True), RELS, (False, True)):
        if own_self and (at1 or other_abs1 or other_rel):
            continue   # own validation dominates; keep the table small
        add_row(own_self, at1, absidx, other_abs1, False, rel, other_rel and rel != "t1_sees_t0_at_-2", False, other_rel and rel == "t1_sees_t0_at_-2")
    # wrong index / wrong offset / wrong sign / wrong direction must not clear
    for absidx, rel in itertools.product((None, 1), RELS):
        add_row(False, False, absidx, False, True, rel, rel != "t1_sees_t0_at_+1", True, rel != "t1_sees_t0_at_-2")
    for name, det, t0, t1, rel, types, want in rows:
        got = run(det, t0, t1, rel, types)
        n += 1
        got0 = got & {"T0"} if isinstance(got, set) else got
        rep.check(got0 == want, rule, name, where, sorted(got0) if isinstance(got0, set) else got0, sorted(want),
                  why="the group verdict does not follow the configured routes (own contract / absolute index / relative offset)",
                  sample={"row": name, "vulnerable": sorted(want)})
    # order independence: a member cleared through another member must not influence the members listed after it
    for route in ("abs", "rel"):
        for order in ("cleared first", "cleared last"):
            # A: unprotected, cleared only because B checks it (absolute index 1 / offset +1 seen from B); B: checks nothing about itself either
            a_cfg = {"kind": "logic_sig", "marks": {"self": False, "indices": [0, 1]}, "abs": 1 if route == "abs" else None}
            b_cfg = {"kind": "logic_sig", "marks": {"self": False, "abs": {1: route == "abs"}, "rel": {1: route == "rel"}, "indices": [0, 1]}, "abs": None}
            it2 = Interp(TXN.mod)
            txs = []
            for cfg in ((a_cfg, b_cfg) if order == "cleared first" else (b_cfg, a_cfg)):
                t = w.new(TXN)
                it2.assign_attr(t, "has_logic_sig", True)
                it2.assign_attr(t, "logic_sig", _leaf_function(ctx, cfg["marks"]))
                it2.assign_attr(t, "absoulte_index", cfg.get("abs"))
                txs.append(t)
            A, Bm = (txs[0], txs[1]) if order == "cleared first" else (txs[1], txs[0])
            grp = w.new(GRP)
            it2.assign_attr(grp, "transactions", txs)
            if route == "rel":
                w.getattr(Bm, "relative_indexes")[1] = A
            w.call(fill, grp)
            tl = Obj(TL, _groups=[grp])
            tl.fields["groups"] = [grp]
            try:
                outp = w.call(f, tl, stateless, pred)
                vuln = set()
                for o in outp:
                    for t in w.getattr(o, "transactions"):
                        vuln.add("A" if t is A else "B")
            except PyRaise as e:
                vuln = f"RAISES {e.exc}"
            rep.check(vuln == {"B"}, rule, f"member cleared via {route} route, {order}: the unprotected member stays vulnerable", where,
                      sorted(vuln) if isinstance(vuln, set) else vuln, ["B"],
                      why="the verdict for one transaction depends on the verdict of the transaction listed before it")
    # for-all over possible own indices when no index is configured
    for idx, at0, at1_, want in (([0, 1], True, True, set()), ([0, 1], True, False, {"T0"}), ([1], False, True, set()), ([], False, False, set())):
        t0 = {"kind": "logic_sig", "marks": {"self": False, "at": {0: at0, 1: at1_}, "indices": idx}, "abs": None}
        got = run(stateless, t0, blank | {"marks": {"self": True}}, "none")
        rep.check((got & {"T0"}) == want if isinstance(got, set) else False, rule, f"own indices {idx} at-index {[at0, at1_]}", where, got, sorted(want))
    # all leaves must validate
    t0 = {"kind": "logic_sig", "marks": {"self": True}, "second": {"self": False}, "two_leaves": True, "abs": None}
    got = run(stateless, t0, blank | {"marks": {"self": True}}, "none")
    rep.check(isinstance(got, set) and "T0" in got, rule, "one unvalidated leaf keeps the transaction vulnerable", where, got, ["T0"])
    t0 = {"kind": "logic_sig", "marks": {"self": True}, "second": {"self": True}, "two_leaves": True, "abs": None}
    got = run(stateless, t0, blank | {"marks": {"self": True}}, "none")
    rep.check(isinstance(got, set) and "T0" not in got, rule, "all leaves validated clears the transaction", where, got, [])
    # eligibility
    elig = [("stateless detector, no logic sig", stateless, {"kind": "application", "marks": {}}, set()),
            ("stateless detector, logic sig", stateless, {"kind": "logic_sig", "marks": {}}, {"T0"}),
            ("stateful detector, no application", stateful, {"kind": "logic_sig", "marks": {}}, set()),
            ("stateful detector, application", stateful, {"kind": "application", "marks": {}}, {"T0"}),
            ("both contracts, logic sig validates", stateless, {"kind": "both", "marks": {"self": True}, "app_marks": {}}, set()),
            ("both contracts, application validates", stateless, {"kind": "both", "marks": {}, "app_marks": {"self": True}}, set()),
            ("both contracts, none validates", stateless, {"kind": "both", "marks": {}, "app_marks": {}}, {"T0"})]
    for name, det, t0, want in elig:
        got = run(det, t0 | {"abs": None}, blank | {"marks": {"self": True}}, "none")
        rep.check((got & {"T0"}) == want if isinstance(got, set) else False, rule, name, where, got, sorted(want))
    # another member's *application* clears a transaction just as its logic signature does
    app_rows = [("other's application validates absolute index 1", {"kind": "application", "marks": {"abs": {1: True}}}, 1, "none", set()),
                ("other's application validates absolute index 2 (not ours)", {"kind": "application", "marks": {"abs": {2: True}}}, 1, "none", {"T0"}),
                ("other's application validates offset +1, configured", {"kind": "application", "marks": {"rel": {1: True}}}, None, "t1_sees_t0_at_+1", set()),
                ("other's application validates offset +1, not configured", {"kind": "application", "marks": {"rel": {1: True}}}, None, "none", {"T0"}),
                ("other has both contracts, its application validates absolute index 1", {"kind": "both", "marks": {}, "app_marks": {"abs": {1: True}}}, 1, "none", set()),
                ("other has both contracts, its application validates offset -2", {"kind": "both", "marks": {}, "app_marks": {"rel": {-2: True}}}, None, "t1_sees_t0_at_-2", set()),
                ("other has both contracts, its logic signature validates absolute index 1", {"kind": "both", "marks": {"abs": {1: True}}, "app_marks": {}}, 1, "none", set())]
    for name, t1, absidx, rel, want in app_rows:
        got = run(stateless, {"kind": "logic_sig", "marks": {"self": False, "indices": [0, 1]}, "abs": absidx}, t1 | {"abs": None}, rel)
        n += 1
        rep.check((got & {"T0"}) == want if isinstance(got, set) else False, rule, name, where, sorted(got) if isinstance(got, set) else got, sorted(want),
                  why="a validation made by another member's application (or logic signature) is not credited")
    # which function is named for a vulnerable transaction: the logic signature for stateless detectors, the application for stateful ones
    for name, det, t0, want_roles in (("stateless detector names the logic signature", stateless, {"kind": "both", "marks": {}, "app_marks": {}}, ["logic_sig"]),
                                      ("stateful detector names the application", stateful, {"kind": "both", "marks": {}, "app_marks": {}}, ["application"]),
                                      ("stateful detector, application only", stateful, {"kind": "application", "marks": {}}, ["application"]),
                                      ("stateless detector, logic signature not configured", stateless, {"kind": "logic_sig_unconfigured", "marks": {}}, [])):
        got = run(det, t0 | {"abs": None}, blank | {"marks": {"self": True}}, "none")
        rep.check(isinstance(got, set) and "T0" in got and last_named.get("T0") == want_roles, rule, name, where,
                  {"vulnerable": sorted(got) if isinstance(got, set) else got, "named": last_named.get("T0")}, {"vulnerable": ["T0"], "named": want_roles},
                  why="the report names the wrong contract function for the vulnerable transaction")
    # transaction-type filter as the two detectors that use it pass it
    for dname, label in (("can-close-account", "Pay"), ("can-close-asset", "Axfer")):
        d = dets[dname]
        rep.check(d["types_value"] is not None, rule, f"{dname} passes a transaction-type filter", f"{ctx.path(d['mod'].name)}:{d['detect'].lineno}", None, "a list")
        if d["types_value"] is None:
            continue
        types = list(d["types_value"])
        names = sorted(t.name for t in types)
        rep.check(names == sorted(["Any", "Unknown", label]), rule, f"{dname} type filter", f"{ctx.path(d['mod'].name)}:{d['detect'].lineno}", names, sorted(["Any", "Unknown", label]))
        for ttype in ("Any", "Unknown", "Pay", "Axfer", "Appl", "KeyReg"):
            got = run(Obj(d["cls"]), {"kind": "logic_sig", "marks": {}, "abs": None, "type": ttype}, blank | {"marks": {"self": True}}, "none", types)
            want = {"T0"} if ttype in ("Any", "Unknown", label) else set()
            rep.check((got & {"T0"}) == want if isinstance(got, set) else False, rule, f"{dname} on a {ttype} transaction", where, got, sorted(want))
    rep.count("group verdict rows", n)
    rep.require(n >= 80, f"only {n} group rows")


def rule_offset_inversion(ctx, rep):
    rule = "T-OFFSET"
    rep.rule(rule, "fill_group_relative_indexes: 'other is at offset k from txn' (configured on txn) becomes group_relative_indexes[other][txn] = k, "
                   "nothing else; the consumer reads group_relative_indexes[txn] to find members that see txn")
    w = ctx.world
    TX = "tealer.execution_context.transactions"
    TXN, GRP = w.cls(TX, "Transaction"), w.cls(TX, "GroupTransaction")
    fill = w.func(TX, "fill_group_relative_indexes")
    where = f"{ctx.path(TX)}:{fill.node.lineno}"
    a, b, c = w.new(TXN), w.new(TXN), w.new(TXN)
    grp = w.new(GRP)
    Interp(TXN.mod).assign_attr(grp, "transactions", [a, b, c])
    w.getattr(a, "relative_indexes")[1] = b      # b is at +1 from a
    w.getattr(a, "relative_indexes")[-2] = c     # c is at -2 from a
    w.getattr(c, "relative_indexes")[3] = b      # b is at +3 from c
    w.call(fill, grp)
    gri = w.getattr(grp, "group_relative_indexes")
    tag = {id(a): "a", id(b): "b", id(c): "c"}
    got = {tag[id(k)]: {tag[id(k2)]: v for k2, v in d.items()} for k, d in gri.items()}
    want = {"a": {}, "b": {"a": 1, "c": 3}, "c": {"a": -2}}
    rep.check(got == want, rule, "inversion table", where, got, want)


# ---------------------------------------------------------------------------------------------- renderings (C02 / C18)

def _paths_fixture(ctx):
    g = Graph(ctx)
    g.block("P", ["txn Amount", "bnz r"]); g.block("Q", ["int 1", "pop"]); g.block("R", ["r:", "int 2", "pop"]); g.block("J", ["int 1", "return"])
    g.edge("P", "Q"); g.edge("P", "R"); g.edge("Q", "J"); g.edge("R", "J")
    g.subroutine("main", "P", ["P", "Q", "R", "J"])
    w = ctx.world
    it = Interp(g.b.BB.mod)
    ln = 1
    for n in ("P", "Q", "R", "J"):
        for ins in w.getattr(g.blocks[n], "instructions"):
            it.assign_attr(ins, "line", ln)
            ln += 1
    for n, i in (("P", 0), ("Q", 5), ("R", 12), ("J", 3)):   # ids deliberately not in list order
        it.assign_attr(g.blocks[n], "idx", i)
    return g


def rule_renderings(ctx, rep):
    rule = "T-RENDER"
    rep.rule(rule, "ExecutionPaths renderings: short notation is the block ids of the path joined by ' -> ' in path order; to_json lists, per path, "
                   "the same short notation and per block the 'line: instruction' strings in order; count = number of paths; filter_paths removes "
                   "exactly the paths whose short notation matches")
    w = ctx.world
    OUT = "tealer.utils.output"
    EP = w.cls(OUT, "ExecutionPaths")
    where = ctx.path(OUT)
    g = _paths_fixture(ctx)
    B = g.blocks
    # the last path passes through one block twice (the body of a subroutine that is called twice): it is listed at every position
    paths = [[B["P"], B["Q"], B["J"]], [B["P"], B["R"], B["J"]], [B["P"]], [B["P"], B["R"], B["Q"], B["R"], B["J"]]]
    det = Obj(path_detectors(ctx)["rekey-to"]["cls"])
    ep = w.new(EP, g.teal, det, [list(p) for p in paths])
    want_short = ["0 -> 5 -> 3", "0 -> 12 -> 3", "0", "0 -> 12 -> 5 -> 12 -> 3"]
    for p, ws in zip(paths, want_short):
        got = _call(ctx, ep, "_short_notation", p)
        rep.check(got == ws, rule, f"short notation of {ws}", where, got, ws)
    js = _call(ctx, ep, "to_json")
    if not isinstance(js, dict):
        rep.violation(rule, "to_json runs", where, js, "a dict")
        return
    it = Interp(EP.mod)
    want_blocks = [[[f"{w.getattr(i, 'line')}: {it.to_str(i)}" for i in w.getattr(b, "instructions")] for b in p] for p in paths]
    got_paths = js.get("paths")
    rep.check(js.get("count") == 4 and isinstance(got_paths, list) and len(got_paths) == 4, rule, "json count = number of paths", where,
              {"count": js.get("count"), "paths": len(got_paths) if isinstance(got_paths, list) else got_paths}, {"count": 4, "paths": 4})
    if isinstance(got_paths, list):
        for k, (gp, ws, wb) in enumerate(zip(got_paths, want_short, want_blocks)):
            rep.check(isinstance(gp, dict) and gp.get("short") == ws, rule, f"json short of path {k}", where, gp.get("short") if isinstance(gp, dict) else gp, ws)
            rep.check(isinstance(gp, dict) and gp.get("blocks") == wb, rule, f"json blocks of path {k}", where, gp.get("blocks") if isinstance(gp, dict) else gp, wb)
    rep.check(js.get("check") == "rekey-to" and js.get("type") == "ExecutionPaths", rule, "json names the detector", where, {"check": js.get("check"), "type": js.get("type")}, "rekey-to")
    # filtering
    for pattern, keep in (("", [0, 1, 2, 3]), ("5", [1, 2]), ("0 -> 12", [0, 2]), ("^0$", [0, 1, 3]), ("3$", [2]), ("99", [0, 1, 2, 3]), ("1", [0, 2]),
                          ("12 -> 5", [0, 1, 2])):
        ep2 = w.new(EP, g.teal, det, [list(p) for p in paths])
        r = _call(ctx, ep2, "filter_paths", pattern)
        got = w.getattr(ep2, "paths")
        gk = [k for k, p in enumerate(paths) if any(p == q for q in got)] if isinstance(got, list) else got
        rep.check(gk == keep and isinstance(got, list) and len(got) == len(keep), rule, f"filter '{pattern}'", where, gk, keep,
                  why="--filter-paths must remove exactly the paths whose short notation matches the pattern")


# ---------------------------------------------------------------------------------------------- group configuration plumbing (C13)

def rule_group_config(ctx, rep):
    rule = "T-CONFIG"
    rep.rule(rule, "a group configuration (as parsed from the YAML file) becomes the transactions the verdict function reads: type, absolute index, "
                   "logic-sig / application function, 'other is at offset k' relations inverted once; the verdicts on the configured group follow "
                   "the configured routes; duplicate ids / indices and unknown ids are rejected")
    w = ctx.world
    GC = "tealer.utils.command_line.group_config"
    COMMON = "tealer.utils.command_line.common"
    PFM = "tealer.teal.parse_functions"
    w.module(PFM).values["_apply_transaction_context_analysis"] = ("builtin", "noop")
    from_yaml = w.getattr(w.cls(GC, "GroupConfig"), "from_yaml")
    init = w.func(COMMON, "init_tealer_from_config")
    where = f"{ctx.path(COMMON)}:{init.node.lineno}"
    w.files = {"lsig_a.teal": "#pragma version 6\narg 0\npop\nint 1\nreturn\n", "lsig_b.teal": "#pragma version 6\narg 1\npop\nint 1\nreturn\n",
               "app.teal": "#pragma version 6\nint 0\napp_global_get\npop\nint 1\nreturn\n"}

    def contract(name, path, ctype):
        return {"name": name, "file_path": path, "type": ctype, "version": 6, "subroutines": [], "functions": [{"name": "main", "dispatch_path": ["B0"]}]}

    def cfg(transactions):
        return {"name": "g", "contracts": [contract("A", "lsig_a.teal", "LogicSig"), contract("B", "lsig_b.teal", "LogicSig"), contract("APP", "app.teal", "ApprovalProgram")],
                "groups": [{"operation": "op", "transactions": transactions}]}

    def call(c, f="main"):
        return {"contract": c, "function": f}

    base = [
        {"txn_id": "T0", "txn_type": "pay", "logic_sig": call("A"), "absolute_index": 0},
        {"txn_id": "T1", "txn_type": "appl", "application": call("APP"), "logic_sig": call("B"), "relative_indexes": [{"other_txn_id": "T0", "offset": -1}, {"other_txn_id": "T2", "offset": 1}]},
        {"txn_id": "T2", "txn_type": "axfer", "has_logic_sig": True, "absolute_index": 2},
    ]
    try:
        tl = w.call(init, w.call(from_yaml, cfg(base)))
    except PyRaise as e:
        rep.violation(rule, "configuration loads", where, f"RAISES {e.exc} {e.where}", "a Tealer object")
        return
    grp = w.getattr(tl, "groups")[0]
    txs = {w.getattr(t, "transacton_id"): t for t in w.getattr(grp, "transactions")}
    rep.check(sorted(txs) == ["T0", "T1", "T2"], rule, "transactions created", where, sorted(txs), ["T0", "T1", "T2"])
    if sorted(txs) != ["T0", "T1", "T2"]:
        return
    view = {}
    for tid, t in txs.items():
        ls, app = w.getattr(t, "logic_sig"), w.getattr(t, "application")
        view[tid] = {"type": w.getattr(t, "type").name, "abs": w.getattr(t, "absoulte_index"), "has_logic_sig": w.getattr(t, "has_logic_sig"),
                     "logic_sig": w.getattr(w.getattr(ls, "contract"), "contract_name") if ls is not None else None,
                     "application": w.getattr(w.getattr(app, "contract"), "contract_name") if app is not None else None,
                     "sees": {k: w.getattr(o, "transacton_id") for k, o in w.getattr(t, "relative_indexes").items()}}
    want = {"T0": {"type": "Pay", "abs": 0, "has_logic_sig": True, "logic_sig": "A", "application": None, "sees": {}},
            "T1": {"type": "Appl", "abs": None, "has_logic_sig": True, "logic_sig": "B", "application": "APP", "sees": {-1: "T0", 1: "T2"}},
            "T2": {"type": "Axfer", "abs": 2, "has_logic_sig": True, "logic_sig": None, "application": None, "sees": {}}}
    rep.check(view == want, rule, "transaction attributes", where, view, want, why="the configured group is not what the verdict function reads")
    gri = w.getattr(grp, "group_relative_indexes")
    got = {w.getattr(k, "transacton_id"): {w.getattr(k2, "transacton_id"): v for k2, v in d.items()} for k, d in gri.items()}
    rep.check(got == {"T0": {"T1": -1}, "T1": {}, "T2": {"T1": 1}}, rule, "who sees whom at which offset", where, got, {"T0": {"T1": -1}, "T1": {}, "T2": {"T1": 1}})
    absx = {k: w.getattr(v, "transacton_id") for k, v in w.getattr(grp, "absolute_indexes").items()}
    rep.check(absx == {0: "T0", 2: "T2"}, rule, "absolute index table", where, absx, {0: "T0", 2: "T2"})
    rep.check(w.getattr(tl, "output_group") is True, rule, "group mode selected", where, w.getattr(tl, "output_group"), True)
    # the version entry of the configuration does not override the version the program declares
    try:
        doc_v = cfg(base)
        doc_v["contracts"] = [dict(c, version=2) for c in doc_v["contracts"]]
        tl_v = w.call(init, w.call(from_yaml, doc_v))
        vers = sorted({w.getattr(c, "version") for c in w.getattr(tl_v, "contracts").values()})
        modes = sorted({w.getattr(c, "mode").name for c in w.getattr(tl_v, "contracts").values()})
    except PyRaise as e:
        vers, modes = f"RAISES {e.exc} {e.where}", None
    rep.check(vers == [6], rule, "contracts keep the version they declare (#pragma version 6) whatever the configuration says", where, vers, [6],
              why="version-dependent results (unsupported instructions, costs) would follow the configuration file instead of the program")
    # verdicts on the configured group, marker contexts on the leaf blocks of the three functions
    fA, fB, fAPP = w.getattr(txs["T0"], "logic_sig"), w.getattr(txs["T1"], "logic_sig"), w.getattr(txs["T1"], "application")
    dets = path_detectors(ctx)
    f = w.func(DU, "detect_missing_tx_field_validations_group_complete")
    pred = _marker_pred(ctx)

    def set_marks(fn, self_=False, rel=None, absx=None):
        for b in w.getattr(fn, "blocks"):
            c = w.call(w.method(fn, "transaction_context"), b)
            it = Interp(c.cls.mod)
            it.assign_attr(c, "max_fee_unknown", self_)
            for k in (-1, 1):
                it.assign_attr(w.call(w.method(c, "relative_context"), k), "max_fee_unknown", bool(rel and rel.get(k)))
            for i in (0, 1, 2):
                it.assign_attr(w.call(w.method(c, "absolute_context"), i), "max_fee_unknown", bool(absx and absx.get(i)))

    def verdict(det):
        out = w.call(f, tl, det, pred)
        return sorted({w.getattr(t, "transacton_id") for o in out for t in w.getattr(o, "transactions")})

    stateless = Obj(dets["rekey-to"]["cls"])
    # T2 is signed by a logic sig that is not part of the configuration: nothing is known about it, so it is vulnerable unless another
    # member validates it
    rows = [("nobody validates", {}, {}, {}, ["T0", "T1", "T2"]),
            ("B validates the transaction at offset -1 (= T0)", {}, {"rel": {-1: True}}, {}, ["T1", "T2"]),
            ("B validates the transaction at offset +1 (= T2)", {}, {"rel": {1: True}}, {}, ["T0", "T1"]),
            ("B validates absolute index 0 (= T0)", {}, {"absx": {0: True}}, {}, ["T1", "T2"]),
            ("B validates absolute index 2 (= T2)", {}, {"absx": {2: True}}, {}, ["T0", "T1"]),
            ("B validates absolute index 1 (nobody is configured there)", {}, {"absx": {1: True}}, {}, ["T0", "T1", "T2"]),
            ("A validates itself", {"self_": True}, {}, {}, ["T1", "T2"]),
            ("A validates absolute index 2 (= T2)", {"absx": {2: True}}, {}, {}, ["T0", "T1"]),
            ("the application of T1 validates T1's own field", {}, {}, {"self_": True}, ["T0", "T2"]),
            ("the application validates offset -1 (= T0)", {}, {}, {"rel": {-1: True}}, ["T1", "T2"]),
            ("the application validates offset +1 (= T2) and B offset -1 (= T0)", {}, {"rel": {-1: True}}, {"rel": {1: True}}, ["T1"])]
    for name, ma, mb, mapp, want_v in rows:
        set_marks(fA, **ma); set_marks(fB, **mb); set_marks(fAPP, **mapp)
        try:
            got_v = verdict(stateless)
        except PyRaise as e:
            got_v = f"RAISES {e.exc} {e.where}"
        rep.check(got_v == want_v, rule, f"verdict: {name}", where, got_v, want_v, why="the verdict on the configured group does not follow the configured relations",
                  sample={"row": name, "vulnerable": want_v})
    # what is shown for a verdict: the JSON and the text name exactly the vulnerable transactions with their configured contract functions
    set_marks(fA); set_marks(fB, rel={-1: True}); set_marks(fAPP)
    try:
        outs = w.call(f, tl, stateless, pred)
        rep.check(len(outs) == 1, rule, "one output per operation", where, len(outs), 1)
        for o in outs:
            js = w.call(w.method(o, "to_json"))
            # a stateless detector speaks about the logic signature of the transaction (T2's is not configured: nothing to name)
            want_tx = {"T1": [{"contract": "B", "function": "main"}], "T2": []}
            got_tx = dict(js.get("transactions", {}))
            rep.check(got_tx == want_tx and js.get("operation") == "op" and js.get("check") == "rekey-to", rule, "JSON of the group verdict", ctx.path("tealer.utils.output"),
                      {"transactions": js.get("transactions"), "operation": js.get("operation"), "check": js.get("check")}, {"transactions": want_tx, "operation": "op", "check": "rekey-to"},
                      why="the JSON output does not name the vulnerable transactions and their contract functions")
            w.stdout = []
            import pathlib as _pl
            w.call(w.method(o, "generate_output"), _pl.PurePosixPath("."))
            text = "\n".join(w.stdout)
            w.stdout = None
            named = [ln.strip() for ln in text.splitlines() if ln.strip().startswith(("Transaction ", "Contract: ", "Function: "))]
            want_named = ["Transaction T1", "Contract: B", "Function: main", "Transaction T2"]
            rep.check(sorted(named) == sorted(want_named) and "operation op" in text, rule, "text of the group verdict", ctx.path("tealer.utils.output"), named, want_named,
                      why="the text output does not name the vulnerable transactions and their contract functions")
    except PyRaise as e:
        rep.violation(rule, "group verdict is rendered", where, f"RAISES {e.exc} {e.where}", "JSON and text")
    finally:
        w.stdout = None
    # rejected configurations
    bad = {"duplicate transaction id": base[:1] + [dict(base[0], absolute_index=1)],
           "duplicate absolute index": base[:1] + [dict(base[2], absolute_index=0)],
           "relative index to an unknown transaction": [dict(base[0], relative_indexes=[{"other_txn_id": "nope", "offset": 1}])],
           "application given as logic sig": [{"txn_id": "X", "txn_type": "appl", "logic_sig": call("APP")}],
           "logic sig given as application": [{"txn_id": "X", "txn_type": "appl", "application": call("A")}],
           "unknown function": [{"txn_id": "X", "txn_type": "pay", "logic_sig": call("A", "nope")}],
           "unknown contract": [{"txn_id": "X", "txn_type": "pay", "logic_sig": call("NOPE")}],
           "unknown transaction type": [{"txn_id": "X", "txn_type": "payment", "logic_sig": call("A")}],
           "transaction without an id": [{"txn_type": "pay", "logic_sig": call("A")}],
           "transaction without a type": [{"txn_id": "X", "logic_sig": call("A")}],
           "function call without a function": [{"txn_id": "X", "txn_type": "pay", "logic_sig": {"contract": "A"}}],
           "relative index without an offset": [dict(base[0]), {"txn_id": "Y", "txn_type": "pay", "logic_sig": call("B"), "relative_indexes": [{"other_txn_id": "T0"}]}]}
    for name, txns in bad.items():
        try:
            w.call(init, w.call(from_yaml, cfg(txns)))
            got = "accepted"
        except PyRaise as e:
            got = f"rejected ({e.exc})"
        rep.check(got.startswith("rejected"), rule, f"invalid configuration rejected: {name}", where, got, "rejected")
    # malformed documents (missing sections, wrong contract type, bad block ids) are rejected with the tool's own error
    good = cfg(base)
    docs = {"no name": {k: v for k, v in good.items() if k != "name"}, "no contracts": {k: v for k, v in good.items() if k != "contracts"},
            "no groups": {k: v for k, v in good.items() if k != "groups"},
            "contract without a file": dict(good, contracts=[{k: v for k, v in good["contracts"][0].items() if k != "file_path"}] + good["contracts"][1:]),
            "contract of an unknown type": dict(good, contracts=[dict(good["contracts"][0], type="Library")] + good["contracts"][1:]),
            "function without a dispatch path": dict(good, contracts=[dict(good["contracts"][0], functions=[{"name": "main"}])] + good["contracts"][1:]),
            "dispatch path with a bad block id": dict(good, contracts=[dict(good["contracts"][0], functions=[{"name": "main", "dispatch_path": ["0"]}])] + good["contracts"][1:]),
            "dispatch path that is not a path": dict(good, contracts=[dict(good["contracts"][0], functions=[{"name": "main", "dispatch_path": ["B0", "B7"]}])] + good["contracts"][1:]),
            "group without an operation name": dict(good, groups=[{"transactions": base}])}
    for name, doc in docs.items():
        try:
            w.call(init, w.call(from_yaml, doc))
            got = "accepted"
        except PyRaise as e:
            got = f"rejected ({e.exc})" if isinstance(e.value, Obj) else f"internal error ({e.exc})"
        rep.check(got.startswith("rejected"), rule, f"malformed document rejected: {name}", where, got, "rejected with one of the tool's own exceptions",
                  why="a malformed configuration is accepted or ends with an internal error")


def rule_absolute_index_access(ctx, rep):
    rule = "T-ABSIDX"
    rep.rule(rule, "group-size-check report condition: a block 'reads another transaction by absolute index' exactly when it contains gtxn / gtxna / "
                   "gtxnas, or gtxns / gtxnsa / gtxnsas whose transaction index is an integer constant (int, pushint, intc)")
    w = ctx.world
    d = path_detectors(ctx)["group-size-check"]
    cls = d["cls"]
    c, st = cls.find("_accessed_using_absolute_index")
    rep.require(st is not None, "group-size-check helper not found")
    f = w.getattr(cls, "_accessed_using_absolute_index")
    where = f"{ctx.path(c.mod.name)}:{st.lineno}"
    from ..absobj import Graph
    rows = {
        "gtxn 1 Amount": (["gtxn 1 Amount", "pop"], True), "gtxna 0 ApplicationArgs 1": (["gtxna 0 ApplicationArgs 1", "pop"], True),
        "gtxnas 2 ApplicationArgs": (["int 0", "gtxnas 2 ApplicationArgs", "pop"], True),
        "int 1; gtxns": (["int 1", "gtxns Amount", "pop"], True), "pushint 3; gtxns": (["pushint 3", "gtxns Amount", "pop"], True),
        "intc_0; gtxns": (["intc_0", "gtxns Amount", "pop"], True), "int 1; gtxnsa": (["int 1", "gtxnsa ApplicationArgs 0", "pop"], True),
        "int 1; int 0; gtxnsas": (["int 1", "int 0", "gtxnsas ApplicationArgs", "pop"], True),
        "GroupIndex; gtxns": (["txn GroupIndex", "gtxns Amount", "pop"], False), "GroupIndex-1; gtxns": (["txn GroupIndex", "int 1", "-", "gtxns Amount", "pop"], False),
        "load; gtxns": (["load 0", "gtxns Amount", "pop"], False), "unknown; gtxns": (["gtxns Amount", "pop"], False),
        "GroupIndex; int 0; gtxnsas": (["txn GroupIndex", "int 0", "gtxnsas ApplicationArgs", "pop"], False),
        "txn only": (["txn Amount", "pop"], False), "txna": (["txna ApplicationArgs 0", "pop"], False), "itxn": (["itxn Amount", "pop"], False),
        # reads of the inner group an application has submitted are not reads of a member of the analysed group
        "gitxn 0 (inner group)": (["gitxn 0 Amount", "pop"], False), "gitxna 1 (inner group)": (["gitxna 1 ApplicationArgs 0", "pop"], False),
        "gitxnas 0 (inner group)": (["int 0", "gitxnas 0 ApplicationArgs", "pop"], False), "itxna": (["itxna ApplicationArgs 0", "pop"], False),
        "relative then absolute": (["txn GroupIndex", "gtxns Amount", "pop", "gtxn 0 Amount", "pop"], True),
        "unknown then constant": (["gtxns Amount", "pop", "int 2", "gtxns Amount", "pop"], True),
    }
    for name, (lines, want) in rows.items():
        g = Graph(ctx)
        bb = g.block("X", lines)
        try:
            got = w.call(f, bb)
        except PyRaise as e:
            got = f"RAISES {e.exc} {e.where}"
        rep.check(got is want, rule, name, where, got, want, why="the report condition of group-size-check does not recognise (or over-recognises) absolute-index reads",
                  sample={"block": lines, "absolute index read": want})
    # the report condition is an 'any block of the path' test: decided on the closure detect() hands to the path search
    rc = d["report"]
    rep.require(rc is not None, "group-size-check passes no report condition")
    g = Graph(ctx)
    plain1, plain2 = g.block("P1", ["txn Amount", "pop"]), g.block("P2", ["int 1", "return"])
    absb = g.block("A", ["gtxn 0 Amount", "pop"])
    for og in (False, True):
        calls = _captured_closures(ctx, d, og)
        funcs = [a for a in calls[0][1] if isinstance(a, FuncV)] if calls else []
        rep.check(len(funcs) >= 2, rule, f"report condition handed to the path search (output_group={og})", f"{ctx.path(d['mod'].name)}:{rc.lineno}", len(funcs), "predicate and report condition")
        if len(funcs) < 2:
            continue
        cond = funcs[1]
        for pname, path, want in (("no block reads by absolute index", [plain1, plain2], False), ("first block", [absb, plain1], True), ("last block", [plain1, plain2, absb], True),
                                  ("middle block", [plain1, absb, plain2], True), ("single plain block", [plain1], False), ("single reading block", [absb], True), ("empty path", [], False)):
            try:
                got = w.call(cond, list(path))
            except PyRaise as e:
                got = f"RAISES {e.exc} {e.where}"
            rep.check(got is want, rule, f"report condition (output_group={og}): {pname}", f"{ctx.path(d['mod'].name)}:{rc.lineno}", got, want,
                      why="a path is reported exactly when some block of it reads another transaction by absolute index")


def rule_history(ctx, rep):
    rule = "T-HISTORY"
    rep.rule(rule, "the predicate and the report condition a path-reporting detector hands to the path search, taken from an abstract run of "
                   "detect() itself (closures included), are functions of their argument alone: evaluating them on contexts / paths of two "
                   "contracts in either order, repeatedly, or alone gives the same verdict per argument - blocks of different contracts share "
                   "ids, so nothing may be remembered by id")
    w = ctx.world
    from ..absobj import Graph
    dets = path_detectors(ctx)
    n = 0
    for name in sorted(dets):
        d = dets[name]
        where = f"{ctx.path(d['mod'].name)}:{d['detect'].lineno}"
        for og in (False, True):
            try:
                calls = _captured_closures(ctx, d, og)
            except PyRaise as e:
                rep.violation(rule, f"{name}: detect() with output_group={og}", where, f"RAISES {e.exc} {e.where}", "a call of the path search")
                continue
            rep.check(len(calls) == 1, rule, f"{name}: detect() with output_group={og} calls the path search once", where, [c[0] for c in calls], "one call")
            if len(calls) != 1:
                continue
            helper, args, kw, _bound = calls[0]
            funcs = [a for a in args if isinstance(a, FuncV)] + [v for v in kw.values() if isinstance(v, FuncV)]
            rep.check(len(funcs) >= 1, rule, f"{name}: hands a predicate to {helper}", where, len(funcs), ">= 1")
            if not funcs:
                continue
            pred = funcs[0]
            # contexts with different verdicts: take them from the detector's own truth table
            table = _pred_tables(ctx)[name] if name in _pred_tables(ctx) else []
            pos = [a for a, v in table if v]
            neg = [a for a, v in table if not v]
            if pos and neg:
                ca, cb = _mk_ctx(ctx, **pos[0]), _mk_ctx(ctx, **neg[0])
                orders = {"A,B": [ca, cb], "B,A": [cb, ca], "A,A,B,B": [ca, ca, cb, cb], "B,B,A": [cb, cb, ca]}
                for oname, seq in orders.items():
                    # a fresh activation per order: what one order remembers cannot hide in the next
                    helper2, args2, kw2, _b2 = _captured_closures(ctx, d, og)[0]
                    p2 = [a for a in args2 if isinstance(a, FuncV)][0]
                    try:
                        got = [(("A" if c is ca else "B"), w.call(p2, c)) for c in seq]
                    except PyRaise as e:
                        got = f"RAISES {e.exc} {e.where}"
                    want = [(("A" if c is ca else "B"), c is ca) for c in seq]
                    n += 1
                    rep.check(got == want, rule, f"{name} (output_group={og}): predicate on contexts in order {oname}", where, got, want,
                              why="the verdict for a context depends on which contexts were asked before")
            if len(funcs) >= 2:
                g1, g2 = Graph(ctx), Graph(ctx)
                # two contracts: their first blocks share id 0; only the second contract reads another transaction by absolute index
                a0 = g1.block("A0", ["txn Amount", "pop"])
                a1 = g1.block("A1", ["int 1", "return"])
                b0 = g2.block("B0", ["gtxn 0 Amount", "pop"])
                b1 = g2.block("B1", ["int 1", "return"])
                pa, pb = [a0, a1], [b0, b1]
                for oname, seq in {"A,B": [pa, pb], "B,A": [pb, pa], "A,A,B": [pa, pa, pb], "B,B,A,B": [pb, pb, pa, pb]}.items():
                    helper2, args2, kw2, _b2 = _captured_closures(ctx, d, og)[0]
                    rc2 = [a for a in args2 if isinstance(a, FuncV)][1]
                    try:
                        got = [(("A" if q is pa else "B"), w.call(rc2, q)) for q in seq]
                    except PyRaise as e:
                        got = f"RAISES {e.exc} {e.where}"
                    want = [(("A" if q is pa else "B"), q is pb) for q in seq]
                    n += 1
                    rep.check(got == want, rule, f"{name} (output_group={og}): report condition on paths of two contracts in order {oname}", where, got, want,
                              why="the report condition of a path depends on paths of another contract seen before (blocks of different contracts share ids)")
    rep.count("history rows", n)
    rep.require(n >= 40, f"T-HISTORY evaluated only {n} rows")


def rule_group_all(ctx, rep):
    rule = "T-GROUPALL"
    rep.rule(rule, "detect_missing_tx_field_validations_group (the path search over everything a Tealer object holds): one entry per configured "
                   "logic signature and per configured application, in group and transaction order, each holding that function's contract and "
                   "exactly the paths the single-function search reports for it with the same predicate and report condition")
    w = ctx.world
    f = w.func(DU, "detect_missing_tx_field_validations_group")
    single = w.func(DU, "detect_missing_tx_field_validations")
    where = f"{ctx.path(DU)}:{f.node.lineno}"
    TX = "tealer.execution_context.transactions"
    TXN, GRP = w.cls(TX, "Transaction"), w.cls(TX, "GroupTransaction")
    TL = w.cls("tealer.tealer", "Tealer")
    pred = _marker_pred(ctx)
    it = Interp(TXN.mod)

    def fn(tag, validated=False):
        x = _leaf_function(ctx, {"self": validated}, two_leaves=True, second_marks={"self": False})
        x.fields["contract"] = Obj(w.cls("tealer.teal.teal", "Teal"), __tag__=tag)
        x.fields["__tag__"] = tag
        return x

    def txn(ls=None, app=None, has_ls=None):
        t = w.new(TXN)
        it.assign_attr(t, "has_logic_sig", (ls is not None) if has_ls is None else has_ls)
        it.assign_attr(t, "logic_sig", ls)
        it.assign_attr(t, "application", app)
        return t

    A, B, C, D = fn("A"), fn("B"), fn("C", validated=True), fn("D")
    groups = {
        "one logic signature": [[txn(ls=A)]],
        "one application": [[txn(app=B)]],
        "logic signature and application on one transaction": [[txn(ls=A, app=B)]],
        "two transactions in one group": [[txn(ls=A), txn(app=B)]],
        "two groups": [[txn(ls=A)], [txn(app=B), txn(ls=D, app=C)]],
        "signed by a logic signature that is not configured": [[txn(has_ls=True), txn(app=B)]],
        "a function whose first leaf validates": [[txn(ls=C)]],
        "no transactions": [[]],
    }
    import ast as _ast
    only_long = FuncV(w.module(DU), _ast.parse("lambda path: len(path) > 5", mode="eval").body, closure=None)
    for name, gs in groups.items():
        objs = []
        for txs in gs:
            g = w.new(GRP)
            it.assign_attr(g, "transactions", list(txs))
            objs.append(g)
        tl = Obj(TL, _groups=objs)
        tl.fields["groups"] = objs
        for rc_name, rc in (("default report condition", None), ("a report condition that rejects every path", only_long)):
            want = []
            for txs in gs:
                for t in txs:
                    for role in ("logic_sig", "application"):
                        fx = w.getattr(t, role)
                        if fx is None or (role == "logic_sig" and not w.getattr(t, "has_logic_sig")):
                            continue
                        paths = w.call(single, fx, pred, *([rc] if rc is not None else []))
                        want.append((fx.fields["__tag__"], [[w.getattr(b, "idx") for b in p] for p in paths]))
            try:
                out = w.call(f, tl, pred, *([rc] if rc is not None else []))
                got = [(c.fields.get("__tag__"), [[w.getattr(b, "idx") for b in p] for p in ps]) for c, ps in out]
            except PyRaise as e:
                got = f"RAISES {e.exc} {e.where}"
            rep.check(got == want, rule, f"{name}, {rc_name}", where, got, want,
                      why="the paths reported for a Tealer object are not the paths of its configured functions", sample={"groups": name, "entries": len(want)})
    rep.require(sum(1 for _ in groups) >= 8, "T-GROUPALL rows")
