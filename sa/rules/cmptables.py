"""T-CMP: comparison tables of the four transaction-context analyses, extracted by abstract evaluation of
`_get_asserted_single` (and everything it calls) over the complete product
    operator x operand order x comparand kind (x constant),
compared cell by cell with oracles computed from the meaning of the comparison.
"""
import itertools
import operator

from ..absint import Obj, Term, Interp, PyRaise, Unsupported, EnumMember
from ..absobj import Builder, analysis_object

TC = "tealer.analyses.dataflow.transaction_context"
OPS = {"==": operator.eq, "!=": operator.ne, "<": operator.lt, "<=": operator.le, ">": operator.gt, ">=": operator.ge}
MIRROR = {"==": "==", "!=": "!=", "<": ">", "<=": ">=", ">": "<", ">=": "<="}


def _builder(ctx):
    return ctx.cached("builder", lambda: Builder(ctx))


def _call(ctx, me, meth, *args):
    try:
        return ctx.world.call(ctx.world.method(me, meth), *args)
    except PyRaise as e:
        return ("RAISES", e.exc, e.where)


def _analysis_where(ctx, mod, clsname, meth="_get_asserted_single"):
    cls = ctx.world.cls(mod, clsname)
    c, st = cls.find(meth)
    return f"{ctx.path(c.mod.name)}:{st.lineno}" if st is not None else ctx.path(mod)


def cond(ctx, field_line, opsym, pos, comparand):
    """stack value of `field op comparand` (pos 'L': field pushed first) as tealer reconstructs it"""
    b = _builder(ctx)
    seq = [field_line, comparand] if pos == "L" else [comparand, field_line]
    seq = [x for x in seq if x is not None]
    v, bb, objs = b.operand(seq + [opsym])
    return v


def _find_analyses(ctx):
    """the DataflowTransactionContext subclasses, discovered by role"""
    w = ctx.world
    base = w.cls(TC + ".generic", "DataflowTransactionContext")
    found = {}
    for modname in ("int_fields", "fee_field", "addr_fields", "txn_types"):
        mod = w.module(f"{TC}.{modname}")
        if mod is None:
            continue
        import ast as _ast
        for name, st in mod.defs.items():
            if isinstance(st, _ast.ClassDef):
                c = mod.lookup(name)
                if c.is_sub(base) and c is not base:
                    found[modname] = c
    return found


# ------------------------------------------------------------------------------------------------ ints (C06)

def rule_int_tables(ctx, rep):
    rule = "T-CMP(int)"
    rep.rule(rule, "GroupSize/GroupIndex: 6 operators x 2 operand orders x c in 0..18: true set = {v in U | comparison holds}, "
                   "false set = complement in U; non-constant comparands give (U,U)")
    an = _find_analyses(ctx)
    rep.require("int_fields" in an, "integer-field analysis class not found")
    cls = an["int_fields"]
    me = Obj(cls)
    w = ctx.world
    const = ctx.spec("avm_fields.json")["constants"]
    n = const["MAX_GROUP_SIZE"]
    where = _analysis_where(ctx, cls.mod.name, cls.name)
    doms = {"GroupSize": ("global GroupSize", set(range(1, n + 1))), "GroupIndex": ("txn GroupIndex", set(range(0, n)))}
    # universes as the analysis declares them
    for key, (line, U) in doms.items():
        got = _call(ctx, me, "_universal_set", key)
        rep.check(isinstance(got, set) and got == U, rule, f"{key}.universe", where, got, sorted(U))
        got0 = _call(ctx, me, "_null_set", key)
        rep.check(got0 == set(), rule, f"{key}.null", where, got0, [])
        # the universal set must be a fresh object on every call (C14 E-SHARED is the general rule)
        g2 = _call(ctx, me, "_universal_set", key)
        rep.check(got is not g2, rule, f"{key}.universe-fresh", where, "same object returned twice", "fresh set per call")
    cells = 0
    for key, (line, U) in doms.items():
        for opsym, pos, c in itertools.product(OPS, "LR", list(range(0, n + 3))):
            v = cond(ctx, line, opsym, pos, f"int {c}")
            got = _call(ctx, me, "_get_asserted_single", key, v)
            f = OPS[opsym]
            T = {x for x in U if (f(x, c) if pos == "L" else f(c, x))}
            want = (T, U - T)
            ok = (isinstance(got, tuple) and len(got) == 2 and isinstance(got[0], set) and isinstance(got[1], set)
                  and got[0] & U == want[0] and got[1] & U == want[1])
            cells += 1
            shown = (sorted(got[0]), sorted(got[1])) if ok or (isinstance(got, tuple) and got and isinstance(got[0], set)) else got
            rep.check(ok, rule, f"{key} {'field' if pos == 'L' else 'c'} {opsym} {'c' if pos == 'L' else 'field'}", where,
                      {"c": c, "true": shown[0] if isinstance(shown, tuple) else shown, "false": shown[1] if isinstance(shown, tuple) else None},
                      {"c": c, "true": sorted(want[0]), "false": sorted(want[1])},
                      why="comparison table cell differs from the meaning of the comparison",
                      sample={"key": key, "cond": f"{'field' if pos == 'L' else c} {opsym} {c if pos == 'L' else 'field'}", "true": sorted(want[0])})
        # pushint spelling gives the same cell as int
        for opsym in ("<", "=="):
            a = _call(ctx, me, "_get_asserted_single", key, cond(ctx, line, opsym, "L", "int 3"))
            b = _call(ctx, me, "_get_asserted_single", key, cond(ctx, line, opsym, "L", "pushint 3"))
            rep.check(a == b, rule, f"{key} pushint==int {opsym}", where, b, a)
        # comparands that are not program constants, other fields, unknown operands: no information
        others = {"named-constant": "int pay", "other-field": "txn Fee", "load": "load 0", "unknown": None}
        for (kind, oline), opsym, pos in itertools.product(others.items(), ("==", "<", ">="), "LR"):
            v = cond(ctx, line, opsym, pos, oline)
            got = _call(ctx, me, "_get_asserted_single", key, v)
            rep.check(got == (U, U), rule, f"{key} {opsym} vs {kind} ({pos})", where, got, (sorted(U), sorted(U)),
                      why="a comparison the tool cannot evaluate must not constrain the field")
        # the same field of an *inner* transaction (itxn / gitxn read what the application itself submitted) says nothing about the group
        if key == "GroupIndex":
            for iline, opsym, pos in itertools.product(("itxn GroupIndex", "gitxn 0 GroupIndex"), ("==", "<"), "LR"):
                got = _call(ctx, me, "_get_asserted_single", key, cond(ctx, iline, opsym, pos, "int 3"))
                rep.check(got == (U, U), rule, f"{key} unaffected by `{iline} {opsym} 3` ({pos})", where, got, (sorted(U), sorted(U)),
                          why="a field of an inner transaction is not the field of the transaction under analysis")
        # a comparison of the *other* field does not constrain this key
        other_line = doms["GroupIndex" if key == "GroupSize" else "GroupSize"][0]
        got = _call(ctx, me, "_get_asserted_single", key, cond(ctx, other_line, "==", "L", "int 3"))
        rep.check(got == (U, U), rule, f"{key} unaffected by other field", where, got, (sorted(U), sorted(U)))
        # non-comparison consumers
        for opsym in ("+", "&&", "!"):
            seq = [line, "int 3", opsym] if opsym != "!" else [line, opsym]
            v, _, _ = _builder(ctx).operand(seq)
            got = _call(ctx, me, "_get_asserted_single", key, v)
            rep.check(got == (U, U), rule, f"{key} non-comparison {opsym}", where, got, (sorted(U), sorted(U)))
    rep.count("int comparison cells", cells)
    rep.require(cells >= 2 * 6 * 2 * 19, "int table smaller than the full product")


def rule_int_store(ctx, rep):
    """coupling in _store_results: indices ∩ {0..max(sizes)-1}, empty when sizes empty; lists stored for every block"""
    rule = "T-STORE(int)"
    rep.rule(rule, "_store_results of the integer analysis: group_indices = indices ∩ [0, max(sizes)), group_sizes = sizes")
    an = _find_analyses(ctx)
    cls = an["int_fields"]
    w = ctx.world
    b = _builder(ctx)
    FN = w.cls("tealer.teal.functions", "Function")
    BTC = w.cls("tealer.teal.context.block_transaction_context", "BlockTransactionContext")
    where = _analysis_where(ctx, cls.mod.name, cls.name, "_store_results")
    cases = [({1, 2, 3}, {0, 1, 2, 5, 15}, [1, 2, 3], [0, 1, 2]), (set(), {0, 1}, [], []), ({16}, set(range(16)), [16], list(range(16))),
             ({1}, {0, 3}, [1], [0]), ({2, 9}, {9, 8, 0}, [2, 9], [0, 8])]
    for sizes, indices, want_s, want_i in cases:
        bb, _ = b.block(["int 1"])
        ctxobj = w.new(BTC)
        fn = Obj(FN, _blocks=[bb], _transaction_contexts={bb: ctxobj})
        me = Obj(cls, _function=fn, _block_contexts={"GroupSize": {bb: set(sizes)}, "GroupIndex": {bb: set(indices)}})
        r = _call(ctx, me, "_store_results")
        if isinstance(r, tuple) and r and r[0] == "RAISES":
            rep.violation(rule, f"sizes={sorted(sizes)} indices={sorted(indices)}", where, r, "stored lists")
            continue
        gs = sorted(w.getattr(ctxobj, "group_sizes"))
        gi = sorted(w.getattr(ctxobj, "group_indices"))
        rep.check(gs == want_s and gi == want_i, rule, f"sizes={sorted(sizes)} indices={sorted(indices)}", where,
                  {"group_sizes": gs, "group_indices": gi}, {"group_sizes": want_s, "group_indices": want_i},
                  why="an index must never be listed without a larger size")
    # defaults of BlockTransactionContext agree with the universes
    n = ctx.spec("avm_fields.json")["constants"]["MAX_GROUP_SIZE"]
    c0 = w.new(BTC)
    rep.check(sorted(w.getattr(c0, "group_sizes")) == list(range(1, n + 1)) and sorted(w.getattr(c0, "group_indices")) == list(range(n)),
              rule, "BlockTransactionContext defaults", ctx.path("tealer.teal.context.block_transaction_context"),
              {"group_sizes": w.getattr(c0, "group_sizes"), "group_indices": w.getattr(c0, "group_indices")},
              {"group_sizes": list(range(1, n + 1)), "group_indices": list(range(n))})


def rule_set_algebra(ctx, rep, which=("int_fields", "txn_types")):
    rule = "T-LATTICE(set)"
    rep.rule(rule, "_union/_intersection/_null_set of the set-valued analyses are set union/intersection/empty")
    an = _find_analyses(ctx)
    samples = [set(), {1}, {1, 2}, {2, 3}, {1, 2, 3, 4}]
    for name in which:
        if name not in an:
            continue
        cls = an[name]
        me = Obj(cls)
        where = _analysis_where(ctx, cls.mod.name, cls.name, "_union")
        key = "GroupSize" if name == "int_fields" else "TransactionType"
        for a, b in itertools.product(samples, samples):
            a1, b1, a2, b2 = set(a), set(b), set(a), set(b)
            u = _call(ctx, me, "_union", key, a1, b1)
            i = _call(ctx, me, "_intersection", key, a2, b2)
            rep.check(a1 == a and b1 == b and a2 == a and b2 == b, rule, f"{cls.name} lattice operations leave their arguments unchanged", where,
                      [sorted(a1), sorted(b1), sorted(a2), sorted(b2)], "unchanged")
            rep.check(u == (a | b), rule, f"{cls.name}._union", where, u, sorted(a | b), sample={"a": sorted(a), "b": sorted(b)})
            rep.check(i == (a & b), rule, f"{cls.name}._intersection", where, i, sorted(a & b))


# ------------------------------------------------------------------------------------------------ fee (C09)

def _fee_view(ctx, v):
    """(is_unknown, value) of a FeeValue object"""
    if isinstance(v, Obj):
        w = ctx.world
        return (w.getattr(v, "is_unknown"), w.getattr(v, "value"))
    return v


def rule_fee_tables(ctx, rep):
    rule = "T-CMP(fee)"
    rep.rule(rule, "Fee: 6 operators x 2 operand orders: (max fee when true, max fee when false) equals the bound implied by the "
                   "comparison, for symbolic c and for boundary constants; unknown comparands give the 'unknown bound' on the bounded side")
    an = _find_analyses(ctx)
    rep.require("fee_field" in an, "fee analysis class not found")
    cls = an["fee_field"]
    me = Obj(cls)
    const = ctx.spec("avm_fields.json")["constants"]
    MAXU = const["MAX_UINT64"]
    where = _analysis_where(ctx, cls.mod.name, cls.name)
    b = _builder(ctx)
    # universe / null
    u = _fee_view(ctx, _call(ctx, me, "_universal_set", "Fee"))
    z = _fee_view(ctx, _call(ctx, me, "_null_set", "Fee"))
    rep.check(u == (False, MAXU), rule, "Fee.universe", where, u, (False, MAXU))
    rep.check(z == (False, 0), rule, "Fee.null", where, z, (False, 0))

    def implied(opsym, pos, c):
        """(bound when true, bound when false) of `Fee op c` / `c op Fee` over uint64; None = empty set (any bound is sound)"""
        eff = opsym if pos == "L" else MIRROR[opsym]
        def bound(op, neg):
            # max{v | v op c} resp. max{v | not (v op c)}
            table = {"<": (c - 1 if c > 0 else None, MAXU), "<=": (c, MAXU if c < MAXU else None), "==": (c, MAXU if c != MAXU else MAXU - 1),
                     "!=": (MAXU if c != MAXU else MAXU - 1, c), ">": (MAXU if c < MAXU else None, c), ">=": (MAXU, c - 1 if c > 0 else None)}
            return table[op][1 if neg else 0]
        return bound(eff, False), bound(eff, True)

    cells = 0
    consts = [0, 1, 2, 999, 1000, 1001, const["MAX_TRANSACTION_COST"], const["MAX_TRANSACTION_COST"] + 1]
    for opsym, pos in itertools.product(OPS, "LR"):
        for c in consts:
            v = cond(ctx, "txn Fee", opsym, pos, f"int {c}")
            got = _call(ctx, me, "_get_asserted_single", "Fee", v)
            wt, wf = implied(opsym, pos, c)
            cells += 1
            if not (isinstance(got, tuple) and len(got) == 2 and isinstance(got[0], Obj)):
                rep.violation(rule, f"Fee {pos} {opsym}", where, got, {"c": c, "true": wt, "false": wf})
                continue
            gt, gf = _fee_view(ctx, got[0]), _fee_view(ctx, got[1])
            ok = (gt[0] is False and gf[0] is False and (wt is None or gt[1] == wt) and (wf is None or gf[1] == wf))
            rep.check(ok, rule, f"{'Fee' if pos == 'L' else 'c'} {opsym} {'c' if pos == 'L' else 'Fee'}", where,
                      {"c": c, "true": gt[1], "false": gf[1], "unknown": (gt[0], gf[0])}, {"c": c, "true": wt, "false": wf},
                      why="fee bound differs from the bound implied by the comparison",
                      sample={"cond": f"{'Fee' if pos == 'L' else c} {opsym} {c if pos == 'L' else 'Fee'}", "true": wt, "false": wf})
        # symbolic constant: the table holds for every c (affine normal forms compared)
        csym = Term("c")
        try:
            v = cond(ctx, "txn Fee", opsym, pos, b.int_sym(csym))
            got = _call(ctx, me, "_get_asserted_single", "Fee", v)
            eff = opsym if pos == "L" else MIRROR[opsym]
            cm1 = Term("max(0,c-1)")
            want = {"<": (cm1, MAXU), "<=": (csym, MAXU), "==": (csym, MAXU), "!=": (MAXU, csym), ">": (MAXU, csym), ">=": (MAXU, cm1)}[eff]
            gt, gf = _fee_view(ctx, got[0]), _fee_view(ctx, got[1])
            rep.check(gt == (False, want[0]) and gf == (False, want[1]), rule,
                      f"{'Fee' if pos == 'L' else 'c'} {opsym} {'c' if pos == 'L' else 'Fee'} (symbolic)", where,
                      {"true": repr(gt[1]), "false": repr(gf[1])}, {"true": repr(want[0]), "false": repr(want[1])})
        except Unsupported as e:
            rep.note(f"symbolic fee row {opsym}/{pos} not extracted ({e}); concrete boundary constants decide the cell")
        # unknown comparand (value the tool cannot evaluate): bounded side becomes the 'unknown' element
        for kind, oline in (("load", "load 0"), ("named", "int pay"), ("unknown", None)):
            if oline is None and pos == "L":
                continue   # an operand from before the block is always below the field: only `unknown op Fee` exists
            v = cond(ctx, "txn Fee", opsym, pos, oline)
            got = _call(ctx, me, "_get_asserted_single", "Fee", v)
            eff = opsym if pos == "L" else MIRROR[opsym]
            bounded_true = eff in ("<", "<=", "==")
            gt, gf = _fee_view(ctx, got[0]), _fee_view(ctx, got[1])
            want_t = "unknown-bound" if bounded_true else "unbounded"
            want_f = "unbounded" if bounded_true else "unknown-bound"
            def cls_(x):
                return "unknown-bound" if x[0] is True else ("unbounded" if x == (False, MAXU) else f"known {x[1]}")
            # the documented heuristic (an 'unknown bound' on the side an upper bound would be) or no information at all are both
            # consistent with C09; a *known* bound, or a bound on the wrong side, is not
            ok_t = cls_(gt) in ((want_t, "unbounded") if bounded_true else ("unbounded",))
            ok_f = cls_(gf) in (("unbounded",) if bounded_true else (want_f, "unbounded"))
            rep.check(ok_t and ok_f, rule, f"Fee {opsym} vs {kind} ({pos})", where,
                      {"true": cls_(gt), "false": cls_(gf)}, {"true": want_t + " or unbounded" if bounded_true else want_t, "false": want_f if bounded_true else want_f + " or unbounded"},
                      why="a comparison with a value the tool cannot evaluate may bound the fee only on the side an upper bound would, and never by a known constant")
    # comparisons that do not involve the fee
    for seq in (["txn Amount", "int 5", "<"], ["int 1", "int 2", "=="], ["txn Fee", "int 5", "+"], ["txn Fee", "!"], ["gtxn 1 Fee", "int 5", "<"],
                # operands (partly) from before the block, none of them the fee
                ["<"], ["=="], ["int 5", "<="], ["txn Amount", ">"], ["int 1000", "=="],
                # the fee of an inner transaction is not the fee of the transaction under analysis
                ["itxn Fee", "int 5", "<"], ["int 1000", "itxn Fee", ">="], ["itxn Fee", "int 0", "=="], ["gitxn 0 Fee", "int 5", "<="]):
        v, _, _ = b.operand(seq)
        got = _call(ctx, me, "_get_asserted_single", "Fee", v)
        gt, gf = _fee_view(ctx, got[0]), _fee_view(ctx, got[1])
        rep.check(gt == (False, MAXU) and gf == (False, MAXU), rule, f"Fee unaffected by {' '.join(seq)}", where, (gt, gf), "unbounded both")
    rep.count("fee comparison cells", cells)


def rule_fee_lattice(ctx, rep):
    rule = "T-LATTICE(fee)"
    rep.rule(rule, "FeeValue chain: union = max, intersection = min, 'unknown' ordered exactly at MAX_TRANSACTION_COST")
    an = _find_analyses(ctx)
    cls = an["fee_field"]
    me = Obj(cls)
    w = ctx.world
    where = _analysis_where(ctx, cls.mod.name, cls.name, "_union")
    const = ctx.spec("avm_fields.json")["constants"]
    K, MAXU = const["MAX_TRANSACTION_COST"], const["MAX_UINT64"]
    FV = w.cls(cls.mod.name, "FeeValue")
    # constants the module uses
    for nm, want in (("MAX_TRANSACTION_COST", K), ("MAX_UINT64", MAXU), ("MAX_GROUP_SIZE", const["MAX_GROUP_SIZE"])):
        got = w.module("tealer.utils.algorand_constants").lookup(nm)
        rep.check(got == want, rule, f"constant {nm}", ctx.path("tealer.utils.algorand_constants"), got, want)
    elems = [("k", 0), ("k", 1000), ("k", K), ("k", K + 1), ("k", MAXU), ("u", None)]

    def mk(e):
        return w.new(FV, is_unknown=True) if e[0] == "u" else w.new(FV, value=e[1])

    def rank(e):   # position in the chain; unknown sits between K and K+1
        return (K, 1) if e[0] == "u" else (e[1], 0)

    for a, b in itertools.product(elems, elems):
        u = _fee_view(ctx, _call(ctx, me, "_union", "Fee", mk(a), mk(b)))
        i = _fee_view(ctx, _call(ctx, me, "_intersection", "Fee", mk(a), mk(b)))
        hi, lo = (a, b) if rank(a) >= rank(b) else (b, a)
        def view(e):
            return (True, MAXU) if e[0] == "u" else (False, e[1])
        def same(x, e):
            return x[0] == view(e)[0] and (x[0] is True or x[1] == e[1])
        rep.check(same(u, hi), rule, "FeeValue._union", where, {"a": a, "b": b, "got": u}, {"a": a, "b": b, "want": hi})
        rep.check(same(i, lo), rule, "FeeValue._intersection", where, {"a": a, "b": b, "got": i}, {"a": a, "b": b, "want": lo})


def rule_fee_store(ctx, rep):
    rule = "T-STORE(fee)"
    rep.rule(rule, "_store_results of the fee analysis: max_fee_unknown <=> unknown, else max_fee = value; at-index/absolute/relative "
                   "keys stored into gtxn_context/absolute_context/relative_context of the same index")
    _store_family_rule(ctx, rep, rule, "fee_field")


def _store_family_rule(ctx, rep, rule, modname):
    """writer/reader pairing of key families in _store_results, by marking each key with a distinct value"""
    an = _find_analyses(ctx)
    cls = an[modname]
    w = ctx.world
    b = _builder(ctx)
    FN = w.cls("tealer.teal.functions", "Function")
    BTC = w.cls("tealer.teal.context.block_transaction_context", "BlockTransactionContext")
    KH = f"{TC}.utils.key_helpers"
    where = _analysis_where(ctx, cls.mod.name, cls.name, "_store_results")
    n = ctx.spec("avm_fields.json")["constants"]["MAX_GROUP_SIZE"]
    bb, _ = b.block(["int 1"])
    ctxobj = w.new(BTC)
    fn = Obj(FN, _blocks=[bb], _transaction_contexts={bb: ctxobj})
    base_keys = list(w.getattr(Obj(cls), "BASE_KEYS"))
    marks = {}
    bc = {}

    def mark_value(tag):
        if modname == "fee_field":
            FV = w.cls(cls.mod.name, "FeeValue")
            val = 100 + len(marks)
            marks[tag] = val
            return w.new(FV, value=val)
        if modname == "addr_fields":
            val = f"ADDR_{len(marks)}"
            marks[tag] = val
            return {val}
        if modname == "txn_types":
            # distinct subsets of the label universe
            labels = list(w.module("tealer.utils.teal_enums").lookup("ALL_TRANSACTION_TYPES"))
            k = len(marks)
            val = {labels[k % len(labels)], labels[(k // len(labels) + 1 + k) % len(labels)]}
            marks[tag] = val
            return set(val)
        raise Unsupported(modname)

    get_at = w.func(KH, "get_gtxn_at_index_key")
    get_abs = w.func(KH, "get_absolute_index_key")
    get_rel = w.func(KH, "get_relative_index_key")
    for bk in base_keys:
        bc[bk] = {bb: mark_value(("self", bk, 0))}
        for i in range(n):
            bc[w.call(get_at, i, bk)] = {bb: mark_value(("at", bk, i))}
            bc[w.call(get_abs, i, bk)] = {bb: mark_value(("abs", bk, i))}
        for off in range(-(n - 1), n):
            if off:
                bc[w.call(get_rel, off, bk)] = {bb: mark_value(("rel", bk, off))}
    me = Obj(cls, _function=fn, _block_contexts=bc)
    r = _call(ctx, me, "_store_results")
    if isinstance(r, tuple) and r and r[0] == "RAISES":
        rep.violation(rule, "_store_results runs on a full key table", where, r, "no exception",
                      why="a key family the analysis never computed is read, or a context outside the valid range is addressed")
        return

    def read(c, bk):
        if modname == "fee_field":
            return w.getattr(c, "max_fee")
        if modname == "addr_fields":
            attr = {"RekeyTo": "rekeyto", "CloseRemainderTo": "closeto", "AssetCloseTo": "assetcloseto", "Sender": "sender"}[bk]
            v = w.getattr(c, attr)
            pa = w.getattr(v, "possible_addr")
            return pa[0] if len(pa) == 1 else pa
        if modname == "txn_types":
            return set(w.getattr(c, "transaction_types"))

    cnt = 0
    for (fam, bk, i), val in marks.items():
        if fam == "self":
            c = ctxobj
        elif fam == "at":
            c = w.call(w.method(ctxobj, "gtxn_context"), i)
        elif fam == "abs":
            c = w.call(w.method(ctxobj, "absolute_context"), i)
        else:
            c = w.call(w.method(ctxobj, "relative_context"), i)
        got = read(c, bk)
        cnt += 1
        rep.check(got == val, rule, f"{cls.name} store {fam}[{i}] {bk}", where, got, val,
                  why=f"the value computed for key family '{fam}' index {i} of {bk} is not what the {fam} context at {i} reports")
    rep.count(f"{cls.name} stored key slots", cnt)
    rep.require(cnt >= len(base_keys) * (1 + 2 * n + 2 * (n - 1)), "store table smaller than the key space")
    if modname == "fee_field":
        # the unknown flag of each key family is stored in that family's context, independently of the others
        FV = w.cls(cls.mod.name, "FeeValue")
        for fam_unknown in ("self", "at", "abs", "rel"):
            ctx3 = w.new(BTC)
            fn3 = Obj(FN, _blocks=[bb], _transaction_contexts={bb: ctx3})
            bc3 = {}
            for bk in base_keys:
                bc3[bk] = {bb: w.new(FV, is_unknown=(fam_unknown == "self")) if fam_unknown == "self" else w.new(FV, value=7)}
                for i in range(n):
                    bc3[w.call(get_at, i, bk)] = {bb: w.new(FV, is_unknown=True) if fam_unknown == "at" else w.new(FV, value=7)}
                    bc3[w.call(get_abs, i, bk)] = {bb: w.new(FV, is_unknown=True) if fam_unknown == "abs" else w.new(FV, value=7)}
                for off in range(-(n - 1), n):
                    if off:
                        bc3[w.call(get_rel, off, bk)] = {bb: w.new(FV, is_unknown=True) if fam_unknown == "rel" else w.new(FV, value=7)}
            _call(ctx, Obj(cls, _function=fn3, _block_contexts=bc3), "_store_results")
            flags = {"self": w.getattr(ctx3, "max_fee_unknown"), "at": w.getattr(w.call(w.method(ctx3, "gtxn_context"), 3), "max_fee_unknown"),
                     "abs": w.getattr(w.call(w.method(ctx3, "absolute_context"), 3), "max_fee_unknown"),
                     "rel": w.getattr(w.call(w.method(ctx3, "relative_context"), -2), "max_fee_unknown")}
            vals = {"self": w.getattr(ctx3, "max_fee"), "at": w.getattr(w.call(w.method(ctx3, "gtxn_context"), 3), "max_fee"),
                    "abs": w.getattr(w.call(w.method(ctx3, "absolute_context"), 3), "max_fee"), "rel": w.getattr(w.call(w.method(ctx3, "relative_context"), -2), "max_fee")}
            want_flags = {k: (k == fam_unknown) for k in flags}
            ok_vals = all(vals[k] == 7 for k in vals if k != fam_unknown)
            rep.check(flags == want_flags and ok_vals, rule, f"FeeField store: only the {fam_unknown} family is unknown", where, {"unknown": flags, "values": vals},
                      {"unknown": want_flags, "known values": 7}, why="the known/unknown flag of one key family is taken from another family")
        # unknown flag
        FV = w.cls(cls.mod.name, "FeeValue")
        ctx2 = w.new(BTC)
        fn2 = Obj(FN, _blocks=[bb], _transaction_contexts={bb: ctx2})
        bc2 = {k: {bb: w.new(FV, is_unknown=True)} for k in bc}
        _call(ctx, Obj(cls, _function=fn2, _block_contexts=bc2), "_store_results")
        rep.check(w.getattr(ctx2, "max_fee_unknown") is True, rule, "FeeField store unknown flag", where,
                  w.getattr(ctx2, "max_fee_unknown"), True)
        rep.check(w.getattr(ctxobj, "max_fee_unknown") is False, rule, "FeeField store known flag", where,
                  w.getattr(ctxobj, "max_fee_unknown"), False)


# ------------------------------------------------------------------------------------------------ addresses (C08)

def _addr_consts(ctx, cls):
    m = ctx.world.module(cls.mod.name)
    return m.lookup("ANY_ADDRESS"), m.lookup("NO_ADDRESS")


def _den(s, ANY, NO):
    """denotation of an address-set value: TOP, or a frozenset of addresses"""
    if not isinstance(s, (set, frozenset)):
        return ("BAD", repr(s))
    if ANY in s:
        return "TOP"
    return frozenset(x for x in s if x != NO)


def _show(d):
    return d if isinstance(d, (str, tuple)) else sorted(d)


ADDR_KEYS = {"RekeyTo": "rekeyto", "CloseRemainderTo": "closeto", "AssetCloseTo": "assetcloseto", "Sender": "sender"}
LIT = "7777777777777777777777777777777777777777777777777777Y5HFKQ"
LIT2 = "VCMJKWOY5P5P7SKMZFFOCEROPJCZOTIJMNIYNUCKH7LRO45JMJP6UYBIJA"


def rule_addr_lattice(ctx, rep):
    rule = "T-LATTICE(addr)"
    rep.rule(rule, "address sets with ANY (top) and NO (empty) markers: union/intersection denote set union/intersection")
    an = _find_analyses(ctx)
    rep.require("addr_fields" in an, "address analysis class not found")
    cls = an["addr_fields"]
    me = Obj(cls)
    ANY, NO = _addr_consts(ctx, cls)
    where = _analysis_where(ctx, cls.mod.name, cls.name, "_union")
    u = _call(ctx, me, "_universal_set", "RekeyTo")
    z = _call(ctx, me, "_null_set", "RekeyTo")
    rep.check(_den(u, ANY, NO) == "TOP", rule, "addr.universe", where, u, "ANY")
    rep.check(_den(z, ANY, NO) == frozenset(), rule, "addr.null", where, z, "NO")
    elems = [{ANY}, {NO}, {"a"}, {"b"}, {"a", "b"}, {"b", "c"}, set()]
    for a, b in itertools.product(elems, elems):
        da, db = _den(a, ANY, NO), _den(b, ANY, NO)
        wu = "TOP" if "TOP" in (da, db) else da | db
        wi = db if da == "TOP" else da if db == "TOP" else da & db
        a1, b1, a2, b2 = set(a), set(b), set(a), set(b)
        gu = _den(_call(ctx, me, "_union", "RekeyTo", a1, b1), ANY, NO)
        gi = _den(_call(ctx, me, "_intersection", "RekeyTo", a2, b2), ANY, NO)
        rep.check(a1 == a and b1 == b and a2 == a and b2 == b, rule, "addr lattice operations leave their arguments unchanged", where,
                  {"a": sorted(a), "b": sorted(b), "after union": [sorted(a1), sorted(b1)], "after intersection": [sorted(a2), sorted(b2)]}, "unchanged",
                  why="the operands are live entries of the analysis tables: modifying them in place corrupts the stored information")
        rep.check(gu == wu, rule, "addr._union", where, {"a": sorted(a), "b": sorted(b), "got": _show(gu)}, {"want": _show(wu)},
                  sample={"a": sorted(a), "b": sorted(b), "union": _show(wu)})
        rep.check(gi == wi, rule, "addr._intersection", where, {"a": sorted(a), "b": sorted(b), "got": _show(gi)}, {"want": _show(wi)})


def rule_addr_tables(ctx, rep):
    rule = "T-CMP(addr)"
    rep.rule(rule, "address fields: == gives (asserted, ANY), != gives (ANY, asserted), both operand orders; ZeroAddress -> no address, "
                   "literal -> that literal, CreatorAddress -> one named address; other operators / unrelated values give (ANY, ANY)")
    an = _find_analyses(ctx)
    cls = an["addr_fields"]
    me = Obj(cls)
    ANY, NO = _addr_consts(ctx, cls)
    where = _analysis_where(ctx, cls.mod.name, cls.name)
    zero_lit = ctx.spec("avm_fields.json")["constants"]["ZERO_ADDRESS"]
    base_keys = list(ctx.world.getattr(me, "BASE_KEYS"))
    rep.check(sorted(base_keys) == sorted(ADDR_KEYS), rule, "address keys", where, base_keys, sorted(ADDR_KEYS),
              why="the four governed address fields must be analysed")
    comparands = {
        "zero": ("global ZeroAddress", lambda d: d == frozenset()),
        "literal": (f"addr {LIT}", lambda d: d == frozenset({LIT})),
        "zero-literal": (f"addr {zero_lit}", lambda d: d in (frozenset(), frozenset({zero_lit}))),
        "creator": ("global CreatorAddress", lambda d: d != "TOP" and len(d) == 1 and LIT not in d),
    }
    cells = 0
    for key in ADDR_KEYS:
        line = f"txn {key}"
        for (cname, (cline, accept)), pos in itertools.product(comparands.items(), "LR"):
            for opsym in ("==", "!="):
                got = _call(ctx, me, "_get_asserted_single", key, cond(ctx, line, opsym, pos, cline))
                cells += 1
                if not (isinstance(got, tuple) and len(got) == 2):
                    rep.violation(rule, f"{key} {opsym} {cname} ({pos})", where, got, "pair of address sets")
                    continue
                dt, df = _den(got[0], ANY, NO), _den(got[1], ANY, NO)
                asserted, other = (dt, df) if opsym == "==" else (df, dt)
                rep.check(asserted != "TOP" and not isinstance(asserted, tuple) and accept(asserted) and other == "TOP", rule,
                          f"{key} {opsym} {cname} ({pos})", where, {"true": _show(dt), "false": _show(df)},
                          f"{'true' if opsym == '==' else 'false'} side = the compared address, other side = ANY",
                          sample={"cond": f"{line} {opsym} {cline}" if pos == "L" else f"{cline} {opsym} {line}", "true": _show(dt), "false": _show(df)})
            for opsym in ("<", ">=", "+"):
                got = _call(ctx, me, "_get_asserted_single", key, cond(ctx, line, opsym, pos, cline))
                ok = isinstance(got, tuple) and _den(got[0], ANY, NO) == "TOP" and _den(got[1], ANY, NO) == "TOP"
                rep.check(ok, rule, f"{key} {opsym} (not an equality)", where, got, "(ANY, ANY)")
        # comparisons not involving this key
        for seq in ([f"txn {'Sender' if key != 'Sender' else 'RekeyTo'}", "global ZeroAddress", "=="], ["txn Amount", "int 0", "=="],
                    [f"gtxn 1 {key}", "global ZeroAddress", "=="], ["global ZeroAddress", "global CreatorAddress", "=="]):
            v, _, _ = _builder(ctx).operand(seq)
            got = _call(ctx, me, "_get_asserted_single", key, v)
            ok = isinstance(got, tuple) and _den(got[0], ANY, NO) == "TOP" and _den(got[1], ANY, NO) == "TOP"
            rep.check(ok, rule, f"{key} unaffected by {seq[0].split()[0]} {seq[0].split()[-1] if seq[0].split()[-1] != key else 'same-field-other-txn'}",
                      where, got, "(ANY, ANY)", why="a comparison of another field / another transaction must not constrain this key")
        # comparisons whose operands come (partly) from before the block and do not involve this key: no information
        for seq in (["=="], ["!="], ["int 3", "=="], ["txn Amount", "=="], [f"txn {'Sender' if key != 'Sender' else 'RekeyTo'}", "!="], ["global ZeroAddress", "=="],
                    # the field of an inner transaction is not the field of the transaction under analysis
                    [f"itxn {key}", "global ZeroAddress", "=="], ["global ZeroAddress", f"itxn {key}", "=="], [f"itxn {key}", "global ZeroAddress", "!="],
                    [f"gitxn 0 {key}", "global ZeroAddress", "=="]):
            v, _, _ = _builder(ctx).operand(seq)
            got = _call(ctx, me, "_get_asserted_single", key, v)
            ok = isinstance(got, tuple) and _den(got[0], ANY, NO) == "TOP" and _den(got[1], ANY, NO) == "TOP"
            rep.check(ok, rule, f"{key} unaffected by a comparison with operands from before the block ({' ; '.join(seq)})", where, got, "(ANY, ANY)",
                      why="a comparison that does not involve the field must not constrain it")
        # run-time comparands (documented heuristic): must not raise and must keep the other side ANY
        for oline, pos in itertools.product(("load 0", "txn Sender" if key != "Sender" else "txn Receiver", None), "LR"):
            if oline is None and pos == "L":
                continue
            got = _call(ctx, me, "_get_asserted_single", key, cond(ctx, line, "==", pos, oline))
            ok = isinstance(got, tuple) and len(got) == 2 and got[0] != "RAISES" and _den(got[1], ANY, NO) == "TOP"
            rep.check(ok, rule, f"{key} == run-time value", where, got, "(heuristic set, ANY)")
    rep.count("address comparison cells", cells)
    rep.require(cells >= 4 * 4 * 2 * 2, "address table smaller than the full product")


def rule_addr_store(ctx, rep):
    rule = "T-STORE(addr)"
    rep.rule(rule, "_set_addr_values: any_addr <=> ANY in s, no_addr <=> NO in s, possible_addr = the rest; key -> attribute pairing for "
                   "self / at-index / absolute / relative contexts")
    an = _find_analyses(ctx)
    cls = an["addr_fields"]
    w = ctx.world
    ANY, NO = _addr_consts(ctx, cls)
    where = _analysis_where(ctx, cls.mod.name, cls.name, "_set_addr_values")
    AFV = w.cls("tealer.teal.context.block_transaction_context", "AddrFieldValue")
    for s in ({ANY}, {NO}, {"a"}, {"b", "a"}, set()):
        o = w.new(AFV)
        r = _call(ctx, Obj(cls), "_set_addr_values", o, set(s))
        got = (w.getattr(o, "any_addr"), w.getattr(o, "no_addr"), list(w.getattr(o, "possible_addr")))
        want = (ANY in s, NO in s, sorted(x for x in s if x not in (ANY, NO)))
        rep.check(got[0] == want[0] and got[1] == want[1] and sorted(got[2]) == want[2], rule, f"_set_addr_values {sorted(s)}", where, got, want)
    d = w.new(AFV)
    rep.check((w.getattr(d, "any_addr"), w.getattr(d, "no_addr"), w.getattr(d, "possible_addr")) == (True, False, []), rule,
              "AddrFieldValue defaults", ctx.path("tealer.teal.context.block_transaction_context"), repr(d), "any address")
    _store_family_rule(ctx, rep, rule, "addr_fields")


# ------------------------------------------------------------------------------------------------ transaction kinds (C07)

KINDS = {   # the four detector-relevant kinds: field valuation of the governed transaction
    "Pay": {"TypeEnum": 1, "OnCompletion": 0, "ApplicationID": "zero"},
    "Axfer": {"TypeEnum": 4, "OnCompletion": 0, "ApplicationID": "zero"},
    "ApplUpdateApplication": {"TypeEnum": 6, "OnCompletion": 4, "ApplicationID": "nonzero"},
    "ApplDeleteApplication": {"TypeEnum": 6, "OnCompletion": 5, "ApplicationID": "nonzero"},
}


def _labels(s):
    return {x.name if isinstance(x, EnumMember) else str(x) for x in s}


def rule_kind_tables(ctx, rep):
    rule = "T-KIND"
    rep.rule(rule, "transaction-kind table: every cell (field in TypeEnum/OnCompletion/ApplicationID) x (bare, !, ==c, !=c, both orders) "
                   "x (true,false) retains each of Pay/Axfer/ApplUpdateApplication/ApplDeleteApplication that can make the comparison come out that way")
    an = _find_analyses(ctx)
    rep.require("txn_types" in an, "transaction-type analysis class not found")
    cls = an["txn_types"]
    me = Obj(cls)
    w = ctx.world
    where = _analysis_where(ctx, cls.mod.name, cls.name)
    fs = ctx.spec("avm_fields.json")
    key = list(w.getattr(me, "BASE_KEYS"))[0]
    U = _call(ctx, me, "_universal_set", key)
    rep.check(isinstance(U, set) and set(KINDS) <= _labels(U), rule, "universe contains the four consumed kinds", where, sorted(_labels(U)) if isinstance(U, set) else U, sorted(KINDS))
    names = {"TypeEnum": fs["type_enum"], "OnCompletion": fs["on_completion"]}
    cells = 0

    def possible(kind, field, opsym, cval, outcome):
        """can a transaction of this kind make `field op c` evaluate to `outcome`?"""
        val = KINDS[kind][field]
        if field == "ApplicationID":
            if cval is None:         # truthiness
                res = {val == "nonzero"}
            elif cval == 0:
                res = {(val == "zero")}
            else:                     # equal to some specific non-zero id: possible either way for non-zero ids
                res = {True, False} if val == "nonzero" else {False}
        else:
            res = {val == cval}
        if opsym == "!=":
            res = {not r for r in res}
        return outcome in res

    def judge(field, opsym, cname, cval, got, raw):
        nonlocal cells
        if not (isinstance(got, tuple) and len(got) == 2 and isinstance(got[0], set)):
            rep.violation(rule, f"({field} {opsym} {cname}) evaluates", where, got, "pair of label sets",
                          why="the table raises or returns no sets for a constant a valid program can contain")
            return
        for outcome, s in ((True, _labels(got[0])), (False, _labels(got[1]))):
            for kind in KINDS:
                cells += 1
                need = possible(kind, field, opsym, cval, outcome)
                if need:
                    rep.check(kind in s, rule, f"({field} {opsym} {cname}).{str(outcome).lower()} keeps {kind}", where,
                              sorted(s), f"contains {kind}",
                              why=f"a {kind} transaction can make `{raw}` {'true' if outcome else 'false'} but the cell drops its label",
                              sample={"cell": f"({field} {opsym} {cname}).{outcome}", "labels": sorted(s)})

    for field in ("TypeEnum", "OnCompletion"):
        line = f"txn {field}"
        consts = [(n, v, f"int {n}") for n, v in names[field].items() if not (field == "TypeEnum" and n == "unknown")]
        consts += [(n, v, f"int {v}") for n, v in names[field].items()]
        consts += [(str(v), v, f"int {v}") for v in (7, 255)]
        for (cname, cval, cline), opsym, pos in itertools.product(consts, ("==", "!="), "LR"):
            v = cond(ctx, line, opsym, pos, cline)
            got = _call(ctx, me, "_get_asserted_single", key, v)
            judge(field, opsym, cname, cval, got, f"{line} {opsym} {cline}")
    # ApplicationID
    line = "txn ApplicationID"
    b = _builder(ctx)
    v, _, _ = b.operand([line])
    judge("ApplicationID", "bare", "-", None, _call(ctx, me, "_get_asserted_single", key, v), line)
    v, _, _ = b.operand([line, "!"])
    got = _call(ctx, me, "_get_asserted_single", key, v)
    # `!x` is true iff x is zero: outcome polarity flips relative to truthiness
    if isinstance(got, tuple) and len(got) == 2:
        judge("ApplicationID", "not", "-", None, (got[1], got[0]), f"{line}; !")
    else:
        judge("ApplicationID", "not", "-", None, got, f"{line}; !")
    for (cname, cval), opsym, pos in itertools.product((("0", 0), ("5", 5)), ("==", "!="), "LR"):
        got = _call(ctx, me, "_get_asserted_single", key, cond(ctx, line, opsym, pos, f"int {cval}"))
        judge("ApplicationID", opsym, cname, cval, got, f"{line} {opsym} int {cval}")
    # unrelated comparisons / unknown operands keep everything
    for seq in (["txn Amount", "int 1", "=="], ["txn TypeEnum", "load 0", "=="], ["txn TypeEnum", "=="], ["txn TypeEnum", "int pay", "<"],
                ["gtxn 1 TypeEnum", "int pay", "=="], ["int 1", "int pay", "=="], ["txn Fee", "!"], ["!"], ["=="], ["int pay", "=="], ["int NoOp", "!="],
                ["itxn TypeEnum", "int pay", "=="], ["int appl", "itxn TypeEnum", "=="], ["itxn OnCompletion", "int NoOp", "=="], ["itxn OnCompletion", "int DeleteApplication", "!="],
                ["gitxn 0 TypeEnum", "int axfer", "=="], ["itxn ApplicationID", "int 0", "=="], ["itxn ApplicationID", "!"]):
        v, _, _ = b.operand(seq)
        got = _call(ctx, me, "_get_asserted_single", key, v)
        ok = isinstance(got, tuple) and isinstance(got[0], set) and set(KINDS) <= _labels(got[0]) and set(KINDS) <= _labels(got[1])
        rep.check(ok, rule, f"unrelated `{' '.join(seq)}` keeps all kinds", where, got, "all four kinds on both sides")
    rep.count("kind cells judged", cells)
    rep.require(cells >= 400, f"kind table has only {cells} cells")


def rule_kind_exact_compared(ctx, rep):
    """exactness on the compared label (C03.4 for the kind domain)"""
    rule = "T-KIND(exact)"
    rep.rule(rule, "OnCompletion/TypeEnum == X: the true side is exactly {X}'s label among the labels of that dimension and the false side excludes it")
    an = _find_analyses(ctx)
    cls = an["txn_types"]
    me = Obj(cls)
    w = ctx.world
    where = _analysis_where(ctx, cls.mod.name, cls.name)
    key = list(w.getattr(me, "BASE_KEYS"))[0]
    dims = {"OnCompletion": {"UpdateApplication": "ApplUpdateApplication", "DeleteApplication": "ApplDeleteApplication", "NoOp": "ApplNoOp"},
            "TypeEnum": {"pay": "Pay", "axfer": "Axfer", "appl": "Appl"}}
    for field, m in dims.items():
        dim_labels = set(m.values()) | ({"ApplOptIn", "ApplCloseOut", "ApplClearState"} if field == "OnCompletion" else {"KeyReg", "Acfg"})
        for (cname, label), pos in itertools.product(m.items(), "LR"):
            for opsym in ("==", "!="):
                got = _call(ctx, me, "_get_asserted_single", key, cond(ctx, f"txn {field}", opsym, pos, f"int {cname}"))
                if not (isinstance(got, tuple) and isinstance(got[0], set)):
                    rep.violation(rule, f"{field} {opsym} {cname}", where, got, "label sets")
                    continue
                t, f = _labels(got[0]), _labels(got[1])
                eq_side, ne_side = (t, f) if opsym == "==" else (f, t)
                rep.check(eq_side & dim_labels == {label} and label not in ne_side, rule, f"{field} {opsym} {cname} ({pos})", where,
                          {"equal-side": sorted(eq_side), "other-side": sorted(ne_side)}, f"equal side has exactly {label} of its dimension; other side lacks it",
                          why="a direct check on the compared value must exclude exactly that value")


def rule_totality(ctx, rep):
    """no comparison table raises on operands a valid program can produce"""
    rule = "T-TOTAL"
    rep.rule(rule, "no analysis' comparison table raises for any operator x comparand kind a valid program can contain (named constants of any "
                   "domain, numbers outside the named range, byte/address literals, other fields, unknown operands)")
    an = _find_analyses(ctx)
    rep.require(len(an) == 4, f"expected 4 analyses, found {sorted(an)}")
    b = _builder(ctx)
    fields = {"int_fields": [("GroupSize", "global GroupSize"), ("GroupIndex", "txn GroupIndex")], "fee_field": [("Fee", "txn Fee")],
              "addr_fields": [("RekeyTo", "txn RekeyTo"), ("Sender", "txn Sender")],
              "txn_types": [("TransactionType", "txn TypeEnum"), ("TransactionType", "txn OnCompletion"), ("TransactionType", "txn ApplicationID")]}
    comparands = ["int 0", "int 7", "int 255", "int 18446744073709551615", "int pay", "int appl", "int NoOp", "int DeleteApplication", "int unknown",
                  "pushint 6", "byte 0x00", f"addr {LIT}", "global ZeroAddress", "txn Amount", "load 0", "gtxn 1 TypeEnum", "int 1", None,
                  # byte constants in every spelling the assembler accepts (a string literal is kept as written, the others become hexadecimal)
                  'byte "admin"', 'byte ""', "byte base64(AAEC)", "byte b32 AEBA", "byte 0x", 'pushbytes "zz"', "pushbytes 0x0001", "byte base32(" + "A" * 52 + ")",
                  "byte 0x" + "00" * 32, "method \"f()void\""]
    n = 0
    for modname, cls in an.items():
        me = Obj(cls)
        where = _analysis_where(ctx, cls.mod.name, cls.name)
        for (key, line), comp, opsym, pos in itertools.product(fields[modname], comparands, ("==", "!=", "<", ">=", "&&", "+"), "LR"):
            if comp is None and pos == "L":
                continue
            try:
                v = cond(ctx, line, opsym, pos, comp)
            except Exception as e:   # the comparand itself is not parseable TEAL: not a valid program
                continue
            got = _call(ctx, me, "_get_asserted_single", key, v)
            n += 1
            rep.check(not (isinstance(got, tuple) and got and got[0] == "RAISES"), rule, f"{cls.name}: {line} {opsym} {comp} ({pos})", where, got, "a pair of value sets",
                      why="the analysis fails with an internal error on a comparison a valid program can contain")
    rep.count("totality rows", n)
    rep.require(n >= 1000, f"only {n} totality rows")


def rule_universe_fresh(ctx, rep):
    rule = "T-FRESH"
    rep.rule(rule, "_universal_set / _null_set of every analysis return a fresh object on every call, equal in value")
    an = _find_analyses(ctx)
    keys = {"int_fields": ["GroupSize", "GroupIndex"], "fee_field": ["Fee"], "addr_fields": ["RekeyTo"], "txn_types": ["TransactionType"]}
    for modname, cls in an.items():
        me = Obj(cls)
        where = _analysis_where(ctx, cls.mod.name, cls.name, "_universal_set")
        for key in keys[modname]:
            for meth in ("_universal_set", "_null_set"):
                a, b = _call(ctx, me, meth, key), _call(ctx, me, meth, key)
                same_value = (a == b) if not isinstance(a, Obj) else (_fee_view(ctx, a) == _fee_view(ctx, b))
                rep.check(a is not b and same_value and not (isinstance(a, tuple) and a and a[0] == "RAISES"), rule, f"{cls.name}.{meth}({key})", where,
                          "same object returned twice" if a is b else repr(a)[:80], "fresh, equal objects",
                          why="a shared object handed out as 'the universal set' is modified by whoever narrows it")
