"""C17 / C18: output modes evaluated abstractly (files and stdout are captured in the evaluator's abstract file system;
the context-analysis phase is abstracted away in the quick tier and contexts are filled with marker values)."""
import ast
import json
import re

from ..absint import Obj, Interp, PyRaise, Unsupported, ClassV, FuncV
from .cfg_rules import SHAPES, reference_cfg, PT, PF
from .function_rules import DISPATCH, LOOPY

COMMON = "tealer.utils.command_line.common"
OUT = "tealer.utils.output"
MAIN = "tealer.__main__"


def build_tealer(ctx, src, name="c", stub=True):
    """a Tealer object for one contract; stub=True leaves every block context at its default (the fixpoint is decided elsewhere),
    stub=False runs the context analyses as well"""
    w = ctx.world
    pf = w.module(PF)
    real = pf.__dict__.setdefault("_real_analysis", None)
    if real is None:
        pf.values.pop("_apply_transaction_context_analysis", None)
        real = pf._real_analysis = pf.lookup("_apply_transaction_context_analysis")
    pf.values["_apply_transaction_context_analysis"] = ("builtin", "noop") if stub else real
    f = w.func(COMMON, "init_tealer_from_single_contract")
    return w.call(f, src, name)


# shapes whose detect run needs the real block contexts: a retsub outside a subroutine is never reached by the path search because
# the backward pass leaves its block with the empty context; with default contexts the search would run into it
NEEDS_ANALYSIS = {"retsub in the main program", "retsub in the main program next to a subroutine", "call as the last instruction, the callee returns",
                  "group index computed by a subroutine"}
# evaluated with the real analysis in the thorough tier only (cost)
THOROUGH_ONLY = {"retsub in the main program next to a subroutine"}


def printer_classes(ctx):
    w = ctx.world
    base = w.cls("tealer.printers.abstract_printer", "AbstractPrinter")
    out = {}
    for modname, tree in ctx.trees.items():
        if not modname.startswith("tealer.printers."):
            continue
        mod = w.module(modname)
        for st in tree.body:
            if isinstance(st, ast.ClassDef):
                c = mod.lookup(st.name)
                if isinstance(c, ClassV) and c.is_sub(base) and c is not base:
                    out[w.getattr(c, "NAME")] = c
    return out


def detector_classes(ctx):
    w = ctx.world
    base = w.cls("tealer.detectors.abstract_detector", "AbstractDetector")
    out = {}
    for modname, tree in ctx.trees.items():
        if not modname.startswith("tealer.detectors."):
            continue
        mod = w.module(modname)
        for st in tree.body:
            if isinstance(st, ast.ClassDef):
                c = mod.lookup(st.name)
                if isinstance(c, ClassV) and c.is_sub(base) and c is not base:
                    try:
                        out[w.getattr(c, "NAME")] = c
                    except PyRaise:
                        pass
    return out


PROGRAMS = None


def programs():
    global PROGRAMS
    if PROGRAMS is None:
        PROGRAMS = {"dispatcher": DISPATCH, "loop then call": LOOPY}
        for k in ("diamond", "loop with back edge", "bnz as last instruction", "bz to the next line", "switch with repeated label",
                  "dead block with two live successors", "dead code in a subroutine region", "dead code that calls a subroutine",
                  "dead call site of a live subroutine", "labels at the end", "back-to-back labels", "empty subroutine",
                  "callsub as last instruction", "subroutine called twice", "nested subroutines", "recursive subroutine",
                  "subroutine before main", "subroutine that exits the program", "call inside a loop", "return point that is a jump target",
                  "mutual recursion", "fall off the end", "subroutine path falls off the end", "retsub in the main program",
                  "retsub in the main program next to a subroutine", "comments and blank lines", "version 3 program (no subroutines yet)",
                  "program without a version line", "instructions the optimisation detectors report", "subroutine that jumps back to its own entry",
                  "call as the last instruction, the callee returns", "group index computed by a subroutine"):
            PROGRAMS[k] = SHAPES[k]
    return PROGRAMS


def _capture(ctx):
    w = ctx.world
    w.files = {}
    w.stdout = []
    return w


def rule_outputs_complete(ctx, rep):
    rule = "T-COMPLETE"
    rep.rule(rule, "every printer (cfg, subroutine-cfg, call-graph, human-summary, transaction-context) and the detect path (all detectors, "
                   "text and JSON output) complete without an internal error on the abstract program shape classes")
    w = _capture(ctx)
    prs = printer_classes(ctx)
    dets = detector_classes(ctx)
    rep.require(len(prs) >= 5, f"only {len(prs)} printers found")
    rep.require(len(dets) >= 12, f"only {len(dets)} detectors found")
    handle = w.func(MAIN, "handle_output")
    NS = None
    n = 0
    for name, src in programs().items():
        if name in THOROUGH_ONLY:
            continue
        try:
            tl = build_tealer(ctx, src, stub=name not in NEEDS_ANALYSIS)
        except PyRaise as e:
            rep.violation(rule, f"{name}: contract loads", ctx.path(COMMON), f"RAISES {e.exc} {e.where}", "a Tealer object",
                          why="a valid program cannot be loaded")
            continue
        teal = list(w.getattr(tl, "contracts").values())[0]
        for pname, pc in sorted(prs.items()):
            try:
                p = w.new(pc, teal)
                w.call(w.method(p, "print"))
                ok, obs = True, "completed"
            except PyRaise as e:
                ok, obs = False, f"RAISES {e.exc} at {e.where}"
            n += 1
            rep.check(ok, rule, f"print {pname}: {name}", ctx.path(pc.mod.name), obs, "completes",
                      why="a printer fails with an internal error on a valid program", sample={"printer": pname, "program": name})
        # detect path
        try:
            for dname, dc in sorted(dets.items()):
                w.call(w.method(tl, "register_detector"), dc)
            results = w.call(w.method(tl, "run_detectors"))
            ok, obs = True, "completed"
        except PyRaise as e:
            results, ok, obs = None, False, f"RAISES {e.exc} at {e.where}"
        rep.check(ok, rule, f"detect (all detectors): {name}", ctx.path("tealer.tealer"), obs, "completes", sample={"program": name})
        if results is None:
            continue
        for mode in ("text", "json"):
            args = Obj(w.cls("tealer.exceptions", "TealerException"))   # any object with attributes; used as an argparse namespace
            args.fields["json"] = None if mode == "text" else "-"
            try:
                w.call(handle, args, results, teal, None)
                ok, obs = True, "completed"
            except PyRaise as e:
                ok, obs = False, f"RAISES {e.exc} at {e.where}"
            n += 1
            rep.check(ok, rule, f"detect output ({mode}): {name}", ctx.path(MAIN), obs, "completes")
    rep.count("printer/output runs", n)


# ---------------------------------------------------------------------------------------------- DOT contents

NODE_RE = re.compile(r"^(\d+)\[label=", re.M)
EDGE_RE = re.compile(r"(?<![\w])(\d+):s -> (\d+):(\d+):n")
BOX_RE = re.compile(r"(x(\d+)_(\w+))\[label=\"Subroutine ([^\"]+)\"")


def _global_edges(ref, src):
    """edge multiset of the global graph from the reference construction: block edges except callsub -> return point, plus
    callsub -> callee entry and callee retsub -> return point"""
    edges = []
    callee_of = {}
    for name, info in ref["subs"].items():
        if name == "__main__":
            continue
        for c in info["callers"]:
            callee_of[c] = name
    for b, info in ref["blocks"].items():
        if b in callee_of:
            s = ref["subs"][callee_of[b]]
            edges.append((b, s["entry"]))
            if info["next"]:
                for r in s["retsubs"]:
                    edges.append((r, info["next"][0]))
        elif info["text"][-1].split()[0] == "callsub":
            # a call site that was not retained as caller cannot occur among retained blocks
            edges.append((b, "?"))
        else:
            for nb in info["next"]:
                edges.append((b, nb))
    return sorted(edges)


def rule_dot_full(ctx, rep):
    rule = "T-DOT(cfg)"
    rep.rule(rule, "`cfg` export: one node per block with one row per instruction ('line. source'), edge set = the global graph (block edges, "
                   "callsub -> callee entry, callee retsub -> return point; no callsub -> return-point edge), edges land on the entry line port")
    w = ctx.world
    f = w.func(OUT, "full_cfg_to_dot")
    where = ctx.path(OUT)
    n = 0
    for name, src in programs().items():
        teal = w.call(w.func(PT, "parse_teal"), src, "c")
        try:
            dot = w.call(f, teal)
        except PyRaise as e:
            rep.violation(rule, f"{name}: runs", where, f"RAISES {e.exc} {e.where}", "dot text")
            continue
        ref = reference_cfg(ctx, src)
        nodes = sorted(int(x) for x in NODE_RE.findall(dot))
        rep.check(nodes == sorted(ref["blocks"]), rule, f"{name}: nodes", where, nodes, sorted(ref["blocks"]))
        edges = sorted((int(a), int(b)) for a, b, _ in EDGE_RE.findall(dot))
        want = _global_edges(ref, src)
        rep.check(edges == want, rule, f"{name}: edges", where, edges, want, why="exported edges differ from the global control-flow graph",
                  sample={"program": name, "edges": want})
        ports_ok = all(int(port) == ref["blocks"][int(b)]["lines"][0] for a, b, port in EDGE_RE.findall(dot) if int(b) in ref["blocks"])
        rep.check(ports_ok, rule, f"{name}: edges land on entry lines", where, "an edge targets a line that is not the destination's entry", "entry line ports")
        # rows: every instruction of every block appears as 'line. source' inside its node
        chunks = re.split(r"(?m)^(?=\d+\[label=)", dot)
        rows_ok = True
        missing = []
        for ch in chunks:
            m = re.match(r"(\d+)\[label=", ch)
            if not m:
                continue
            b = int(m.group(1))
            if b not in ref["blocks"]:
                continue
            for line, text in zip(ref["blocks"][b]["lines"], ref["blocks"][b]["text"]):
                esc = text.replace("&", "&amp;").replace("<", "&lt;").replace(">", "&gt;").replace('"', "&quot;").replace("'", "&#x27;")
                if f"{line}. " not in ch or esc.split()[0] not in ch:
                    rows_ok = False
                    missing.append((b, line))
        rep.check(rows_ok, rule, f"{name}: instruction rows", where, missing[:5], [])
        n += 1
    rep.count("cfg exports compared", n)


def rule_dot_subroutines(ctx, rep):
    rule = "T-DOT(subroutine-cfg)"
    rep.rule(rule, "`subroutine-cfg` export: per subroutine one node per block, block edges except out of callsub blocks, exactly one call box per "
                   "call site wired callsub -> box -> return point")
    w = ctx.world
    f = w.func(OUT, "subroutine_to_dot")
    where = ctx.path(OUT)
    for name, src in programs().items():
        teal = w.call(w.func(PT, "parse_teal"), src, "c")
        ref = reference_cfg(ctx, src)
        subs = dict(w.getattr(teal, "subroutines"))
        subs["__main__"] = w.getattr(teal, "main")
        for sname, sub in subs.items():
            try:
                dot = w.call(f, sub)
            except PyRaise as e:
                rep.violation(rule, f"{name}/{sname}: runs", where, f"RAISES {e.exc} {e.where}", "dot text")
                continue
            info = ref["subs"][sname]
            nodes = sorted(int(x) for x in NODE_RE.findall(dot))
            rep.check(nodes == info["blocks"], rule, f"{name}/{sname}: nodes", where, nodes, info["blocks"])
            callsites = [b for b in info["blocks"] if ref["blocks"][b]["text"][-1].split()[0] == "callsub"]
            edges = sorted((int(a), int(b)) for a, b, _ in EDGE_RE.findall(dot) if not a.startswith("x"))
            want_edges = sorted((b, nb) for b in info["blocks"] if b not in callsites for nb in ref["blocks"][b]["next"])
            # box -> return point edges also match EDGE_RE with a numeric source only when the source is a block; filter them via boxes
            boxes = BOX_RE.findall(dot)
            want_boxes = sorted((b, str(ref["blocks"][b]["next"][0]) if ref["blocks"][b]["next"] else "none", ref["blocks"][b]["text"][-1].split()[1]) for b in callsites)
            got_boxes = sorted((int(b), rp, callee) for _, b, rp, callee in boxes)
            rep.check(got_boxes == want_boxes, rule, f"{name}/{sname}: call boxes", where, got_boxes, want_boxes,
                      why="every call site must be drawn as one box naming the callee", sample={"program": name, "subroutine": sname, "boxes": want_boxes})
            rep.check(edges == want_edges, rule, f"{name}/{sname}: edges", where, edges, want_edges)
            for node, b, rp, callee in boxes:
                ok = f"{b}:s -> {node}:n" in dot and (rp == "none" or re.search(rf"{node}:s -> {rp}:\d+:n", dot))
                rep.check(bool(ok), rule, f"{name}/{sname}: box wiring", where, "box not wired callsub -> box -> return point", "wired")


SUB_NAMES = ("#pragma version 6\ncallsub bal.check\ncallsub bal_check\ncallsub bal-check\ncallsub BAL_check\nint 1\nreturn\n"
             "bal.check:\nint 1\npop\nretsub\nbal_check:\nint 2\nbnz t\nint 3\npop\nt:\nretsub\nbal-check:\nint 4\npop\nretsub\nBAL_check:\nint 5\npop\nint 6\npop\nretsub\n")


def rule_dot_subroutine_files(ctx, rep):
    rule = "T-DOT(subroutine-cfg files)"
    rep.rule(rule, "`subroutine-cfg` export as files: one file for the shortened main graph and one file per subroutine - also for subroutines "
                   "whose labels differ only in punctuation or letter case - each holding the blocks of its own subroutine")
    w = _capture(ctx)
    f = w.func(OUT, "all_subroutines_to_dot")
    where = f"{ctx.path(OUT)}:{f.node.lineno}"
    import pathlib
    progs = {"labels that differ in punctuation": SUB_NAMES, "nested subroutines": programs()["nested subroutines"]}
    for name, src in progs.items():
        teal = w.call(w.func(PT, "parse_teal"), src, "c")
        ref = reference_cfg(ctx, src)
        w.files, w.dirs, w.stdout = {}, {"out"}, []
        try:
            w.call(f, teal, pathlib.PurePosixPath("out"))
        except PyRaise as e:
            rep.violation(rule, f"{name}: runs", where, f"RAISES {e.exc} {e.where}", "dot files")
            continue
        finally:
            w.stdout = None
        got = sorted(sorted(int(x) for x in NODE_RE.findall(v)) for k, v in w.files.items() if k.endswith(".dot"))
        want = sorted(info["blocks"] for info in ref["subs"].values())
        rep.require(len(want) >= 3, f"{rule}: reference lists {len(want)} subroutines for '{name}'")
        rep.check(got == want, rule, f"{name}: one file per subroutine, holding its blocks", where, {"files": sorted(w.files), "blocks": got}, {"files": len(want), "blocks": want},
                  why="a subroutine's graph is missing from the export (two subroutines written to one file name?)",
                  sample={"program": name, "subroutines": sorted(ref["subs"]), "files": sorted(w.files)})


def rule_path_highlight(ctx, rep):
    rule = "T-DOT(path)"
    rep.rule(rule, "the DOT file written for a reported path marks exactly that path's blocks (by block id), one file per path")
    w = _capture(ctx)
    where = ctx.path(OUT)
    EP = w.cls(OUT, "ExecutionPaths")
    from .detectors import path_detectors
    det_cls = path_detectors(ctx)["rekey-to"]["cls"]
    for name in ("dispatcher", "subroutine called twice", "diamond"):
        src = programs()[name]
        w.files = {}
        tl = build_tealer(ctx, src)
        teal = list(w.getattr(tl, "contracts").values())[0]
        fn = list(w.getattr(teal, "functions").values())[0]
        blocks = {w.getattr(b, "idx"): b for b in w.getattr(fn, "blocks")}
        ref = reference_cfg(ctx, src)
        # two paths made of the function's own blocks: entry -> first successor chain, and entry only
        chain = [0]
        while ref["blocks"][chain[-1]]["next"] and ref["blocks"][chain[-1]]["next"][0] not in chain:
            chain.append(ref["blocks"][chain[-1]]["next"][0])
        paths = [[blocks[i] for i in chain], [blocks[0]]]
        det = w.new(det_cls, tl)
        ep = w.new(EP, teal, det, paths)
        import pathlib
        try:
            w.call(w.method(ep, "generate_output"), pathlib.PurePosixPath("out"))
        except PyRaise as e:
            rep.violation(rule, f"{name}: runs", where, f"RAISES {e.exc} {e.where}", "dot files")
            continue
        dots = {k: v for k, v in w.files.items() if k.endswith(".dot")}
        rep.check(len(dots) == 2, rule, f"{name}: one file per path", where, sorted(dots), "2 files")
        for (fname, dot), want in zip(sorted(dots.items()), (chain, [0])):
            red = []
            for ch in re.split(r"(?m)^(?=\d+\[label=)", dot):
                m = re.match(r"(\d+)\[label=<<TABLE[^>]*COLOR=\"(\w+|#\w+)\"", ch)
                if m and m.group(2) == "RED":
                    red.append(int(m.group(1)))
            rep.check(sorted(red) == sorted(want), rule, f"{name}: highlighted blocks of path {want}", where, sorted(red), sorted(want),
                      why="the exported path graph does not mark the blocks of the reported path", sample={"program": name, "path": want})
            edges = sorted((int(a), int(b)) for a, b, _ in EDGE_RE.findall(dot))
            want_e = _global_edges(ref, src)
            rep.check(edges == want_e, rule, f"{name}: edges of the graph drawn for path {want}", where, edges, want_e,
                      why="the graph a path is drawn on is not the contract's control-flow graph (callsub -> callee, retsub -> return point, no direct callsub -> return point edge)")


def rule_context_annotations(ctx, rep):
    rule = "T-DOT(context)"
    rep.rule(rule, "`transaction-context` export: every block of the function is annotated with the group sizes / indices of that block's own context")
    w = _capture(ctx)
    prs = printer_classes(ctx)
    rep.require("transaction-context" in prs, "transaction-context printer not found")
    pc = prs["transaction-context"]
    where = ctx.path(pc.mod.name)
    for name in ("dispatcher", "subroutine called twice", "dead code that calls a subroutine", "diamond"):
        src = programs()[name]
        w.files = {}
        tl = build_tealer(ctx, src)
        teal = list(w.getattr(tl, "contracts").values())[0]
        fn = list(w.getattr(teal, "functions").values())[0]
        want = {}
        for b in w.getattr(fn, "blocks"):
            i = w.getattr(b, "idx")
            c = w.call(w.method(fn, "transaction_context"), b)
            it = Interp(c.cls.mod)
            it.assign_attr(c, "group_sizes", [1 + (i % 16)])
            it.assign_attr(c, "group_indices", [i % 16])
            want[i] = (f"GroupIndex: {i % 16}", f"GroupSize: {1 + (i % 16)}")
        try:
            p = w.new(pc, teal)
            w.call(w.method(p, "print"))
        except PyRaise as e:
            rep.violation(rule, f"{name}: runs", where, f"RAISES {e.exc} at {e.where}", "dot files",
                          why="the printer looks blocks up in a table keyed by another copy of the graph")
            continue
        full = [v for k, v in w.files.items() if k.endswith("transaction-context.dot")]
        rep.check(len(full) == 1, rule, f"{name}: full graph written", where, sorted(w.files), "transaction-context.dot")
        if not full:
            continue
        bad = []
        for ch in re.split(r"(?m)^(?=\d+\[label=)", full[0]):
            m = re.match(r"(\d+)\[label=", ch)
            if not m:
                continue
            i = int(m.group(1))
            if i in want and not (want[i][0] in ch and want[i][1] in ch):
                bad.append(i)
        rep.check(not bad, rule, f"{name}: annotations are the blocks' own contexts", where, bad, [], sample={"program": name, "blocks": len(want)})
        ref = reference_cfg(ctx, src)
        edges = sorted((int(a), int(b)) for a, b, _ in EDGE_RE.findall(full[0]))
        fblocks = {w.getattr(b, "idx") for b in w.getattr(fn, "blocks")}
        want_e = _global_edges(ref, src)
        rep.check(edges == want_e, rule, f"{name}: edges of the annotated graph", where, edges, want_e,
                  why="the annotated graph is not the contract's control-flow graph")


def rule_json_envelope(ctx, rep):
    rule = "T-ENV"
    rep.rule(rule, "JSON envelope of handle_output: success is true exactly when no error occurred, error is passed through, result lists every "
                   "detector output; count = number of listed paths")
    w = _capture(ctx)
    handle = w.func(MAIN, "handle_output")
    where = f"{ctx.path(MAIN)}:{handle.node.lineno}"
    EP = w.cls(OUT, "ExecutionPaths")
    from .detectors import path_detectors, _paths_fixture
    g = _paths_fixture(ctx)
    B = g.blocks
    det = Obj(path_detectors(ctx)["rekey-to"]["cls"])
    teal = g.teal
    teal.fields["_contract_name"] = "c"
    teal.fields["contract_name"] = "c"
    for error in (None, "something failed"):
        ep = w.new(EP, teal, det, [[B["P"], B["Q"], B["J"]], [B["P"], B["R"], B["J"]]])
        args = Obj(w.cls("tealer.exceptions", "TealerException"))
        args.fields["json"] = "-"
        w.stdout = []
        try:
            w.call(handle, args, [[ep]], teal, error)
        except PyRaise as e:
            rep.violation(rule, f"handle_output(error={error!r}) runs", where, f"RAISES {e.exc} {e.where}", "json")
            continue
        text = "\n".join(w.stdout)
        try:
            js = json.loads(text)
        except ValueError:
            rep.violation(rule, f"handle_output(error={error!r}) prints JSON", where, text[:200], "a JSON document")
            continue
        rep.check(js.get("success") is (error is None), rule, f"success when error={error!r}", where, js.get("success"), error is None,
                  why="'success' must be true exactly when no error occurred")
        rep.check(js.get("error") == error, rule, f"error field when error={error!r}", where, js.get("error"), error)
        res = js.get("result")
        rep.check(isinstance(res, list) and len(res) == 1 and res[0].get("count") == 2 and len(res[0].get("paths", [])) == 2, rule,
                  f"result lists the outputs (error={error!r})", where, res if not isinstance(res, list) else [{k: r.get(k) for k in ("count", "check")} for r in res],
                  "[one output, count 2]")
    # json written to a file
    args = Obj(w.cls("tealer.exceptions", "TealerException"))
    args.fields["json"] = "out.json"
    w.files = {}
    w.dirs = set()
    ep = w.new(EP, teal, det, [[B["P"]]])
    try:
        w.call(handle, args, [[ep]], teal, None)
        written = [v for k, v in w.files.items() if k.endswith("out.json")]
        ok = len(written) == 1 and json.loads(written[0]).get("success") is True
    except (PyRaise, ValueError) as e:
        ok = False
    rep.check(ok, rule, "json written to a file", where, sorted(w.files), "out.json with success=true")


def cli_defaults(ctx):
    """default values of the command-line namespace, read off the add_argument calls of parse_args (never executed):
    {dest: default}"""
    fn = ctx.tree(MAIN)       # parse_args and the helpers that add the options shared by the subcommands
    ctx.func(MAIN, "parse_args")
    out = {"subcommand": None}
    for call in [n for n in ast.walk(fn) if isinstance(n, ast.Call) and isinstance(n.func, ast.Attribute) and n.func.attr == "add_argument"]:
        flags = [a.value for a in call.args if isinstance(a, ast.Constant) and isinstance(a.value, str)]
        kws = {k.arg: k.value for k in call.keywords}
        if "dest" in kws and isinstance(kws["dest"], ast.Constant):
            dest = kws["dest"].value
        else:
            longs = [f for f in flags if f.startswith("--")]
            dest = (longs[0][2:] if longs else flags[0].lstrip("-")).replace("-", "_") if flags else None
        if dest is None:
            continue
        default = None
        if "default" in kws:
            try:
                default = ast.literal_eval(kws["default"])
            except (ValueError, SyntaxError):
                default = None
        elif isinstance(kws.get("action"), ast.Constant) and kws["action"].value == "store_true":
            default = False
        out[dest] = default
    return out


def rule_main_detect(ctx, rep):
    rule = "T-MAIN"
    rep.rule(rule, "the `detect` command evaluated from main() down (argument parsing and plugin discovery replaced by their results): the JSON "
                   "report lists exactly the paths the detector reports, minus - with --filter-paths - those whose short notation the given "
                   "regular expression matches (the whole option value is one regular expression); count = number of listed paths")
    import re as _re
    w = _capture(ctx)
    mod = w.module(MAIN)
    main = w.func(MAIN, "main")
    where = f"{ctx.path(MAIN)}:{main.node.lineno}"
    defaults = cli_defaults(ctx)
    rep.require({"filter_paths", "json", "detectors_to_run", "contracts", "group_config"} <= set(defaults),
                f"command-line options not found in parse_args: {sorted(defaults)}")
    dets = list(detector_classes(ctx).values())
    prs = list(printer_classes(ctx).values())
    src = programs()["dispatcher"]
    NS = w.cls("tealer.exceptions", "TealerException")       # any class: used as a bag of attributes (argparse.Namespace)

    def run(filter_paths, detector="rekey-to"):
        args = Obj(NS)
        args.fields.update(defaults)
        args.fields.update({"subcommand": "detect", "contracts": ["c.teal"], "detectors_to_run": detector, "json": "-", "filter_paths": filter_paths,
                            "network": "mainnet", "debug": False})
        saved = {}
        for name, probe in (("get_detectors_and_printers", lambda *a, **k: (list(dets), list(prs))), ("parse_args", lambda *a, **k: args)):
            saved[name] = mod.lookup(name)
            mod.values[name] = ("host", probe)
        pf = w.module("tealer.teal.parse_functions")
        saved_an = pf.values.get("_apply_transaction_context_analysis")
        pf.lookup("_apply_transaction_context_analysis")
        saved_an = pf.values["_apply_transaction_context_analysis"]
        pf.values["_apply_transaction_context_analysis"] = ("builtin", "noop")
        w.files = {"c.teal": src}
        w.dirs = set()
        w.stdout = []
        try:
            try:
                w.call(main)
            except PyRaise as e:
                if e.exc != "SystemExit":
                    return f"RAISES {e.exc} {e.where}"
            text = "\n".join(w.stdout)
            start = text.find("{")
            try:
                return json.loads(text[start:])
            except ValueError:
                return f"no JSON document on stdout: {text[:200]!r}"
        finally:
            for name, v in saved.items():
                mod.values[name] = v
            pf.values["_apply_transaction_context_analysis"] = saved_an
            w.stdout = None

    base = run(None)
    ok = isinstance(base, dict) and base.get("success") is True and isinstance(base.get("result"), list) and len(base["result"]) == 1
    rep.check(ok, rule, "detect --detectors rekey-to --json - runs and reports one detector result", where,
              base if not isinstance(base, dict) else {k: base.get(k) for k in ("success", "error")}, "success with one result")
    if not ok:
        return
    all_paths = [p["short"] for p in base["result"][0]["paths"]]
    rep.check(len(all_paths) >= 4 and base["result"][0]["count"] == len(all_paths), rule, "unfiltered report lists the paths and counts them", where,
              {"count": base["result"][0]["count"], "paths": all_paths}, ">= 4 paths, count = number of paths")
    patterns = ["^0 -> 1", r"\b2\b", r"( -> \d+){2,3}$", r"^\d+( -> \d+){0,1}$", "^[0-9 >-]{1,9}$", "", "x,y", r"-> (1|2)\b"]
    n = 0
    for pat in patterns:
        got = run(pat)
        want = [p for p in all_paths if pat == "" or _re.search(pat, p) is None]
        if not isinstance(got, dict) or not got.get("result"):
            rep.violation(rule, f"--filter-paths {pat!r}: runs", where, got if not isinstance(got, dict) else got.get("error"), "a report")
            continue
        gp = [p["short"] for p in got["result"][0]["paths"]]
        n += 1
        rep.check(gp == want and got["result"][0]["count"] == len(want), rule, f"--filter-paths {pat!r}", where,
                  {"count": got["result"][0]["count"], "paths": gp}, {"count": len(want), "paths": want},
                  why="the report does not list exactly the paths that the filter leaves", sample={"filter": pat, "paths left": want})
    rep.count("filter patterns evaluated through main()", n)
    # the error side of the envelope, reached through main(): an error that occurs while the contract is loaded (before there is a contract
    # to name the output directory after) is reported in the requested format - `success` false with the message - not lost in an internal error
    for fields, what in (({"json": "-"}, "JSON"), ({"json": None}, "text")):
        f = {"subcommand": "detect", "contracts": ["missing.teal"], "detectors_to_run": "rekey-to"}
        f.update(fields)
        err, out = _run_main(ctx, w, f, {})
        text = "\n".join(out)
        if what == "JSON":
            try:
                js = json.loads(text[text.find("{"):]) if "{" in text else None
            except ValueError:
                js = None
            got = err or (js if js is None else {k: js.get(k) for k in ("success", "error", "result")})
            ok = err is None and isinstance(js, dict) and js.get("success") is False and isinstance(js.get("error"), str) and js["error"] != "" and js.get("result") == []
            rep.check(ok, rule, "detect --json - on a contract file that does not exist: success=false with the error", where, got,
                      {"success": False, "error": "<message>", "result": []},
                      why="an error occurred, so the JSON report must say success=false; the error path of main() must not fail itself",
                      sample={"command": "detect --json - --contracts missing.teal"})
        else:
            ok = err is None and any("Error" in l and "missing.teal" in l for l in out)
            rep.check(ok, rule, "detect on a contract file that does not exist: the error is printed", where, err or out[-2:], "a line 'Error: ...missing.teal...'",
                      why="the error path of main() must report the error, not fail itself or stay silent")


# ---------------------------------------------------------------------------------------------- history independence of whole runs (C14)

HIST_X = ("#pragma version 6\nglobal GroupSize\nint 2\n==\nassert\ntxn Amount\nbz skip\ncallsub chk\nskip:\ngtxn 0 RekeyTo\nglobal ZeroAddress\n==\nassert\n"
          "int 1\nreturn\nchk:\ntxn Fee\nint 1000\n<=\nassert\nretsub\n")
HIST_Y = ("#pragma version 6\nintcblock 1 3\ntxn GroupIndex\nintc_0\n==\nbz other\ngtxn 1 CloseRemainderTo\nglobal ZeroAddress\n==\nassert\nother:\n"
          "txn RekeyTo\nglobal ZeroAddress\n==\nreturn\n")


def _run_summary(ctx, w, order, repeat=1, before=()):
    """analyse (with the real analyses) the contracts in `before`, then HIST_X; run the detectors in the given registration order `repeat` times;
    returns {detector: paths} of the last run, the JSON text, and the per-block contexts of X"""
    pf = w.module(PF)
    pf.values.pop("_apply_transaction_context_analysis", None)
    init = w.func(COMMON, "init_tealer_from_single_contract")
    for i, src in enumerate(before):
        tl0 = w.call(init, src, f"before{i}")
        for dc in order:
            w.call(w.method(tl0, "register_detector"), dc)
        w.call(w.method(tl0, "run_detectors"))
    tl = w.call(init, HIST_X, "x")
    teal = list(w.getattr(tl, "contracts").values())[0]
    for dc in order:
        w.call(w.method(tl, "register_detector"), dc)
    results = None
    for _ in range(repeat):
        results = w.call(w.method(tl, "run_detectors"))
    by_det = {}
    flat = []
    for r in results:
        for o in (r if isinstance(r, list) else [r]):
            flat.append(o)
    for o in flat:
        js = w.call(w.method(o, "to_json"))
        by_det[js["check"]] = json.dumps(js, sort_keys=True, default=str)
    fn = list(w.getattr(teal, "functions").values())[0]
    ctxs = {}
    for b in w.getattr(fn, "blocks"):
        c = w.call(w.method(fn, "transaction_context"), b)
        ctxs[w.getattr(b, "idx")] = {"sizes": list(w.getattr(c, "group_sizes")), "indices": list(w.getattr(c, "group_indices")),
                                     "rekey": [w.getattr(w.getattr(c, "rekeyto"), "any_addr"), list(w.getattr(w.getattr(c, "rekeyto"), "possible_addr"))],
                                     "fee": [w.getattr(c, "max_fee_unknown"), w.getattr(c, "max_fee")],
                                     "types": [t.name for t in w.getattr(c, "transaction_types")],
                                     "gtxn0.rekey": [w.getattr(w.getattr(w.call(w.method(c, "gtxn_context"), 0), "rekeyto"), "any_addr")]}
    order_names = [json.loads(v)["check"] for v in by_det.values()]
    return by_det, ctxs, order_names


HIST_DETECTORS = ("rekey-to", "group-size-check", "missing-fee-check", "can-close-account", "is-updatable")
HIST_VARIANTS = {"reference": dict(), "another contract analysed and checked first": dict(before=(HIST_Y,)),
                 "the same contract analysed and checked first": dict(before=(HIST_X,)),
                 "detectors registered in the opposite order": dict(reverse=True),
                 "detectors run twice": dict(repeat=2)}


def history_worker(args):
    """one whole run in its own process and its own world"""
    root, name = args
    import sys
    sys.setrecursionlimit(30000)
    from ..context import Ctx
    ctx = Ctx(root)
    w = ctx.world
    w.max_steps = 60_000_000
    w.files, w.stdout = {}, []
    kw = dict(HIST_VARIANTS[name])
    dets = [d for n, d in sorted(detector_classes(ctx).items()) if n in HIST_DETECTORS]
    if len(dets) != len(HIST_DETECTORS):
        return name, ("ANALYSIS", f"detectors for the history rows not found ({len(dets)})")
    if kw.pop("reverse", False):
        dets = dets[::-1]
    try:
        return name, ("ok", _run_summary(ctx, w, dets, **kw))
    except PyRaise as e:
        return name, ("RAISES", f"{e.exc} {e.where}")
    except Unsupported as e:
        return name, ("ANALYSIS", str(e))


def rule_history_runs(ctx, rep):
    import concurrent.futures
    rule = "T-HISTORY(runs)"
    rep.rule(rule, "whole runs evaluated abstractly with the real analyses: the per-block contexts of a contract and every detector's JSON result "
                   "are the same when another contract was analysed and checked before it in the same process, when the detectors are "
                   "registered in the opposite order, and when they are run twice")
    where = ctx.path("tealer.tealer")
    with concurrent.futures.ProcessPoolExecutor(max_workers=len(HIST_VARIANTS), mp_context=__import__('multiprocessing').get_context('spawn')) as ex:
        results = dict(ex.map(history_worker, [(str(ctx.root), n) for n in HIST_VARIANTS]))
    for name, (kind, val) in results.items():
        if kind == "ANALYSIS":
            from ..report import AnalysisError
            raise AnalysisError(f"{rule}: {name}: {val}")
    kind, base = results["reference"]
    if kind != "ok":
        rep.violation(rule, "reference run completes", where, f"RAISES {base}", "results")
        return
    rep.check(len(base[0]) == len(HIST_DETECTORS) and len(base[1]) >= 4, rule, "reference run: five results and the contexts of the function's blocks", where,
              {"results": sorted(base[0]), "blocks": len(base[1])}, "5 results")
    for name, (kind, got) in results.items():
        if name == "reference":
            continue
        if kind != "ok":
            rep.violation(rule, f"{name}: completes", where, f"RAISES {got}", "results")
            continue
        diff_ctx = sorted(k for k in set(base[1]) | set(got[1]) if base[1].get(k) != got[1].get(k))
        rep.check(not diff_ctx, rule, f"{name}: block contexts", where, {f"B{k}": got[1].get(k) for k in diff_ctx[:2]}, {f"B{k}": base[1].get(k) for k in diff_ctx[:2]},
                  why="the contexts computed for a contract depend on what happened earlier in the process")
        diff_det = sorted(k for k in set(base[0]) | set(got[0]) if base[0].get(k) != got[0].get(k))
        rep.check(not diff_det, rule, f"{name}: detector results", where, {k: (got[0].get(k) or "")[:200] for k in diff_det[:2]}, {k: (base[0].get(k) or "")[:200] for k in diff_det[:2]},
                  why="a detector's result depends on what ran before it", sample={"history": name, "results": sorted(base[0])})


def _run_main(ctx, w, fields, files):
    """main() with argument parsing and plugin discovery replaced by their results; returns (exception text or None, stdout lines)"""
    mod = w.module(MAIN)
    main = w.func(MAIN, "main")
    defaults = cli_defaults(ctx)
    dets = list(detector_classes(ctx).values())
    prs = list(printer_classes(ctx).values())
    NS = w.cls("tealer.exceptions", "TealerException")
    args = Obj(NS)
    args.fields.update(defaults)
    args.fields.update({"network": "mainnet", "debug": False})
    args.fields.update(fields)
    saved = {}
    for name, probe in (("get_detectors_and_printers", lambda *a, **k: (list(dets), list(prs))), ("parse_args", lambda *a, **k: args)):
        saved[name] = mod.lookup(name)
        mod.values[name] = ("host", probe)
    pf = w.module(PF)
    pf.values.pop("_apply_transaction_context_analysis", None)
    real = pf.lookup("_apply_transaction_context_analysis")
    pf.values["_apply_transaction_context_analysis"] = ("builtin", "noop")
    w.files = dict(files)
    w.dirs = set()          # a fresh working directory: nothing the tool has not created itself exists
    w.stdout = []
    err = None
    try:
        try:
            w.call(main)
        except PyRaise as e:
            if e.exc != "SystemExit":
                err = f"RAISES {e.exc} {e.where}"
        return err, list(w.stdout)
    finally:
        for name, v in saved.items():
            mod.values[name] = v
        pf.values["_apply_transaction_context_analysis"] = real
        w.stdout = None


def rule_main_print(ctx, rep):
    rule = "T-MAIN(print)"
    rep.rule(rule, "the `print` command evaluated from main() down for every printer (selection by name, registration, run): completes and "
                   "writes its file(s); an unknown printer name is rejected with the tool's own error, not an internal one")
    w = _capture(ctx)
    where = ctx.path(MAIN)
    prs = printer_classes(ctx)
    src = programs()["subroutine called twice"]
    expected_files = {"cfg": "full_cfg.dot", "call-graph": "call-graph.dot", "transaction-context": "transaction-context.dot", "subroutine-cfg": ".dot"}
    for pname in sorted(prs):
        err, out = _run_main(ctx, w, {"subcommand": "print", "contracts": ["c.teal"], "printers_to_run": pname}, {"c.teal": src})
        written = sorted(k for k in w.files if k != "c.teal")
        ok = err is None and (pname not in expected_files or any(k.endswith(expected_files[pname]) for k in written))
        rep.check(ok, rule, f"print {pname}", where, {"error": err, "files": written[:6]}, "completes" + (f" and writes *{expected_files[pname]}" if pname in expected_files else ""),
                  why="a printer selected on the command line does not run to completion", sample={"printer": pname, "files": written[:4]})
    err, out = _run_main(ctx, w, {"subcommand": "print", "contracts": ["c.teal"], "printers_to_run": "cfg,call-graph"}, {"c.teal": src})
    written = sorted(k for k in w.files if k != "c.teal")
    rep.check(err is None and any(k.endswith("full_cfg.dot") for k in written) and any(k.endswith("call-graph.dot") for k in written), rule, "print cfg,call-graph",
              where, {"error": err, "files": written[:6]}, "both printers run")
    err, out = _run_main(ctx, w, {"subcommand": "print", "contracts": ["c.teal"], "printers_to_run": "no-such-printer"}, {"c.teal": src})
    rep.check(err is None or "TealerException" in err, rule, "unknown printer name", where, err, "the tool's own error or a message")


def rule_main_regex(ctx, rep):
    rule = "T-MAIN(regex)"
    rep.rule(rule, "the `regex` command evaluated from main() down: the exported graph colours exactly the covered instructions (covered colour) and "
                   "exactly the instructions of the matches that are not themselves covered (match colour); nothing is exported when there is no match")
    from .regex_rules import PROGRAMS as RX_PROGRAMS, reference as rx_reference
    w = _capture(ctx)
    where = ctx.path("tealer.utils.regex.regex")
    # the two colours, read off update_config by evaluating it on two marker instructions
    from ..absobj import Builder
    bld = Builder(ctx)
    m1, c1 = bld.ins("int 1"), bld.ins("int 2")
    cfg0 = w.new(w.cls(OUT, "CFGDotConfig"))
    w.call(w.func("tealer.utils.regex.regex", "update_config"), cfg0, [[m1]], {c1})
    cmap = w.getattr(cfg0, "custom_background_color")
    rep.require(m1 in cmap and c1 in cmap and cmap[m1] != cmap[c1], f"update_config does not give matches and covered instructions two colours: {list(cmap.values())}")
    match_colour, cov_colour = cmap[m1], cmap[c1]
    pt = w.func(PT, "parse_teal")
    for pname in ("diamond", "two matches", "loop before the match", "match only in unreachable-from-label code", "no match"):
        src = RX_PROGRAMS[pname]
        for label, pat in (("start", "int 4\npop"), ("*", "int 4")):
            err, out = _run_main(ctx, w, {"subcommand": "regex", "contracts": ["c.teal"], "regex_file": "r.txt"}, {"c.teal": src, "r.txt": f"{label} =>\n{pat}\n"})
            dots = {k: v for k, v in w.files.items() if k.endswith(".dot")}
            teal = w.call(pt, src, "c")
            want_m, want_c = rx_reference(ctx, teal, label, pat.splitlines())
            # an instruction of a match from which another match is reachable is also 'covered'; the export shows it as covered
            want_cov_lines = sorted(set(want_c or []))
            want_match_lines = sorted({l for m in (want_m or []) for l in m} - set(want_cov_lines))
            if err is not None:
                rep.violation(rule, f"{pname} / {label} => {pat!r}: runs", where, err, "completes")
                continue
            if not want_m:
                rep.check(not dots, rule, f"{pname} / {label} => {pat!r}: nothing exported without a match", where, sorted(dots), [])
                continue
            rep.check(len(dots) == 1, rule, f"{pname} / {label} => {pat!r}: one graph exported", where, sorted(dots), "one .dot file")
            if len(dots) != 1:
                continue
            dot = list(dots.values())[0]
            got = {match_colour: [], cov_colour: []}
            for m in re.finditer(r'COLOR="(#\w+)">(?:(?!</TD>).)*?(\d+)\. ', dot, re.S):
                if m.group(1) in got:
                    got[m.group(1)].append(int(m.group(2)))
            rep.check(sorted(got[match_colour]) == want_match_lines and sorted(got[cov_colour]) == want_cov_lines, rule, f"{pname} / {label} => {pat!r}: colours", where,
                      {"match": sorted(got[match_colour]), "covered": sorted(got[cov_colour])}, {"match": want_match_lines, "covered": want_cov_lines},
                      why="the exported graph does not mark the matches and the covered instructions", sample={"program": pname, "label": label, "pattern": pat})


def rule_num_ranges(ctx, rep):
    rule = "T-RANGE"
    rep.rule(rule, "the short form in which the transaction-context export writes a set of group sizes / indices (`1 2 3 5..9 11`) denotes exactly "
                   "that set: every subset of 0..9 and a few wider ones, decoded by expanding a..b")
    w = ctx.world
    prs = printer_classes(ctx)
    rep.require("transaction-context" in prs, "transaction-context printer not found")
    pc = prs["transaction-context"]
    c, st = pc.find("_repr_num_list")
    rep.require(st is not None, "transaction-context printer has no _repr_num_list")
    f = w.getattr(pc, "_repr_num_list")
    where = f"{ctx.path(c.mod.name)}:{st.lineno}"

    def decode(s):
        out = []
        for tok in s.split():
            if ".." in tok:
                a, b = tok.split("..")
                out += list(range(int(a), int(b) + 1))
            else:
                out.append(int(tok))
        return out
    sets = [[i for i in range(10) if m >> i & 1] for m in range(1 << 10)]
    sets += [list(range(1, 17)), list(range(0, 16)), [16], [1, 16], [0, 1, 2, 3], [0, 1, 2], [13, 14, 15, 16], [3, 1, 2], [5, 5, 6]]
    bad = 0
    for vals in sets:
        try:
            got = w.call(f, list(vals))
            dec = decode(got)
        except PyRaise as e:
            got, dec = f"RAISES {e.exc}", None
        except ValueError:
            dec = None
        ok = dec == sorted(vals)
        if not ok:
            bad += 1
        if not ok and bad <= 5:
            rep.violation(rule, f"values {vals}", where, got, " ".join(map(str, sorted(vals))) + " (or an equivalent short form)", "the annotation does not denote the computed set")
        elif ok:
            rep.ok(rule, {"values": vals, "text": got} if len(vals) in (0, 4, 10) else None)
    rep.count("value sets rendered", len(sets))


def rule_main_selection(ctx, rep):
    rule = "T-MAIN(selection)"
    rep.rule(rule, "the `detect` command evaluated from main() down for the ways of choosing detectors: by default every detector that applies to "
                   "the contract's mode (stateless contract: stateless and mode-independent detectors; stateful: all but the stateless ones; "
                   "neither: all), an explicit list in the order given, --exclude / --exclude-stateful / --exclude-stateless; an unknown or "
                   "repeated name and contradictory options end with the tool's own message, never with an internal error")
    w = _capture(ctx)
    where = ctx.path(MAIN)
    dets = detector_classes(ctx)
    DT = "tealer.detectors.abstract_detector"
    kinds = {n: w.getattr(c, "TYPE").name for n, c in dets.items()}
    progs = {"STATELESS": "#pragma version 6\narg 0\npop\ntxn Amount\nbz a\nint 1\nreturn\na:\nint 1\nreturn\n",
             "STATEFUL": "#pragma version 6\nint 0\nbyte \"k\"\napp_global_get\npop\ntxn Amount\nbz a\nint 1\nreturn\na:\nint 1\nreturn\n",
             "ANY": "#pragma version 6\ntxn Amount\nbz a\nint 1\nreturn\na:\nint 1\nreturn\n"}

    def checks_of(fields, src):
        err, out = _run_main(ctx, w, {"subcommand": "detect", "contracts": ["c.teal"], "json": "-", **fields}, {"c.teal": src})
        if err is not None:
            return err, None
        text = "\n".join(out)
        try:
            js = json.loads(text[text.find("{"):])
        except ValueError:
            return f"no JSON document: {text[:160]!r}", None
        return js, [r.get("check") for r in (js.get("result") or [])]
    all_names = list(dets)
    for mode, src in progs.items():
        js, got = checks_of({"detectors_to_run": None}, src)
        if mode == "STATELESS":
            want = [n for n in all_names if kinds[n] in ("STATELESS", "STATELESS_AND_STATEFULL")]
        elif mode == "STATEFUL":
            want = [n for n in all_names if kinds[n] != "STATELESS"]
        else:
            want = list(all_names)
        # detectors that report instructions appear only when they found something: compare the path-reporting ones
        paths = [n for n in want if not n.startswith(("constant-gtxn", "self-access", "sender-access"))]
        gotp = [n for n in (got or []) if n in paths or n not in want]
        rep.check(isinstance(js, dict) and js.get("success") is True and sorted(gotp) == sorted(paths), rule, f"default detectors on a contract of mode {mode}", where,
                  js if not isinstance(js, dict) else sorted(got or []), sorted(paths), why="the default run does not use the detectors that apply to the contract's mode",
                  sample={"mode": mode, "detectors": sorted(paths)})
    src = progs["ANY"]
    rows = [("explicit list keeps the order given", {"detectors_to_run": "is-updatable, rekey-to"}, ["is-updatable", "rekey-to"]),
            ("--exclude removes a detector", {"detectors_to_run": "rekey-to,can-close-account,is-deletable", "detectors_to_exclude": "can-close-account"}, ["rekey-to", "is-deletable"]),
            ("--exclude-stateful", {"detectors_to_run": "rekey-to,is-deletable,missing-fee-check", "exclude_stateful": True},
             [n for n in ("rekey-to", "is-deletable", "missing-fee-check") if kinds[n] != "STATEFULL"]),
            ("--exclude-stateless", {"detectors_to_run": "rekey-to,is-deletable,missing-fee-check", "exclude_stateless": True},
             [n for n in ("rekey-to", "is-deletable", "missing-fee-check") if kinds[n] != "STATELESS"])]
    for name, fields, want in rows:
        js, got = checks_of(fields, src)
        rep.check(isinstance(js, dict) and js.get("success") is True and got == want, rule, name, where, js if not isinstance(js, dict) else got, want)
    for name, fields in (("unknown detector name", {"detectors_to_run": "rekey-to,no-such-detector"}), ("detector named twice", {"detectors_to_run": "rekey-to,rekey-to"})):
        js, got = checks_of(fields, src)
        rep.check(isinstance(js, dict) and js.get("success") is False and js.get("error"), rule, name, where,
                  js if not isinstance(js, dict) else {"success": js.get("success"), "error": js.get("error")}, "success=false with the tool's error message",
                  why="a wrong detector selection ends with an internal error or is silently accepted")
    # --json <file>: the report is written to that file (in the contract's export directory, which the tool has to create)
    err, out = _run_main(ctx, w, {"subcommand": "detect", "contracts": ["c.teal"], "json": "report.json", "detectors_to_run": "rekey-to"}, {"c.teal": src})
    written = [k for k in w.files if k.endswith("report.json")]
    okj = False
    if err is None and len(written) == 1:
        try:
            okj = json.loads(w.files[written[0]]).get("success") is True
        except ValueError:
            okj = False
    rep.check(okj, rule, "--json <file> writes the report", where, {"error": err, "files": sorted(k for k in w.files if k != "c.teal")[:4]}, "report.json with success=true",
              why="the JSON report cannot be written to a file")
    # contradictory / incomplete options: the tool prints a message and exits
    bad = {"no subcommand": {"subcommand": None}, "detect without a contract": {"subcommand": "detect", "contracts": None, "group_config": None},
           "detect with a contract and a group configuration": {"subcommand": "detect", "contracts": ["c.teal"], "group_config": "g.yaml"},
           "print with --json": {"subcommand": "print", "contracts": ["c.teal"], "printers_to_run": "cfg", "json": "-"},
           "print without a contract": {"subcommand": "print", "contracts": None, "group_config": None, "printers_to_run": "cfg"}}
    for name, fields in bad.items():
        err, out = _run_main(ctx, w, fields, {"c.teal": src})
        text = "\n".join(out)
        rep.check(err is None and "CommandLineError" in text, rule, f"rejected: {name}", ctx.path("tealer.utils.command_line.common"), err or text[:120], "CommandLineError message and exit")


def rule_main_group(ctx, rep):
    rule = "T-MAIN(group)"
    rep.rule(rule, "the `detect --group-config` command evaluated from main() down (the YAML reader replaced by the document it would return): the "
                   "configured group is built, the chosen detectors run in group mode and the text names, per detector, exactly the transactions "
                   "that nothing validates, with the contract function the detector is about")
    w = _capture(ctx)
    where = ctx.path(MAIN)
    mod = w.module(MAIN)
    GC = "tealer.utils.command_line.group_config"
    from_yaml = w.getattr(w.cls(GC, "GroupConfig"), "from_yaml")

    def contract(name, path, ctype):
        return {"name": name, "file_path": path, "type": ctype, "version": 6, "subroutines": [], "functions": [{"name": "main", "dispatch_path": ["B0"]}]}
    doc = {"name": "g", "contracts": [contract("A", "lsig_a.teal", "LogicSig"), contract("B", "lsig_b.teal", "LogicSig"), contract("APP", "app.teal", "ApprovalProgram")],
           "groups": [{"operation": "swap", "transactions": [
               {"txn_id": "T0", "txn_type": "pay", "logic_sig": {"contract": "A", "function": "main"}, "absolute_index": 0},
               {"txn_id": "T1", "txn_type": "appl", "application": {"contract": "APP", "function": "main"}, "logic_sig": {"contract": "B", "function": "main"}},
               {"txn_id": "T2", "txn_type": "axfer"}]}]}
    files = {"lsig_a.teal": "#pragma version 6\narg 0\npop\nint 1\nreturn\n", "lsig_b.teal": "#pragma version 6\narg 1\npop\nint 1\nreturn\n",
             "app.teal": "#pragma version 6\nint 0\nbyte \"k\"\napp_global_get\npop\nint 1\nreturn\n"}
    saved = mod.lookup("read_config_from_file")
    mod.values["read_config_from_file"] = ("host", lambda *a, **k: w.call(from_yaml, doc))
    try:
        err, out = _run_main(ctx, w, {"subcommand": "detect", "contracts": None, "group_config": "g.yaml", "detectors_to_run": "rekey-to,is-updatable"}, files)
    finally:
        mod.values["read_config_from_file"] = saved
    text = "\n".join(out)
    rep.check(err is None, rule, "detect --group-config runs to its exit", where, err, "completes")
    if err is not None:
        return
    named = [ln.strip() for ln in text.splitlines() if ln.strip().startswith(("Transaction ", "Contract: ", "Function: "))]
    # with every context at its default nothing is validated: the stateless detector names T0 and T1 with their logic signatures, the stateful
    # one T1 with its application; T2 runs no configured contract
    want = ["Transaction T0", "Contract: A", "Function: main", "Transaction T1", "Contract: B", "Function: main", "Transaction T1", "Contract: APP", "Function: main"]
    got_l, want_l = sorted(x.lower() for x in named), sorted(x.lower() for x in want)
    rep.check(got_l == want_l and text.count("operation swap") == 2, rule, "group verdicts as text", where, named, want,
              why="the text printed for a group configuration does not name the vulnerable transactions of each detector", sample={"lines": want})


HIST_CONTRACTS = {
    "x": "#pragma version 6\nint 0\ngtxns Amount\npop\ntxn GroupIndex\ngtxns Fee\npop\ntxna Accounts 0\npop\ntxn Amount\nbz a\nint 1\nreturn\na:\nint 1\nreturn\n",
    "y": "#pragma version 6\narg 0\npop\nint 1\ngtxns Fee\npop\nint 2\ngtxns Amount\npop\ntxn GroupIndex\ngtxnsa ApplicationArgs 0\npop\nint 1\nreturn\n",
}


def rule_history_contracts(ctx, rep):
    rule = "T-HISTORY(contracts)"
    rep.rule(rule, "every detector (path-reporting and instruction-reporting) run on a Tealer object holding two contracts reports for each "
                   "contract exactly what it reports when that contract is loaded alone, whichever contract is listed first (evaluated from a "
                   "group configuration, per-contract output mode and group output mode)")
    w = _capture(ctx)
    GC = "tealer.utils.command_line.group_config"
    from_yaml = w.getattr(w.cls(GC, "GroupConfig"), "from_yaml")
    init = w.func(COMMON, "init_tealer_from_config")
    where = ctx.path("tealer.tealer")
    pf = w.module(PF)
    pf.values["_apply_transaction_context_analysis"] = ("builtin", "noop")
    dets = detector_classes(ctx)

    def run(names, output_group):
        w.files = {f"{n}.teal": HIST_CONTRACTS[n] for n in names}
        w.dirs = set()
        doc = {"name": "g",
               "contracts": [{"name": n, "file_path": f"{n}.teal", "type": "LogicSig", "version": 6, "subroutines": [], "functions": [{"name": "main", "dispatch_path": ["B0"]}]} for n in names],
               "groups": [{"operation": f"op_{n}", "transactions": [{"txn_id": f"t_{n}", "txn_type": "pay", "logic_sig": {"contract": n, "function": "main"}}]} for n in names]}
        tl = w.call(init, w.call(from_yaml, doc))
        Interp(tl.cls.mod).assign_attr(tl, "output_group", output_group)
        for dn, dc in sorted(dets.items()):
            w.call(w.method(tl, "register_detector"), dc)
        out = {}
        for res in w.call(w.method(tl, "run_detectors")):
            for o in (res if isinstance(res, list) else [res]):
                js = w.call(w.method(o, "to_json"))
                owner = o.fields.get("_teal")
                who = str(w.getattr(owner, "contract_name")) if owner is not None else "operation " + str(js.get("operation"))
                out.setdefault((js.get("check"), who), []).append(json.dumps(js, sort_keys=True, default=str))
        return out
    for og in (False, True):
        try:
            alone = {n: run([n], og) for n in ("x", "y")}
            both = {"x,y": run(["x", "y"], og), "y,x": run(["y", "x"], og)}
        except PyRaise as e:
            rep.violation(rule, f"runs (output_group={og})", where, f"RAISES {e.exc} {e.where}", "results")
            continue
        rep.check(all(len(v) >= 3 for v in alone.values()), rule, f"contracts alone produce results (output_group={og})", where, {k: len(v) for k, v in alone.items()}, ">= 3 each")
        for order, res in both.items():
            want = {}
            for n in ("x", "y"):
                want.update(alone[n])
            diff = sorted(str(k) for k in set(want) | set(res) if want.get(k) != res.get(k))
            rep.check(not diff, rule, f"contracts {order} loaded together (output_group={og})", where,
                      {k: [len(res.get(eval(k), [])), len(want.get(eval(k), []))] for k in diff[:4]}, "each contract's results as when loaded alone",
                      why="what is reported for a contract depends on the other contracts analysed with it",
                      sample={"order": order, "results": len(want)})
