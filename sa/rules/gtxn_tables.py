"""C10: index classification, key matching, key naming, range agreement, merge of own-field information."""
import itertools

from ..absint import Obj, Interp, PyRaise, Unsupported, EnumMember
from ..absobj import Builder, Graph
from .cmptables import _find_analyses, _call, _analysis_where, _den, _addr_consts, TC
from .generic_tables import _me, _gen_where

GH = TC + ".utils.group_helpers"
KH = TC + ".utils.key_helpers"


def _fn_where(ctx, mod, name):
    return f"{ctx.path(mod)}:{ctx.world.func(mod, name).node.lineno}"


def _index_view(ctx, ti):
    w = ctx.world
    t = w.getattr(ti, "index_type")
    name = t.name if isinstance(t, EnumMember) else str(t)
    return (name, w.getattr(ti, "value")) if name in ("Absolute", "Relative") else (name, None)


def rule_index_classification(ctx, rep):
    rule = "T-INDEX"
    rep.rule(rule, "which transaction a field read denotes: txn -> Self; gtxn i -> Absolute(i); gtxns on GroupIndex -> Self, on constant n -> "
                   "Absolute(n), on GroupIndex - n -> Relative(-n), on GroupIndex + n / n + GroupIndex -> Relative(+n); anything else Unknown")
    w = ctx.world
    b = Builder(ctx)
    f = w.func(GH, "get_index_and_field")
    where = _fn_where(ctx, GH, "get_index_and_field")
    cases = {
        "txn RekeyTo": (["txn RekeyTo"], ("Self", None)),
        "gtxn 0 RekeyTo": (["gtxn 0 RekeyTo"], ("Absolute", 0)),
        "gtxn 7 RekeyTo": (["gtxn 7 RekeyTo"], ("Absolute", 7)),
        "gtxn 15 RekeyTo": (["gtxn 15 RekeyTo"], ("Absolute", 15)),
        "txn GroupIndex; gtxns": (["txn GroupIndex", "gtxns RekeyTo"], ("Self", None)),
        "int 3; gtxns": (["int 3", "gtxns RekeyTo"], ("Absolute", 3)),
        "pushint 3; gtxns": (["pushint 3", "gtxns RekeyTo"], ("Absolute", 3)),
        "int pay; gtxns (named constant)": (["int pay", "gtxns RekeyTo"], ("Unknown", None)),
        "GroupIndex - 1": (["txn GroupIndex", "int 1", "-", "gtxns RekeyTo"], ("Relative", -1)),
        "GroupIndex - 3": (["txn GroupIndex", "int 3", "-", "gtxns RekeyTo"], ("Relative", -3)),
        "1 - GroupIndex": (["int 1", "txn GroupIndex", "-", "gtxns RekeyTo"], ("Unknown", None)),
        "GroupIndex + 1": (["txn GroupIndex", "int 1", "+", "gtxns RekeyTo"], ("Relative", 1)),
        "2 + GroupIndex": (["int 2", "txn GroupIndex", "+", "gtxns RekeyTo"], ("Relative", 2)),
        "GroupIndex + load": (["txn GroupIndex", "load 0", "+", "gtxns RekeyTo"], ("Unknown", None)),
        "GroupIndex - load": (["txn GroupIndex", "load 0", "-", "gtxns RekeyTo"], ("Unknown", None)),
        "GroupIndex * 2": (["txn GroupIndex", "int 2", "*", "gtxns RekeyTo"], ("Unknown", None)),
        "GroupSize - 1": (["global GroupSize", "int 1", "-", "gtxns RekeyTo"], ("Unknown", None)),
        "gtxn 0 GroupIndex + 1": (["gtxn 0 GroupIndex", "int 1", "+", "gtxns RekeyTo"], ("Unknown", None)),
        "load; gtxns": (["load 0", "gtxns RekeyTo"], ("Unknown", None)),
        "unknown; gtxns": (["gtxns RekeyTo"], ("Unknown", None)),
        "unknown + 1": (["int 1", "+", "gtxns RekeyTo"], ("Unknown", None)),
        "unknown - 1": (["int 1", "-", "gtxns RekeyTo"], ("Unknown", None)),
    }
    for name, (seq, want) in cases.items():
        v, _, _ = b.operand(seq, consumer="pop")
        try:
            r = w.call(f, v)
        except PyRaise as e:
            rep.violation(rule, name, where, f"RAISES {e.exc}", want)
            continue
        ok = isinstance(r, tuple) and len(r) == 3 and r[0] is True and isinstance(r[1], Obj)
        got = _index_view(ctx, r[1]) if ok else r
        fld = r[2].cls.name if ok and isinstance(r[2], Obj) else None
        rep.check(ok and got == want and fld == "RekeyTo", rule, name, where, {"index": got, "field": fld}, {"index": want, "field": "RekeyTo"},
                  why="a field read is attributed to the wrong transaction of the group", sample={"read": name, "index": want})
    for name, seq in {"txna (array read)": ["txna ApplicationArgs 0"], "int": ["int 1"], "global": ["global GroupSize"], "itxn": ["itxn RekeyTo"],
                      # reads of the inner transactions an application has submitted say nothing about the members of the outer group
                      "gitxn (inner group)": ["gitxn 0 RekeyTo"], "gitxn 1 (inner group)": ["gitxn 1 RekeyTo"], "itxna": ["itxna Accounts 0"],
                      "gitxna (inner group)": ["gitxna 0 Accounts 0"]}.items():
        v, _, _ = b.operand(seq, consumer="pop")
        r = w.call(f, v)
        rep.check(isinstance(r, tuple) and r[0] is False, rule, f"not a scalar field read: {name}", where, r, (False, None, None))


def rule_key_matching(ctx, rep):
    rule = "T-KEYMATCH"
    rep.rule(rule, "is_value_matches_key: plain keys accept Self reads; at-index and absolute keys accept Absolute reads with equal index; "
                   "relative keys accept Relative reads with equal offset; Unknown never matches; the field must match")
    w = ctx.world
    b = Builder(ctx)
    f = w.func(KH, "is_value_matches_key")
    where = _fn_where(ctx, KH, "is_value_matches_key")
    at, ab, rl = w.func(KH, "get_gtxn_at_index_key"), w.func(KH, "get_absolute_index_key"), w.func(KH, "get_relative_index_key")
    reads = {
        ("Self", None): ["txn RekeyTo"], ("Self2", None): ["txn GroupIndex", "gtxns RekeyTo"],
        ("Absolute", 2): ["gtxn 2 RekeyTo"], ("Absolute", 3): ["int 3", "gtxns RekeyTo"], ("Absolute", 12): ["gtxn 12 RekeyTo"],
        ("Relative", -1): ["txn GroupIndex", "int 1", "-", "gtxns RekeyTo"], ("Relative", 1): ["txn GroupIndex", "int 1", "+", "gtxns RekeyTo"],
        ("Relative", -11): ["txn GroupIndex", "int 11", "-", "gtxns RekeyTo"], ("Relative", 2): ["int 2", "txn GroupIndex", "+", "gtxns RekeyTo"],
        ("Unknown", None): ["load 0", "gtxns RekeyTo"],
        ("OtherField", None): ["txn Sender"], ("OtherFieldAbs", 2): ["gtxn 2 Sender"],
    }
    keys = {("plain", None): "RekeyTo"}
    for i in (0, 2, 3, 12, 15):
        keys[("at", i)] = w.call(at, i, "RekeyTo")
        keys[("abs", i)] = w.call(ab, i, "RekeyTo")
    for o in (-15, -11, -1, 1, 2, 15):
        keys[("rel", o)] = w.call(rl, o, "RekeyTo")
    n = 0
    for (rk, rv), seq in reads.items():
        v, _, _ = b.operand(seq, consumer="pop")
        for (kk, kv), key in keys.items():
            want = ((kk == "plain" and rk in ("Self", "Self2")) or (kk in ("at", "abs") and rk == "Absolute" and rv == kv)
                    or (kk == "rel" and rk == "Relative" and rv == kv))
            try:
                got = w.call(f, key, v)
            except PyRaise as e:
                got = f"RAISES {e.exc}"
            n += 1
            rep.check(got is want, rule, f"read {rk}{'' if rv is None else rv} vs key {kk}{'' if kv is None else kv}", where, got, want,
                      why="information about one group member would be credited to another",
                      sample={"read": " ; ".join(seq), "key": key, "matches": want})
    rep.count("key matching cells", n)
    # explicit key_field (used by the transaction-type analysis)
    TF = "tealer.teal.instructions.transaction_field"
    for fld, line, want in (("TypeEnum", "txn TypeEnum", True), ("TypeEnum", "txn OnCompletion", False), ("OnCompletion", "gtxn 2 OnCompletion", False)):
        v, _, _ = b.operand([line], consumer="pop")
        got = w.call(f, "TransactionType", v, w.cls(TF, fld))
        rep.check(got is want, rule, f"key_field {fld} vs {line}", where, got, want)
    v, _, _ = b.operand(["gtxn 2 OnCompletion"], consumer="pop")
    got = w.call(f, w.call(ab, 2, "TransactionType"), v, w.cls(TF, "OnCompletion"))
    rep.check(got is True, rule, "key_field with absolute key", where, got, True)


def rule_key_names(ctx, rep):
    rule = "T-KEYNAME"
    rep.rule(rule, "writer/reader agreement of key names: each constructor's key is recognised by its own predicate only, and "
                   "get_ind_base_for_gtxn_type_keys recovers (index, base) for every index/offset in range incl. negative offsets")
    w = ctx.world
    n = ctx.spec("avm_fields.json")["constants"]["MAX_GROUP_SIZE"]
    cons = {"at": w.func(KH, "get_gtxn_at_index_key"), "abs": w.func(KH, "get_absolute_index_key"), "rel": w.func(KH, "get_relative_index_key")}
    preds = {"at": w.func(KH, "is_gtxn_at_index_key"), "abs": w.func(KH, "is_absolute_index_key"), "rel": w.func(KH, "is_relative_index_key")}
    dec = w.func(KH, "get_ind_base_for_gtxn_type_keys")
    where = ctx.path(KH)
    an = _find_analyses(ctx)
    bases = set()
    for cls in an.values():
        bases |= set(w.getattr(Obj(cls), "BASE_KEYS"))
    rep.require(len(bases) >= 7, f"only {len(bases)} base keys found")
    for base in sorted(bases):
        rep.check("_" not in base, rule, f"base key {base} has no underscore", where, base, "no '_' (the decoder splits on it)")
        for fam, fn in cons.items():
            rng = range(n) if fam != "rel" else [o for o in range(-(n - 1), n) if o]
            for i in rng:
                key = w.call(fn, i, base)
                flags = {p: w.call(pf, key) for p, pf in preds.items()}
                rep.check(flags == {p: p == fam for p in preds}, rule, f"{fam} key recognised only as {fam}", where, {"key": key, **flags}, fam)
                try:
                    d = w.call(dec, key)
                except PyRaise as e:
                    d = f"RAISES {e.exc}"
                rep.check(d == (i, base), rule, f"{fam} key decodes", where, {"key": key, "decoded": d}, (i, base),
                          sample={"key": key, "decoded": [i, base]})
        # plain keys are none of the families
        flags = {p: w.call(pf, base) for p, pf in preds.items()}
        rep.check(not any(flags.values()), rule, f"plain key {base} is no gtxn key", where, flags, "all False")
    # every base key is a transaction field name known to the field table (reader: TX_FIELD_TXT_TO_OBJECT[...])
    tab = w.module("tealer.teal.instructions.parse_transaction_field").lookup("TX_FIELD_TXT_TO_OBJECT")
    for base in sorted(bases):
        if base in ("TransactionType", "GroupSize", "GroupIndex"):
            continue    # analyses that pass key_field / do not call is_value_matches_key without it
        rep.check(base in tab, rule, f"base key {base} names a transaction field", where, base in tab, True)


def rule_key_universe(ctx, rep):
    """run_analysis builds exactly the key space that _store_results reads and BlockTransactionContext provides"""
    rule = "T-KEYRANGE"
    rep.rule(rule, "index range 0..15 and offset range -15..15 \\ {0} agree between run_analysis (keys computed), _store_results (keys read) "
                   "and BlockTransactionContext (contexts provided)")
    w = ctx.world
    n = ctx.spec("avm_fields.json")["constants"]["MAX_GROUP_SIZE"]
    BTC = w.cls("tealer.teal.context.block_transaction_context", "BlockTransactionContext")
    c = w.new(BTC)
    where = ctx.path("tealer.teal.context.block_transaction_context")
    for i in range(n):
        for m in ("gtxn_context", "absolute_context"):
            r = _call(ctx, c, m, i)
            rep.check(isinstance(r, Obj), rule, f"{m}({i}) exists", where, r, "a context")
    for m in ("gtxn_context", "absolute_context"):
        r = _call(ctx, c, m, n)
        rep.check(isinstance(r, tuple) and r[0] == "RAISES", rule, f"{m}({n}) rejected", where, r, "exception")
    for off in range(-(n - 1), n):
        r = _call(ctx, c, "relative_context", off)
        rep.check((isinstance(r, Obj)) == (off != 0), rule, f"relative_context({off})", where, r, "a context iff offset != 0")
    for off in (-n, n):
        r = _call(ctx, c, "relative_context", off)
        rep.check(isinstance(r, tuple) and r[0] == "RAISES", rule, f"relative_context({off}) rejected", where, r, "exception")
    # tail contexts (the per-index ones) describe "no execution" until filled
    t = _call(ctx, c, "gtxn_context", 0)
    rep.check(w.getattr(t, "group_indices") == [] and w.getattr(t, "group_sizes") == [] and w.getattr(t, "is_gtxn_context") is True, rule,
              "tail context defaults", where, {"group_indices": w.getattr(t, "group_indices"), "is_gtxn_context": w.getattr(t, "is_gtxn_context")}, "empty, gtxn")
    rep.check(w.getattr(c, "is_gtxn_context") is False, rule, "own context is not a gtxn context", where, w.getattr(c, "is_gtxn_context"), False)


def rule_gtxn_merge(ctx, rep):
    rule = "T-GTXNMERGE"
    rep.rule(rule, "_update_gtxn_constraints: only at-index keys are merged with the own key (by intersection) for indices in group_indices and "
                   "set to the empty element for the others; absolute and relative keys are untouched")
    w = ctx.world
    where = _gen_where(ctx, "_update_gtxn_constraints")
    an = _find_analyses(ctx)
    cls = an["addr_fields"]
    ANY, NO = _addr_consts(ctx, cls)
    g = Graph(ctx)
    bb = g.block("X", ["int 1", "return"])
    g.subroutine("main", "X", ["X"])
    fn = g.function("main")
    me = w.new(cls, fn)
    tctx = w.call(w.method(fn, "transaction_context"), bb)
    Interp(cls.mod).assign_attr(tctx, "group_indices", [1, 2])
    at, ab, rl = w.func(KH, "get_gtxn_at_index_key"), w.func(KH, "get_absolute_index_key"), w.func(KH, "get_relative_index_key")
    bc = w.getattr(me, "_block_contexts")
    n = ctx.spec("avm_fields.json")["constants"]["MAX_GROUP_SIZE"]
    base = "RekeyTo"
    bc[base][bb] = {"a", "b"}
    for i in range(n):
        bc[w.call(at, i, base)][bb] = {"b", "c"} if i != 2 else {ANY}
        bc[w.call(ab, i, base)][bb] = {"abs"}
    for o in range(-(n - 1), n):
        if o:
            bc[w.call(rl, o, base)][bb] = {"rel"}
    r = _call(ctx, me, "_update_gtxn_constraints", [base], bb)
    if isinstance(r, tuple) and r and r[0] == "RAISES":
        rep.violation(rule, "runs", where, r, "no exception")
        return
    for i in range(n):
        got = _den(bc[w.call(at, i, base)][bb], ANY, NO)
        want = frozenset({"b"}) if i == 1 else frozenset({"a", "b"}) if i == 2 else frozenset()
        rep.check(got == want, rule, f"at-index {i} {'possible' if i in (1, 2) else 'impossible'}", where, sorted(got) if got != "TOP" else got, sorted(want))
        rep.check(bc[w.call(ab, i, base)][bb] == {"abs"}, rule, f"absolute {i} untouched", where, bc[w.call(ab, i, base)][bb], ["abs"])
    for o in range(-(n - 1), n):
        if o:
            rep.check(bc[w.call(rl, o, base)][bb] == {"rel"}, rule, "relative untouched", where, bc[w.call(rl, o, base)][bb], ["rel"])
    rep.check(bc[base][bb] == {"a", "b"}, rule, "own key untouched", where, bc[base][bb], ["a", "b"])


def rule_gtxn_attribution(ctx, rep):
    """a check through gtxn i / gtxns constrains exactly the keys of that transaction (address analysis as vehicle)"""
    rule = "T-ATTR"
    rep.rule(rule, "a comparison read through gtxn i / int i; gtxns / GroupIndex±k; gtxns constrains the at-index and absolute keys of index i "
                   "resp. the relative key of offset ±k, and no other key")
    w = ctx.world
    an = _find_analyses(ctx)
    cls = an["addr_fields"]
    me = Obj(cls)
    ANY, NO = _addr_consts(ctx, cls)
    where = _analysis_where(ctx, cls.mod.name, cls.name)
    b = Builder(ctx)
    at, ab, rl = w.func(KH, "get_gtxn_at_index_key"), w.func(KH, "get_absolute_index_key"), w.func(KH, "get_relative_index_key")
    n = ctx.spec("avm_fields.json")["constants"]["MAX_GROUP_SIZE"]
    allkeys = {"plain": "RekeyTo"}
    for i in range(n):
        allkeys[("at", i)] = w.call(at, i, "RekeyTo")
        allkeys[("abs", i)] = w.call(ab, i, "RekeyTo")
    for o in range(-(n - 1), n):
        if o:
            allkeys[("rel", o)] = w.call(rl, o, "RekeyTo")
    reads = {
        "txn": (["txn RekeyTo"], {"plain"}),
        "gtxn 2": (["gtxn 2 RekeyTo"], {("at", 2), ("abs", 2)}),
        "int 5; gtxns": (["int 5", "gtxns RekeyTo"], {("at", 5), ("abs", 5)}),
        "GroupIndex; gtxns": (["txn GroupIndex", "gtxns RekeyTo"], {"plain"}),
        "GroupIndex - 1": (["txn GroupIndex", "int 1", "-", "gtxns RekeyTo"], {("rel", -1)}),
        "GroupIndex + 2": (["txn GroupIndex", "int 2", "+", "gtxns RekeyTo"], {("rel", 2)}),
        "1 + GroupIndex": (["int 1", "txn GroupIndex", "+", "gtxns RekeyTo"], {("rel", 1)}),
        "load; gtxns": (["load 1", "gtxns RekeyTo"], set()),
    }
    for name, (seq, constrained) in reads.items():
        v, _, _ = b.operand(seq + ["global ZeroAddress", "=="])
        bad = []
        for k, key in allkeys.items():
            got = _call(ctx, me, "_get_asserted_single", key, v)
            is_c = isinstance(got, tuple) and len(got) == 2 and _den(got[0], ANY, NO) == frozenset()
            is_free = isinstance(got, tuple) and len(got) == 2 and _den(got[0], ANY, NO) == "TOP" and _den(got[1], ANY, NO) == "TOP"
            if (k in constrained and not is_c) or (k not in constrained and not is_free):
                bad.append((str(k), repr(got)))
        rep.check(not bad, rule, f"{name} == ZeroAddress", where, bad[:6], f"constrains exactly {sorted(map(str, constrained))}",
                  why="a check on one group member is credited to another (or lost)", sample={"read": name, "constrains": sorted(map(str, constrained))})


GTXN_PROGRAMS = {
    "own checks at a fixed own index say nothing about the other members": (
        "#pragma version 6\ntxn GroupIndex\nint 0\n==\nassert\ntxn RekeyTo\nglobal ZeroAddress\n==\nassert\nint 1\nreturn\n"),
    "own checks without an index check": "#pragma version 6\ntxn RekeyTo\nglobal ZeroAddress\n==\nassert\nint 1\nreturn\n",
    "check of the member at absolute index 1 only": "#pragma version 6\ngtxn 1 RekeyTo\nglobal ZeroAddress\n==\nassert\nint 1\nreturn\n",
    "check of the next member only": "#pragma version 6\ntxn GroupIndex\nint 1\n+\ngtxns RekeyTo\nglobal ZeroAddress\n==\nassert\nint 1\nreturn\n",
    "own index 1 or a checked own field, on two branches": (
        "#pragma version 6\ntxn GroupIndex\nint 1\n==\nbnz at1\ntxn RekeyTo\nglobal ZeroAddress\n==\nassert\nint 1\nreturn\nat1:\ngtxn 2 RekeyTo\nglobal ZeroAddress\n==\nassert\nint 1\nreturn\n"),
    "check of member 1 in a subroutine called twice": (
        "#pragma version 6\ncallsub c\ntxn Amount\nbz done\ncallsub c\ndone:\nint 1\nreturn\nc:\ngtxn 1 RekeyTo\nglobal ZeroAddress\n==\nassert\nretsub\n"),
}


def rule_gtxn_programs(ctx, rep):
    rule = "T-FIXPOINT(gtxn programs)"
    rep.rule(rule, "the address analysis with all its gtxn keys (absolute index, relative offset, 'this transaction at index i') evaluated on "
                   "hand-written programs against the reference semantics: what is recorded about Gtxn[1], Gtxn[2], Gtxn[GroupIndex+-1] and about "
                   "the own transaction at index 1 admits an arbitrary address whenever an accepting execution through the block carries one there "
                   "- checks the contract makes on its own transaction, or on another member, are not credited to third members")
    from .. import thorough
    env = thorough.gtxn_env(ctx)
    where = ctx.path("tealer.analyses.dataflow.transaction_context.generic")
    n = 0
    for name, src in GTXN_PROGRAMS.items():
        try:
            bad = thorough.gtxn_compare(ctx, env, name, src)
        except PyRaise as e:
            rep.violation(rule, f"{name}: runs", where, f"RAISES {e.exc} {e.where}", "completes")
            continue
        except (RuntimeError, ValueError) as e:
            raise Unsupported(f"{rule}: {name}: {e}")
        n += 1
        if bad:
            rep.violation(rule, name, where, {"program": src, "disagreements": [f"{what}: got {got!r}, reference {want!r}"[:170] for _, _, what, got, want in bad[:6]]},
                          "no disagreement with the reference semantics", "information about another group member excludes a value that an accepted group carries")
        else:
            rep.ok(rule, {"program": name})
    rep.require(n >= 5, f"only {n} programs")
