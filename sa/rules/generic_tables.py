"""T-COMB, T-BLOCK, T-EDGE, T-EQN: the generic part of the transaction-context analysis
(DataflowTransactionContext in generic.py) as decision tables over abstract conditions and abstract
CFG neighbourhoods.  The integer analysis is the vehicle (its values are plain sets, so every cell
of a result says which of the marker sets T, F, U, {} it is); the combinators are additionally
evaluated with the fee and address lattices."""
import itertools

from ..absint import Obj, Interp, PyRaise, Unsupported
from ..absobj import Builder, Graph
from .cmptables import _find_analyses, _call, _analysis_where, _den, _addr_consts, _fee_view

GEN = "tealer.analyses.dataflow.transaction_context.generic"
U16 = set(range(1, 17))
A = ["global GroupSize", "int 3", "=="]          # T = {3}
B = ["global GroupSize", "int 5", "<"]           # T = {1..4}
TA, TB = {3}, {1, 2, 3, 4}
FA, FB = U16 - TA, U16 - TB


def _me(ctx, modname="int_fields", fn=None):
    cls = _find_analyses(ctx)[modname]
    if fn is None:
        g = Graph(ctx)
        g.block("E", ["int 1", "return"])
        g.subroutine("main", "E", ["E"])
        fn = g.function("main")
    return ctx.world.new(cls, fn)


def _gen_where(ctx, meth):
    cls = ctx.world.cls(GEN, "DataflowTransactionContext")
    c, st = cls.find(meth)
    return f"{ctx.path(GEN)}:{st.lineno}" if st is not None else ctx.path(GEN)


def rule_comb(ctx, rep):
    rule = "T-COMB"
    rep.rule(rule, "&&, ||, ! over condition values: And -> (true ∩, false ∪), Or -> (true ∪, false ∩), Not -> swap; an unknown operand widens "
                   "only the false side of && / the true side of ||; ! of unknown gives (U,U)")
    me = _me(ctx)
    b = Builder(ctx)
    where = _gen_where(ctx, "_get_asserted")
    U = U16
    cases = {
        "A": (A, (TA, FA)),
        "!A": (A + ["!"], (FA, TA)),
        "!!A": (A + ["!", "!"], (TA, FA)),
        "A && B": (A + B + ["&&"], (TA & TB, FA | FB)),
        "A || B": (A + B + ["||"], (TA | TB, FA & FB)),
        "!(A && B)": (A + B + ["&&", "!"], (FA | FB, TA & TB)),
        "!(A || B)": (A + B + ["||", "!"], (FA & FB, TA | TB)),
        "(A && B) && A": (A + B + ["&&"] + A + ["&&"], (TA & TB, FA | FB)),
        "A && (A || B)": (A + A + B + ["||", "&&"], (TA & (TA | TB), FA | (FA & FB))),
        "(A || B) || A": (A + B + ["||"] + A + ["||"], (TA | TB, FA & FB)),
        "!A && B": (A + ["!"] + B + ["&&"], (FA & TB, TA | FB)),
        "A && !B": (A + B + ["!", "&&"], (TA & FB, FA | TB)),
        "!A || !B": (A + ["!"] + B + ["!", "||"], (FA | FB, TA & TB)),
        "unknown && A": (A + ["&&"], (TA, U)),
        "unknown || A": (A + ["||"], (U, FA)),
        "!(unknown && A)": (A + ["&&", "!"], (U, TA)),
        "!(unknown || A)": (A + ["||", "!"], (FA, U)),
        "opaque && A": (["load 0"] + A + ["&&"], (TA, U)),
        "A && opaque": (A + ["load 0", "&&"], (TA, U)),
        "opaque || A": (["load 0"] + A + ["||"], (U, FA)),
        "(unknown && A) && B": (A + ["&&"] + B + ["&&"], (TA & TB, U)),
        "(unknown || A) || B": (A + ["||"] + B + ["||"], (U, FA & FB)),
        "(unknown && A) || B": (A + ["&&"] + B + ["||"], (TA | TB, U & FB)),
        "(unknown || A) && B": (A + ["||"] + B + ["&&"], (U & TB, FA | FB)),
        "!unknown": (["!"], None),
        "!opaque": (["load 0", "!"], (U, U)),
        "A + B (not a connective)": (A + B + ["+"], (U, U)),
    }
    for name, (seq, want) in cases.items():
        v, _, _ = b.operand(seq)
        if want is None:
            # `!` applied to a value from before the block: the operand of assert is Not(unknown)
            want = (U, U)
        got = _call(ctx, me, "_get_asserted", "GroupSize", v)
        ok = isinstance(got, tuple) and len(got) == 2 and got[0] == want[0] and got[1] == want[1]
        rep.check(ok, rule, name, where, (sorted(got[0]), sorted(got[1])) if ok or (isinstance(got, tuple) and isinstance(got[0], set)) else got,
                  (sorted(want[0]), sorted(want[1])), why="Boolean structure of the condition is not reflected exactly in the (true, false) value sets",
                  sample={"cond": name, "true": sorted(want[0]), "false": sorted(want[1])})
    # the same laws over the fee chain and the address lattice (operands combine through the analysis' own union/intersection)
    an = _find_analyses(ctx)
    fee = ctx.world.new(an["fee_field"], ctx.world.getattr(me, "_function"))
    FA_, FB_ = ["txn Fee", "int 1000", "<="], ["txn Fee", "int 500", "<="]
    MAXU = ctx.spec("avm_fields.json")["constants"]["MAX_UINT64"]
    fee_cases = {"A && B": (FA_ + FB_ + ["&&"], (500, MAXU)), "A || B": (FA_ + FB_ + ["||"], (1000, MAXU)), "!A": (FA_ + ["!"], (MAXU, 1000)),
                 "!(A || B)": (FA_ + FB_ + ["||", "!"], (MAXU, 1000)), "unknown && A": (FA_ + ["&&"], (1000, MAXU)),
                 "unknown || A": (FA_ + ["||"], (MAXU, MAXU)), "!(A && B)": (FA_ + FB_ + ["&&", "!"], (MAXU, 500))}
    for name, (seq, want) in fee_cases.items():
        v, _, _ = b.operand(seq)
        got = _call(ctx, fee, "_get_asserted", "Fee", v)
        view = tuple(_fee_view(ctx, x) for x in got) if isinstance(got, tuple) and len(got) == 2 and isinstance(got[0], Obj) else got
        rep.check(view == ((False, want[0]), (False, want[1])), rule, f"fee: {name}", where, view, want)
    addr = ctx.world.new(an["addr_fields"], ctx.world.getattr(me, "_function"))
    ANY, NO = _addr_consts(ctx, an["addr_fields"])
    L1 = "7777777777777777777777777777777777777777777777777777Y5HFKQ"
    RA, RB = ["txn RekeyTo", "global ZeroAddress", "=="], ["txn RekeyTo", f"addr {L1}", "=="]
    fz, fl = frozenset(), frozenset({L1})
    addr_cases = {"A || B": (RA + RB + ["||"], (fl, "TOP")), "A && B": (RA + RB + ["&&"], (fz, "TOP")), "!A": (RA + ["!"], ("TOP", fz)),
                  "!(A || B)": (RA + RB + ["||", "!"], ("TOP", fl)), "unknown || A": (RA + ["||"], ("TOP", "TOP")),
                  "unknown && A": (RA + ["&&"], (fz, "TOP")), "A != zero": (["txn RekeyTo", "global ZeroAddress", "!=", "!"], (fz, "TOP"))}
    for name, (seq, want) in addr_cases.items():
        v, _, _ = b.operand(seq)
        got = _call(ctx, addr, "_get_asserted", "RekeyTo", v)
        view = (_den(got[0], ANY, NO), _den(got[1], ANY, NO)) if isinstance(got, tuple) and len(got) == 2 else got
        rep.check(view == want, rule, f"addr: {name}", where, view, want)


def _block_ctx(ctx, me, key, bb):
    return ctx.world.getattr(me, "_block_contexts")[key][bb]


def rule_block(ctx, rep):
    rule = "T-BLOCK"
    rep.rule(rule, "block constraints: assert x -> ∩ true(x); return x -> ∩ true(x), `int 0; return` -> empty; err -> empty; nothing else constrains a block")
    where = _gen_where(ctx, "_block_level_constraints")
    U = U16
    cases = {
        "assert A": (A + ["assert"], TA),
        "assert !A": (A + ["!", "assert"], FA),
        "assert A; assert B": (A + ["assert"] + B + ["assert"], TA & TB),
        "assert (A && unknown)": (A + ["&&", "assert"], TA),
        "assert (A || unknown)": (A + ["||", "assert"], U),
        "assert !(A || unknown)": (A + ["||", "!", "assert"], FA),
        "assert unknown": (["assert"], U),
        "return A": (A + ["return"], TA),
        "return !A": (A + ["!", "return"], FA),
        "return (A || B)": (A + B + ["||", "return"], TA | TB),
        "int 0; return": (["int 0", "return"], set()),
        "pushint 0; return": (["pushint 0", "return"], set()),
        "int 1; return": (["int 1", "return"], U),
        "intc_0 (unresolved constant); return": (["intc_0", "return"], U),
        "intc 5 (unresolved constant); return": (["intc 5", "return"], U),
        "int pay (named constant); return": (["int pay", "return"], U),
        "load 0; return": (["load 0", "return"], U),
        "intc_0 (unresolved); assert": (["intc_0", "assert"], U),
        "return unknown": (["return"], U),
        "assert A; int 0; return": (A + ["assert", "int 0", "return"], set()),
        "err": (["err"], set()),
        "assert A; err": (A + ["assert", "err"], set()),
        "A; pop (no consumer)": (A + ["pop"], U),
        "A; bnz (edge, not block)": (A + ["bnz l"], U),
        "A; ! (no consumer)": (A + ["!"], U),
        "A; B; && (no consumer)": (A + B + ["&&", "pop"], U),
        "plain": (["int 1", "pop"], U),
    }
    for name, (seq, want) in cases.items():
        g = Graph(ctx)
        bb = g.block("X", seq)
        g.subroutine("main", "X", ["X"])
        me = _me(ctx, fn=g.function("main"))
        r = _call(ctx, me, "_block_level_constraints", ["GroupSize", "GroupIndex"], bb)
        if isinstance(r, tuple) and r and r[0] == "RAISES":
            rep.violation(rule, name, where, r, sorted(want))
            continue
        got = _block_ctx(ctx, me, "GroupSize", bb)
        other = _block_ctx(ctx, me, "GroupIndex", bb)
        want_other = set() if want == set() and ("err" in name or "int 0" in name) else set(range(16))
        rep.check(got == want and other == want_other, rule, name, where, {"GroupSize": sorted(got), "GroupIndex": sorted(other)},
                  {"GroupSize": sorted(want), "GroupIndex": sorted(want_other)},
                  why="block-level constraint differs from the meaning of the terminating/asserting instruction",
                  sample={"block": name, "GroupSize": sorted(want)})
    # the custom error block used for off-path successors of a dispatch path is an error block
    g = Graph(ctx)
    errcls = ctx.world.cls("tealer.teal.instructions.instructions", "TealerCustomErrInstruction")
    bb = g.block("X", [ctx.world.new(errcls)])
    g.subroutine("main", "X", ["X"])
    me = _me(ctx, fn=g.function("main"))
    _call(ctx, me, "_block_level_constraints", ["GroupSize"], bb)
    rep.check(_block_ctx(ctx, me, "GroupSize", bb) == set(), rule, "TealerCustomErrInstruction", where,
              sorted(_block_ctx(ctx, me, "GroupSize", bb)), [])


def _edge_graph(ctx, exit_line, shape, cond_seq):
    g = Graph(ctx)
    g.block("P", list(cond_seq) + [exit_line])
    g.block("FT", ["int 1", "return"])
    g.block("TG", ["l:", "int 1", "return"])
    if shape == "two":
        g.edge("P", "FT")
        g.edge("P", "TG")
        blocks = ["P", "FT", "TG"]
    elif shape == "same":            # target is the instruction after the branch: one block edge, two instruction edges
        g.edge("P", "TG")
        g.edge("P", "TG", block_edge=False)
        blocks = ["P", "TG"]
    else:                            # branch is the last instruction: only the jump edge exists
        g.edge("P", "TG")
        blocks = ["P", "TG"]
    g.subroutine("main", "P", blocks)
    return g, g.function("main")


def rule_edge(ctx, rep):
    rule = "T-EDGE"
    rep.rule(rule, "edge constraints: bz -> jump edge gets false(x), fall-through gets true(x); bnz the opposite; next[0] is the fall-through; "
                   "a branch whose target is the next instruction constrains neither outcome; other exits constrain no edge")
    where = _gen_where(ctx, "_path_level_constraints")
    U = U16
    for exit_line, (jump_side, ft_side) in (("bz l", ("F", "T")), ("bnz l", ("T", "F"))):
        for cname, seq, (T, F) in (("A", A, (TA, FA)), ("!A", A + ["!"], (FA, TA)), ("A||B", A + B + ["||"], (TA | TB, FA & FB)),
                                   ("unknown", [], (U, U)), ("A&&unknown", A + ["&&"], (TA, U))):
            sides = {"T": T, "F": F}
            for shape in ("two", "same", "last"):
                g, fn = _edge_graph(ctx, exit_line, shape, seq)
                me = _me(ctx, fn=fn)
                r = _call(ctx, me, "_path_level_constraints", ["GroupSize"], g.blocks["P"])
                name = f"{exit_line.split()[0]} {cname} [{shape}]"
                if isinstance(r, tuple) and r and r[0] == "RAISES":
                    rep.violation(rule, name, where, r, "edge constraints")
                    continue
                pc = ctx.world.getattr(me, "_path_contexts")["GroupSize"]
                got = {n: sorted(pc[g.blocks[n]][g.blocks["P"]]) for n in ("FT", "TG") if g.blocks[n] in pc and g.blocks["P"] in pc[g.blocks[n]]}
                if shape == "two":
                    want = {"FT": sorted(sides[ft_side]), "TG": sorted(sides[jump_side])}
                elif shape == "same":
                    want = {"TG": sorted(T | F)}
                else:
                    want = {"TG": sorted(sides[jump_side])}
                rep.check(got == want, rule, name, where, got, want,
                          why="the constraint stored on a successor edge is not the outcome of the branch condition under which that edge is taken",
                          sample={"branch": name, "edges": want})
    # exits that are not conditional branches leave every edge unconstrained
    for exit_line, succ in (("b l", ["TG"]), ("int 1", ["FT"]), ("callsub l", ["FT"])):
        g = Graph(ctx)
        g.block("P", A + [exit_line])
        g.block("FT", ["int 1", "return"])
        g.block("TG", ["l:", "retsub"] if exit_line.startswith("callsub") else ["l:", "int 1", "return"])
        for s in succ:
            g.edge("P", s)
        if exit_line.startswith("callsub"):
            g.subroutine("main", "P", ["P", "FT"])
            g.subroutine("l", "TG", ["TG"])
            g.call("P", "l")
            fn = g.function("main", ["l"])
        else:
            g.subroutine("main", "P", ["P"] + succ)
            fn = g.function("main")
        me = _me(ctx, fn=fn)
        _call(ctx, me, "_path_level_constraints", ["GroupSize"], g.blocks["P"])
        pc = ctx.world.getattr(me, "_path_contexts")["GroupSize"]
        got = {repr(k): sorted(v[g.blocks["P"]]) for k, v in pc.items() if g.blocks["P"] in v}
        ok = bool(got) and all(v == sorted(U) for v in got.values())
        rep.check(ok, rule, f"{exit_line.split()[0]} leaves edges unconstrained", where, got, "every successor edge = U")


# ------------------------------------------------------------------------------------------------ T-EQN

def _loopgraph(ctx):
    """a subroutine whose body jumps back to its own entry label, and a main program that loops back to its first block"""
    g = Graph(ctx)
    g.block("M0", ["top:", "callsub f"]); g.block("M1", ["txn Amount", "bnz top"]); g.block("M2", ["int 1", "return"])
    g.block("F0", ["f:", "txn Amount", "bz f2"]); g.block("F1", ["b f"]); g.block("F2", ["f2:", "retsub"])
    g.edge("M0", "M1"); g.edge("M1", "M2"); g.edge("M1", "M0"); g.edge("F0", "F1"); g.edge("F0", "F2"); g.edge("F1", "F0")
    g.subroutine("main", "M0", ["M0", "M1", "M2"]); g.subroutine("f", "F0", ["F0", "F1", "F2"])
    g.call("M0", "f")
    return g, g.function("main", ["f"])


def _callgraph(ctx, extra_jump=False, callee_returns=True, two_callers=False):
    """P: entry, conditional jump over the call (optional); C: `callsub f`; R: return point; f: subroutine with two retsub blocks"""
    g = Graph(ctx)
    g.block("P", A + ["bnz r"] if extra_jump else ["int 1", "pop"])
    g.block("C", ["callsub f"])
    g.block("R", ["r:", "int 1", "return"])
    g.block("F0", ["f:", "txn Amount", "bnz f1"])
    g.block("F1", ["retsub"] if callee_returns else ["err"])
    g.block("F2", ["f1:", "retsub"] if callee_returns else ["f1:", "int 1", "return"])
    g.edge("P", "C")
    if extra_jump:
        g.edge("P", "R")
    g.edge("C", "R")
    g.edge("F0", "F1")
    g.edge("F0", "F2")
    main_blocks = ["P", "C", "R"]
    if two_callers:
        g.block("C2", ["callsub f"])
        g.block("R2", ["int 1", "return"])
        g.edge("R", "C2") if False else None
        g.edge("C2", "R2")
        main_blocks += ["C2", "R2"]
    g.subroutine("main", "P", main_blocks)
    g.subroutine("f", "F0", ["F0", "F1", "F2"])
    g.call("C", "f")
    if two_callers:
        g.call("C2", "f")
    return g, g.function("main", ["f"])


def rule_eqn(ctx, rep):
    rule = "T-EQN"
    rep.rule(rule, "dataflow equations on abstract neighbourhoods: reach-in = ∪ over global predecessors of (reach-out ∩ edge), entry = U, "
                   "information returning from a subroutine is refined by the call site and only that; live-in = ∪ over global successors, "
                   "a returning call is refined by its return point; leaf blocks keep their block constraint")
    w = ctx.world
    where = _gen_where(ctx, "_calculate_reachin")
    U = U16
    key = "GroupSize"

    def setup(g, fn, reach, paths):
        me = _me(ctx, fn=fn)
        pc = w.getattr(me, "_path_contexts")
        for (succ, pred), val in paths.items():
            pc[key].setdefault(g.blocks[succ], {})[g.blocks[pred]] = set(val)
        return me, {g.blocks[n]: set(v) for n, v in reach.items()}

    # 1. entry block: everything is possible
    g, fn = _callgraph(ctx)
    me, ro = setup(g, fn, {n: set() for n in g.blocks}, {})
    got = _call(ctx, me, "_calculate_reachin", key, g.blocks["P"], ro)
    rep.check(got == U, rule, "reach-in(entry)", where, got, sorted(U))
    # 2. ordinary join: two predecessors
    g2 = Graph(ctx)
    g2.block("P", A + ["bnz x"]); g2.block("Q", ["int 1", "pop"]); g2.block("J", ["x:", "int 1", "return"])
    g2.edge("P", "Q"); g2.edge("P", "J"); g2.edge("Q", "J")
    g2.subroutine("main", "P", ["P", "Q", "J"])
    fn2 = g2.function("main")
    me, ro = setup(g2, fn2, {"P": {1, 2, 3, 4}, "Q": {2, 5}, "J": set()}, {("J", "P"): {3, 4, 9}, ("J", "Q"): {5, 6}})
    got = _call(ctx, me, "_calculate_reachin", key, g2.blocks["J"], ro)
    rep.check(got == {3, 4, 5}, rule, "reach-in(join)", where, got, [3, 4, 5], why="reach-in must be the union over predecessors of reach-out ∩ edge constraint")
    # 3. return point: information from the callee's retsub blocks, refined by the call site
    g, fn = _callgraph(ctx)
    me, ro = setup(g, fn, {"P": U, "C": {1, 2, 3}, "R": set(), "F0": U, "F1": {2, 7}, "F2": {3, 8}},
                   {("R", "F1"): U, ("R", "F2"): {3, 8, 9}})
    got = _call(ctx, me, "_calculate_reachin", key, g.blocks["R"], ro)
    rep.check(got == {2, 3}, rule, "reach-in(return point)", where, got, [2, 3],
              why="what returns from the subroutine must be intersected with what reached the call site (other call sites' values excluded)")
    # 4. return point that is also a jump target: the jumping predecessor contributes, unrefined by the call site
    g, fn = _callgraph(ctx, extra_jump=True)
    me, ro = setup(g, fn, {"P": {1, 2, 3, 4, 5, 6}, "C": {1, 2, 3}, "R": set(), "F0": U, "F1": {2, 7}, "F2": {3, 8}},
                   {("R", "F1"): U, ("R", "F2"): U, ("R", "P"): {5, 6, 12}})
    got = _call(ctx, me, "_calculate_reachin", key, g.blocks["R"], ro)
    rep.check(got == {2, 3, 5, 6}, rule, "reach-in(return point + jump)", where, got, [2, 3, 5, 6],
              why="a block that follows a callsub and is also a jump target is reached by the jump without executing the subroutine")
    # 5. subroutine entry: union over call sites
    g, fn = _callgraph(ctx, two_callers=True)
    me, ro = setup(g, fn, {n: set() for n in g.blocks}, {("F0", "C"): U, ("F0", "C2"): {4, 5}})
    ro[g.blocks["C"]] = {1, 2}
    ro[g.blocks["C2"]] = {4, 9}
    got = _call(ctx, me, "_calculate_reachin", key, g.blocks["F0"], ro)
    rep.check(got == {1, 2, 4}, rule, "reach-in(subroutine entry)", where, got, [1, 2, 4])
    # 6. live-in
    wl = _gen_where(ctx, "_calculate_livein")
    me, lo = setup(g2, fn2, {"P": set(), "Q": {2, 5}, "J": {7}}, {})
    got = _call(ctx, me, "_calculate_livein", key, g2.blocks["P"], lo)
    rep.check(got == {2, 5, 7}, rule, "live-in(branch)", wl, got, [2, 5, 7])
    g, fn = _callgraph(ctx)
    me, lo = setup(g, fn, {"P": set(), "C": set(), "R": {1, 2, 3}, "F0": {2, 3, 4}, "F1": set(), "F2": set()}, {})
    got = _call(ctx, me, "_calculate_livein", key, g.blocks["C"], lo)
    rep.check(got == {2, 3}, rule, "live-in(callsub, callee returns)", wl, got, [2, 3],
              why="a call that returns continues at its return point: live-in = live-out(callee entry) ∩ live-out(return point)")
    got = _call(ctx, me, "_calculate_livein", key, g.blocks["F1"], lo)
    rep.check(got == {1, 2, 3}, rule, "live-in(retsub)", wl, got, [1, 2, 3])
    g, fn = _callgraph(ctx, callee_returns=False)
    me, lo = setup(g, fn, {"P": set(), "C": set(), "R": {1}, "F0": {2, 3, 4}, "F1": set(), "F2": set()}, {})
    got = _call(ctx, me, "_calculate_livein", key, g.blocks["C"], lo)
    rep.check(got == {2, 3, 4}, rule, "live-in(callsub, callee never returns)", wl, got, [2, 3, 4],
              why="when the callee cannot return, the return point must not constrain the call")
    # 6b. the callee can both return and end the program: values accepted inside the callee never see the return point
    def mixed(kind):
        g = Graph(ctx)
        g.block("C", ["callsub f"]); g.block("R", ["int 1", "return"])
        g.block("F0", ["f:", "txn Amount", "bnz f1"]); g.block("F1", ["retsub"])
        g.edge("C", "R"); g.edge("F0", "F1")
        subs = ["f"]
        if kind == "accepting leaf":
            g.block("F2", ["f1:", "int 1", "return"]); g.edge("F0", "F2")
            g.subroutine("f", "F0", ["F0", "F1", "F2"])
        elif kind == "failing leaf":
            g.block("F2", ["f1:", "err"]); g.edge("F0", "F2")
            g.subroutine("f", "F0", ["F0", "F1", "F2"])
        elif kind == "leaf that falls off the end of the program":
            g.block("F2", ["f1:", "int 1"]); g.edge("F0", "F2")
            g.subroutine("f", "F0", ["F0", "F1", "F2"])
        elif kind == "accepting leaf two calls below the callee":
            g.block("F2", ["f1:", "callsub g"]); g.block("F3", ["retsub"]); g.edge("F0", "F2"); g.edge("F2", "F3")
            g.block("G0", ["g:", "callsub h"]); g.block("G1", ["retsub"]); g.edge("G0", "G1")
            g.block("H0", ["h:", "txn Fee", "bnz h1"]); g.block("H1", ["retsub"]); g.block("H2", ["h1:", "int 1", "return"])
            g.edge("H0", "H1"); g.edge("H0", "H2")
            g.subroutine("f", "F0", ["F0", "F1", "F2", "F3"]); g.subroutine("g", "G0", ["G0", "G1"]); g.subroutine("h", "H0", ["H0", "H1", "H2"])
            g.call("F2", "g"); g.call("G0", "h")
            subs = ["f", "g", "h"]
        elif kind == "callsub without return point as exit":
            g.block("F2", ["f1:", "callsub g"]); g.edge("F0", "F2")
            g.block("G0", ["g:", "int 1", "return"])
            g.subroutine("f", "F0", ["F0", "F1", "F2"]); g.subroutine("g", "G0", ["G0"])
            g.call("F2", "g")
            subs = ["f", "g"]
        elif kind in ("recursive callee without an accepting leaf", "mutually recursive callees, the second one has an accepting leaf"):
            # f calls g, g calls f again (recursion): the search for a program-terminating exit must terminate and look through the cycle
            g.block("F2", ["f1:", "callsub g"]); g.block("F3", ["retsub"]); g.edge("F0", "F2"); g.edge("F2", "F3")
            g.block("G0", ["g:", "txn Fee", "bnz g1"]); g.block("G1", ["callsub f"]); g.block("G3", ["retsub"]); g.edge("G0", "G1"); g.edge("G1", "G3")
            if kind.startswith("mutually"):
                g.block("G2", ["g1:", "int 1", "return"])
            else:
                g.block("G2", ["g1:", "retsub"])
            g.edge("G0", "G2")
            g.subroutine("f", "F0", ["F0", "F1", "F2", "F3"]); g.subroutine("g", "G0", ["G0", "G1", "G2", "G3"])
            g.call("F2", "g"); g.call("G1", "f")
            subs = ["f", "g"]
        else:   # the accepting leaf is in a subroutine called by the callee
            g.block("F2", ["f1:", "callsub g"]); g.block("F3", ["retsub"]); g.edge("F0", "F2"); g.edge("F2", "F3")
            g.block("G0", ["g:", "txn Fee", "bnz g1"]); g.block("G1", ["retsub"]); g.block("G2", ["g1:", "int 1", "return"])
            g.edge("G0", "G1"); g.edge("G0", "G2")
            g.subroutine("f", "F0", ["F0", "F1", "F2", "F3"]); g.subroutine("g", "G0", ["G0", "G1", "G2"])
            g.call("F2", "g")
            subs = ["f", "g"]
        g.subroutine("main", "C", ["C", "R"])
        g.call("C", "f")
        return g, g.function("main", subs)

    for kind, want in (("accepting leaf", {2, 3, 4}), ("failing leaf", {2, 3}), ("accepting leaf in a nested callee", {2, 3, 4}),
                       ("leaf that falls off the end of the program", {2, 3, 4}), ("callsub without return point as exit", {2, 3, 4}),
                       ("accepting leaf two calls below the callee", {2, 3, 4}), ("recursive callee without an accepting leaf", {2, 3}),
                       ("mutually recursive callees, the second one has an accepting leaf", {2, 3, 4})):
        g, fn = mixed(kind)
        me, lo = setup(g, fn, {n: set() for n in g.blocks}, {})
        lo[g.blocks["R"]] = {1, 2, 3}
        lo[g.blocks["F0"]] = {2, 3, 4}
        got = _call(ctx, me, "_calculate_livein", key, g.blocks["C"], lo)
        rep.check(got == want, rule, f"live-in(callsub, callee has retsub and {kind})", wl, got, sorted(want),
                  why="values accepted by a program-terminating exit inside the callee are not subject to the checks after the call")
        again = _call(ctx, me, "_calculate_livein", "GroupIndex", g.blocks["C"], lo)
        rep.check(again == got, rule, f"live-in is a function of its arguments ({kind}, asked twice)", wl, again, got,
                  why="the answer changes when the same question is asked again: state leaks between calls")
    # 6c. recursion through the caller: main calls a; a calls b and then c; b calls a again; c can approve.  Whatever the order in which a
    # subroutine's callees are listed (it comes out of a set), and whatever was asked before on the same analysis object, both a and b can
    # end the program (through c): neither call site is refined by its return point
    for order in (("b", "c"), ("c", "b")):
        g = Graph(ctx)
        g.block("C", ["callsub a"]); g.block("R", ["int 1", "return"]); g.edge("C", "R")
        g.block("A0", ["a:", "callsub b"]); g.block("A1", ["callsub c"]); g.block("A2", ["retsub"]); g.edge("A0", "A1"); g.edge("A1", "A2")
        g.block("B0", ["b:", "callsub a"]); g.block("B1", ["retsub"]); g.edge("B0", "B1")
        g.block("K0", ["c:", "txn Fee", "bnz c1"]); g.block("K1", ["retsub"]); g.block("K2", ["c1:", "int 1", "return"]); g.edge("K0", "K1"); g.edge("K0", "K2")
        g.subroutine("a", "A0", ["A0", "A1", "A2"]); g.subroutine("b", "B0", ["B0", "B1"]); g.subroutine("c", "K0", ["K0", "K1", "K2"])
        g.subroutine("main", "C", ["C", "R"])
        g.call("C", "a"); g.call("A0", "b"); g.call("A1", "c"); g.call("B0", "a")
        fn = g.function("main", ["a", "b", "c"])
        g.subs["a"].fields["called_subroutines"] = [g.subs[x] for x in order]
        me, lo = setup(g, fn, {n: set() for n in g.blocks}, {})
        lo[g.blocks["R"]] = {1, 2, 3}; lo[g.blocks["A0"]] = {2, 3, 4}
        lo[g.blocks["A1"]] = {1, 2, 3}; lo[g.blocks["B0"]] = {2, 3, 4}
        first = _call(ctx, me, "_calculate_livein", key, g.blocks["C"], lo)
        second = _call(ctx, me, "_calculate_livein", key, g.blocks["A0"], lo)
        rep.check(first == {2, 3, 4} and second == {2, 3, 4}, rule, f"live-in of two call sites on a recursive call graph, callees of a listed as {order}", wl,
                  {"callsub a": first, "callsub b": second}, {"callsub a": [2, 3, 4], "callsub b": [2, 3, 4]},
                  why="whether a callee can end the program must not depend on the order in which callees are listed or on earlier questions")
        me2, lo2 = setup(g, fn, {n: set() for n in g.blocks}, {})
        alone = _call(ctx, me2, "_calculate_livein", key, g.blocks["A0"], lo)
        rep.check(alone == second, rule, f"live-in(callsub b) asked first or after callsub a, callees listed as {order}", wl, second, alone,
                  why="the answer depends on which question was asked before on the same analysis object")
    # 7. merge steps: out = in ∩ block constraint; leaf blocks are not touched by the backward pass
    wm = _gen_where(ctx, "_merge_information_forward")
    me, ro = setup(g2, fn2, {"P": {1, 2, 3, 4}, "Q": {2, 5}, "J": set()}, {("J", "P"): {3, 4, 9}, ("J", "Q"): {5, 6}})
    w.getattr(me, "_block_contexts")[key][g2.blocks["J"]] = {4, 5, 6}
    gro = {key: ro}
    upd = _call(ctx, me, "_merge_information_forward", [key], g2.blocks["J"], gro)
    rep.check(upd is True and ro[g2.blocks["J"]] == {4, 5}, rule, "forward merge", wm, {"updated": upd, "out": sorted(ro[g2.blocks["J"]])}, {"updated": True, "out": [4, 5]})
    upd = _call(ctx, me, "_merge_information_forward", [key], g2.blocks["J"], gro)
    rep.check(upd is False, rule, "forward merge reaches a fixpoint", wm, upd, False)
    me, lo = setup(g2, fn2, {"P": set(), "Q": {2, 5}, "J": {7}}, {})
    w.getattr(me, "_block_contexts")[key][g2.blocks["P"]] = {5, 7, 9}
    w.getattr(me, "_block_contexts")[key][g2.blocks["J"]] = {7}
    glo = {key: lo}
    upd = _call(ctx, me, "_merge_information_backward", [key], g2.blocks["P"], glo)
    rep.check(upd is True and lo[g2.blocks["P"]] == {5, 7}, rule, "backward merge", wm, {"updated": upd, "out": sorted(lo[g2.blocks["P"]])}, {"updated": True, "out": [5, 7]})
    upd = _call(ctx, me, "_merge_information_backward", [key], g2.blocks["J"], glo)
    rep.check(upd is False and lo[g2.blocks["J"]] == {7}, rule, "backward merge skips leaf", wm, {"updated": upd, "out": sorted(lo[g2.blocks["J"]])}, {"updated": False, "out": [7]})


def rule_worklist(ctx, rep):
    """the worklist passes propagate an update to every block that reads it (successors + return point; predecessors + call site)"""
    rule = "T-EQN(worklist)"
    rep.rule(rule, "one forward / backward pass over an abstract neighbourhood started from a single block reaches every dependent block")
    w = ctx.world
    where = _gen_where(ctx, "forward_analyis")
    key = "GroupSize"
    U = U16
    # forward: entry -> callsub -> subroutine -> return point (+ jump)
    g, fn = _callgraph(ctx, extra_jump=True)
    me = _me(ctx, fn=fn)
    for bb in g.blocks.values():
        _call(ctx, me, "_block_level_constraints", [key], bb)
        _call(ctx, me, "_path_level_constraints", [key], bb)
    r = _call(ctx, me, "forward_analyis", [key], [g.blocks["P"]])
    bc = w.getattr(me, "_block_contexts")[key]
    got = {n: sorted(bc[bb]) for n, bb in g.blocks.items()}
    want = {"P": sorted(U), "C": sorted(FA), "R": sorted(U), "F0": sorted(FA), "F1": sorted(FA), "F2": sorted(FA)}
    rep.check(got == want, rule, "forward pass from the entry", where, got, want,
              why="starting from the entry alone, the forward pass must reach callee, return point and jump target with the right refinement")
    # a block looping back to the subroutine entry is re-evaluated when the entry changes
    g, fn = _loopgraph(ctx)
    me = _me(ctx, fn=fn)
    for bb in g.blocks.values():
        _call(ctx, me, "_block_level_constraints", [key], bb)
        _call(ctx, me, "_path_level_constraints", [key], bb)
    order = [g.blocks[n] for n in ("F1", "F2", "F0", "M2", "M1", "M0")]
    _call(ctx, me, "forward_analyis", [key], [g.blocks[n] for n in ("M0", "M1", "M2", "F0", "F1", "F2")])
    _call(ctx, me, "backward_analysis", [key], [b for b in order if b is not g.blocks["M2"]])
    bc = w.getattr(me, "_block_contexts")[key]
    got = {n: sorted(bc[bb]) for n, bb in g.blocks.items()}
    rep.check(all(v == sorted(U) for v in got.values()), rule, "loop back to the entry of a subroutine / of the program", _gen_where(ctx, "backward_analysis"),
              {n: len(v) for n, v in got.items()}, "every block keeps the full set (accepted executions pass through all of them)",
              why="a block that jumps back to an entry block must be a predecessor of that entry for the worklist passes")
    # backward: leaf <- return point <- callee / call site <- entry
    g, fn = _callgraph(ctx)
    me = _me(ctx, fn=fn)
    for bb in g.blocks.values():
        _call(ctx, me, "_block_level_constraints", [key], bb)
    w.getattr(me, "_block_contexts")[key][g.blocks["R"]] = {1, 2, 3}
    w.getattr(me, "_block_contexts")[key][g.blocks["F2"]] = {2, 3, 4}
    w.getattr(me, "_block_contexts")[key][g.blocks["F1"]] = {3, 9}
    r = _call(ctx, me, "backward_analysis", [key], [g.blocks["F1"], g.blocks["F2"]])
    bc = w.getattr(me, "_block_contexts")[key]
    got = {n: sorted(bc[bb]) for n, bb in g.blocks.items()}
    want = {"R": [1, 2, 3], "F1": [3], "F2": [2, 3], "F0": [2, 3], "C": [2, 3], "P": [2, 3]}
    rep.check(got == want, rule, "backward pass from the retsub blocks", _gen_where(ctx, "backward_analysis"), got, want,
              why="starting from the retsub blocks alone, the backward pass must reach callee entry, call site and entry")


FIXPOINT_PROGRAMS = {
    "fee > 1000, bz to the next line": "#pragma version 6\ntxn Fee\nint 1000\n>\nbz next\nnext:\nint 1\nreturn\n",
    "fee <= 1000, bnz to the next line": "#pragma version 6\ntxn Fee\nint 1000\n<=\nbnz next\nnext:\nint 1\nreturn\n",
    "size == 2, bz to the next line": "#pragma version 6\nglobal GroupSize\nint 2\n==\nbz next\nnext:\nint 1\nreturn\n",
    "index == 0, bnz to the next line": "#pragma version 6\ntxn GroupIndex\nint 0\n==\nbnz next\nnext:\nint 1\nreturn\n",
    "rekey == zero, bnz to the next line": "#pragma version 6\ntxn RekeyTo\nglobal ZeroAddress\n==\nbnz next\nnext:\nint 1\nreturn\n",
    "index >= 1, bz as last instruction": "#pragma version 6\nb start\nok:\nint 1\nreturn\nstart:\ntxn GroupIndex\nint 1\n>=\nbz ok\n",
    "checks after a call whose callee can approve three calls down": (
        "#pragma version 6\ncallsub s1\ntxn Fee\nint 1000\n<=\nassert\nglobal GroupSize\nint 2\n==\nassert\ntxn RekeyTo\nglobal ZeroAddress\n==\nassert\nint 1\nreturn\n"
        "s1:\ncallsub s2\nretsub\ns2:\ncallsub s3\nretsub\ns3:\ntxn Amount\nbz back\nint 1\nreturn\nback:\nretsub\n"),
    "return point that is a jump target, the callee never returns": (
        "#pragma version 6\ntxn Amount\nbz approve\ncallsub reject\napprove:\nglobal GroupSize\nint 3\n<\nassert\nint 1\nreturn\nreject:\ntxn RekeyTo\nglobal ZeroAddress\n==\nassert\nint 1\nreturn\n"),
    "return point that is a loop header, the callee never returns": (
        "#pragma version 6\ntxn Amount\nbz top\ncallsub bail\ntop:\ntxn Fee\nint 1000\n<=\nassert\ntxn Amount\nbnz top\nint 1\nreturn\nbail:\nerr\n"),
    "check in a subroutine called from a loop": (
        "#pragma version 6\nloop:\ncallsub chk\ntxn Amount\nbnz loop\nint 1\nreturn\nchk:\ntxn RekeyTo\nglobal ZeroAddress\n==\nassert\nglobal GroupSize\nint 4\n==\nassert\nretsub\n"),
    "call as the last instruction, the callee returns with a non-zero value on the stack": (
        "#pragma version 6\nb main\nf:\nint 1\nretsub\nmain:\ncallsub f\n"),
    "call as the last instruction, the callee checks and returns": (
        "#pragma version 6\nb main\nf:\ntxn RekeyTo\nglobal ZeroAddress\n==\nassert\nint 1\nretsub\nmain:\ncallsub f\n"),
    "diamond: one arm checks, the other rejects": (
        "#pragma version 6\ntxn Amount\nbnz right\ntxn Fee\nint 1000\n<\nassert\nb join\nright:\nerr\njoin:\ntxn GroupIndex\nint 1\n!=\nassert\nint 1\nreturn\n"),
    "subroutine called from two sites with different checks after them": (
        "#pragma version 6\ntxn Amount\nbz second\ncallsub f\nglobal GroupSize\nint 2\n==\nassert\nint 1\nreturn\nsecond:\ncallsub f\nglobal GroupSize\nint 3\n==\nassert\nint 1\nreturn\n"
        "f:\ntxn Fee\nint 1000\n<=\nassert\nretsub\n"),
}


def rule_fixpoint_programs(ctx, rep, only=None):
    """only: prefixes of the disagreement kinds this property is about (None: all)"""
    rule = "T-FIXPOINT(programs)"
    rep.rule(rule, "the complete context analysis (parse_teal, construct_function, block/edge constraints, forward and backward passes) evaluated on "
                   "hand-written programs of the direct-check fragment and a fixed sample of enumerated ones, per governed field, against the "
                   "independent reference semantics: per block sound (every admitted value kept) and exact; rekey-to verdict 'some path' iff some "
                   "accepting path admits an arbitrary address. Shapes: branch to the next line per field, branch as last instruction, program "
                   "exits three calls below a call, a return point that is also a jump target / loop header after a callee that never returns, "
                   "checks inside a subroutine called from a loop, diamonds, a subroutine shared by two call sites")
    from .. import thorough, gen
    env = thorough.fix_env(ctx)
    where = ctx.path("tealer.analyses.dataflow.transaction_context.generic")
    progs = dict(FIXPOINT_PROGRAMS)
    sample = gen.checked_programs(kmain=3, ksub=2, check_names=("none", "size==2", "rekey==zero", "fee<=1000", "index>=1"), cond_names=("free", "size==2", "rekey==zero"),
                                  stride=9000011, offset=4321)
    for name, src in sample:
        progs["enumerated: " + name] = src
    n = 0
    for name, src in progs.items():
        try:
            bad = thorough.fix_compare(ctx, env, name, src)
        except PyRaise as e:
            rep.violation(rule, f"{name}: runs", where, f"RAISES {e.exc} {e.where}", "completes")
            continue
        except (RuntimeError, ValueError) as e:
            raise Unsupported(f"{rule}: {name}: {e}")
        n += 1
        if only is not None:
            bad = [x for x in bad if any(x[2].split(" at ")[0].startswith(o) for o in only)]
        if not bad:
            rep.ok(rule, {"program": name} if n <= 12 else None)
        if bad:
            # one finding per program (the construct is the program): all disagreements are listed in the observation
            rep.violation(rule, name, where, {"program": src, "disagreements": [f"{what}: got {got!r}, reference {want!r}"[:160] for _, _, what, got, want in bad[:6]]},
                          "no disagreement with the reference semantics", "the computed per-block information differs from the reference semantics of the program")
    rep.count("programs compared with the reference semantics", n)
    rep.require(n >= 15, f"only {n} programs compared")
