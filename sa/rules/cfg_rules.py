"""C04 / C05 / C12 (and the duplicate-freedom premise of C02): graph construction.

* T-FLOW   - per-opcode control-flow table of the four parser passes, for every AVM opcode;
* T-CFG    - parse_teal on abstract program shape classes against an independent reference construction
             written from the AVM control-flow semantics (blocks, ordered successors, predecessors,
             subroutines, callers, return points);
* R-PAIR, R-ITER, R-ORDER, R-OWN, R-DEDUP - structural rules over the syntax trees.
"""
import ast

from ..absint import Obj, Interp, PyRaise, Unsupported
from .. import guards as G
from .optable import _spec_ops, _opkey

PT = "tealer.teal.parse_teal"
PF = "tealer.teal.parse_functions"


# ---------------------------------------------------------------------------------------------- T-FLOW

def _flow_of(ctx):
    return {op["mnemonic"]: op["flow"] for op in _spec_ops(ctx)}


def _sample_line(ctx, op):
    from .optable import op_lines
    for o, line, imms in op_lines(ctx):
        if o is op:
            return line
    return None


def rule_flow_table(ctx, rep):
    rule = "T-FLOW"
    rep.rule(rule, "for every AVM opcode: instruction edges (fall-through / jump targets), block boundary and ordered block successors produced "
                   "by first_pass, second_pass, create_bb, fourth_pass equal the opcode's control-flow kind")
    w = ctx.world
    fp, sp, cb, f4 = (w.func(PT, n) for n in ("first_pass", "second_pass", "create_bb", "fourth_pass"))
    where = ctx.path(PT)
    n = 0
    for op in _spec_ops(ctx):
        line = _sample_line(ctx, op)
        if line is None or op["mnemonic"] in ("intcblock", "bytecblock"):
            continue
        flow = op["flow"]
        if flow in ("jump", "cond", "call"):
            line = f"{op['mnemonic']} l1"
        elif flow == "multi":
            line = f"{op['mnemonic']} l1 l2"
        lines = ["#pragma version 8", "int 0", line, "int 1", "l1:", "int 2", "l2:", "int 3", "return"]
        labels, subs, instrs, bbs = {}, __import__("collections").defaultdict(list), [], []
        try:
            w.call(fp, lines, labels, subs, instrs)
            w.call(sp, instrs, labels)
            w.call(cb, instrs, bbs)
            w.call(f4, bbs)
        except PyRaise as e:
            rep.violation(rule, f"{_opkey(op)} passes run", where, f"RAISES {e.exc} {e.where}", "a graph")
            continue
        X, N, L1, L2 = instrs[2], instrs[3], instrs[4], instrs[6]
        tag = {id(X): "X", id(N): "N", id(L1): "L1", id(L2): "L2"}
        nxt = [tag.get(id(i), "?") for i in w.getattr(X, "next")]
        want_next = {"next": ["N"], "jump": ["L1"], "cond": ["N", "L1"], "multi": ["N", "L1", "L2"], "call": ["N"], "retsub": [], "exit": []}[flow]
        mirror = all(any(p is X for p in w.getattr(t, "prev")) for t in w.getattr(X, "next"))
        n_prev = any(p is X for p in w.getattr(N, "prev"))
        bX, bN, b1, b2 = (w.getattr(i, "bb") for i in (X, N, L1, L2))
        btag = {id(bN): "bN", id(b1): "bL1", id(b2): "bL2", id(bX): "bX"}
        ends_block = bX is not bN
        bnext = [btag.get(id(b), "?") for b in w.getattr(bX, "next")]
        want_bnext = {"next": None, "jump": ["bL1"], "cond": ["bN", "bL1"], "multi": ["bN", "bL1", "bL2"], "call": ["bN"], "retsub": [], "exit": []}[flow]
        bmirror = all(any(p is bX for p in w.getattr(t, "prev")) for t in w.getattr(bX, "next"))
        ok = (nxt == want_next and mirror and n_prev == ("N" in want_next) and ends_block == (flow != "next")
              and (want_bnext is None or bnext == want_bnext) and bmirror and w.getattr(X, "line") == 3)
        n += 1
        rep.check(ok, rule, f"{op['mnemonic']} ({flow})", where,
                  {"ins.next": nxt, "ends block": ends_block, "block.next": bnext, "mirrored": mirror and bmirror, "line": w.getattr(X, "line")},
                  {"ins.next": want_next, "ends block": flow != "next", "block.next": want_bnext, "line": 3},
                  why="control-flow edges of the opcode differ from its AVM control-flow kind",
                  sample={"opcode": op["mnemonic"], "flow": flow, "ins.next": want_next})
    rep.count("opcodes in the flow table", n)
    rep.require(n >= 170, f"flow table has only {n} opcodes")


# ---------------------------------------------------------------------------------------------- reference CFG

def reference_cfg(ctx, src):
    """independent construction from the source text and the AVM control-flow kinds"""
    flow_of = _flow_of(ctx)
    ins = []
    for lineno, raw in enumerate(src.splitlines(), start=1):
        t = raw.split("//")[0].strip() if not raw.strip().startswith("//") else ""
        if not t:
            continue
        toks = t.split()
        if toks[0].endswith(":"):
            ins.append({"line": lineno, "kind": "label", "label": toks[0][:-1], "flow": "next", "text": t, "targets": []})
        else:
            fl = flow_of.get(toks[0], "next")
            targets = toks[1:] if fl in ("jump", "cond", "multi", "call") else []
            ins.append({"line": lineno, "kind": "op", "flow": fl, "text": " ".join(toks), "targets": targets, "mn": toks[0]})
    label_at = {i["label"]: k for k, i in enumerate(ins) if i["kind"] == "label"}
    n = len(ins)
    leader = [k == 0 or ins[k]["kind"] == "label" or ins[k - 1]["flow"] != "next" for k in range(n)]
    block_of, blocks = [], []
    for k in range(n):
        if leader[k]:
            blocks.append([])
        blocks[-1].append(k)
        block_of.append(len(blocks) - 1)
    succ = []
    for b, members in enumerate(blocks):
        x = members[-1]
        out = []
        fl = ins[x]["flow"]
        if fl in ("next", "cond", "multi", "call") and x + 1 < n:
            out.append(block_of[x + 1])
        if fl in ("jump", "cond", "multi"):
            for t in ins[x]["targets"]:
                tb = block_of[label_at[t]]
                if tb not in out:
                    out.append(tb)
        succ.append(out)
    sub_names = []
    for i in ins:
        if i.get("flow") == "call" and i["targets"][0] not in sub_names:
            sub_names.append(i["targets"][0])

    def reach(b0):
        seen, st = [], [b0]
        while st:
            b = st.pop()
            if b in seen:
                continue
            seen.append(b)
            st.extend(succ[b])
        return set(seen)

    main = reach(0)
    subs = {name: reach(block_of[label_at[name]]) for name in sub_names}
    retained = set(main)
    for s in subs.values():
        retained |= s
    out_blocks = {}
    for b in sorted(retained):
        out_blocks[b] = {"lines": [ins[k]["line"] for k in blocks[b]], "text": [ins[k]["text"] for k in blocks[b]], "next": list(succ[b]),
                         "prev": sorted(p for p in retained for s_ in succ[p] if s_ == b)}
    sub_out = {}
    for name, bs in subs.items():
        entry = block_of[label_at[name]]
        callers = [b for b in sorted(retained) if ins[blocks[b][-1]]["flow"] == "call" and ins[blocks[b][-1]]["targets"][0] == name]
        sub_out[name] = {"entry": entry, "blocks": sorted(bs),
                         "exits": sorted(b for b in bs if not succ[b] or ins[blocks[b][-1]]["flow"] == "retsub"),
                         "retsubs": sorted(b for b in bs if ins[blocks[b][-1]]["flow"] == "retsub"),
                         "callers": callers, "return_points": [succ[b][0] for b in callers if len(succ[b]) == 1]}
    sub_out["__main__"] = {"entry": 0, "blocks": sorted(main),
                           "exits": sorted(b for b in main if not succ[b] or ins[blocks[b][-1]]["flow"] == "retsub"),
                           "retsubs": sorted(b for b in main if ins[blocks[b][-1]]["flow"] == "retsub"), "callers": [], "return_points": []}
    return {"last_line": ins[-1]["line"] if ins else 0, "blocks": out_blocks, "main": sorted(main), "subs": sub_out,
            "retained_lines": sorted(l for b in retained for l in out_blocks[b]["lines"])}


def tealer_cfg(ctx, src):
    """the same summary read off the Teal object that tealer's parse_teal builds (evaluated abstractly)"""
    w = ctx.world
    teal = w.call(w.func(PT, "parse_teal"), src, "shape")
    it = Interp(teal.cls.mod)
    bbs = list(w.getattr(teal, "bbs"))
    idx = lambda b: w.getattr(b, "idx")
    blocks = {}
    problems = []
    for b in bbs:
        instrs = w.getattr(b, "instructions")
        blocks[idx(b)] = {"lines": [w.getattr(i, "line") for i in instrs], "text": [" ".join(it.to_str(i).split()) for i in instrs],
                          "next": [idx(x) for x in w.getattr(b, "next")], "prev": sorted(idx(x) for x in w.getattr(b, "prev"))}
        for x in list(w.getattr(b, "next")) + list(w.getattr(b, "prev")):
            if not any(x is y for y in bbs):
                problems.append(f"B{idx(b)} names block B{idx(x)} which is not in the graph")
        for k, i in enumerate(instrs):
            if w.getattr(i, "bb") is not b:
                problems.append(f"instruction at line {w.getattr(i, 'line')} does not point back to its block")
            if k + 1 < len(instrs) and not (len(w.getattr(i, "next")) == 1 and w.getattr(i, "next")[0] is instrs[k + 1]):
                problems.append(f"block B{idx(b)} can be left before its last instruction (line {w.getattr(i, 'line')})")
            if k > 0 and not (len(w.getattr(i, "prev")) == 1 and w.getattr(i, "prev")[0] is instrs[k - 1]):
                problems.append(f"block B{idx(b)} can be entered after its first instruction (line {w.getattr(i, 'line')})")
        if w.getattr(b, "teal") is not teal:
            problems.append(f"B{idx(b)}.teal is not the contract")
        # instruction edges of the exit instruction mirror and stay inside the retained instructions
        ex = instrs[-1]
        allins = w.getattr(teal, "instructions")
        for t in w.getattr(ex, "next"):
            if not any(t is y for y in allins):
                problems.append(f"exit of B{idx(b)} has an instruction edge to a removed instruction")
            elif not any(p is ex for p in w.getattr(t, "prev")):
                problems.append(f"instruction edge from line {w.getattr(ex, 'line')} is not mirrored")
        for p in w.getattr(instrs[0], "prev"):
            if not any(p is y for y in allins):
                problems.append(f"entry of B{idx(b)} has a predecessor instruction that was removed (line {w.getattr(p, 'line')})")
    main = w.getattr(teal, "main")
    subs = {}
    for name, s in w.getattr(teal, "subroutines").items():
        subs[name] = {"entry": idx(w.getattr(s, "entry")), "blocks": sorted(idx(b) for b in w.getattr(s, "blocks")),
                      "exits": sorted(idx(b) for b in w.getattr(s, "exit_blocks")), "retsubs": sorted(idx(b) for b in w.getattr(s, "retsub_blocks")),
                      "callers": [idx(b) for b in w.getattr(s, "caller_blocks")], "return_points": [idx(b) for b in w.getattr(s, "return_point_blocks")]}
        for b in w.getattr(s, "caller_blocks"):
            if w.getattr(b, "called_subroutine") is not s:
                problems.append(f"caller B{idx(b)} of {name} does not know the subroutine it calls")
    subs["__main__"] = {"entry": idx(w.getattr(main, "entry")), "blocks": sorted(idx(b) for b in w.getattr(main, "blocks")),
                        "exits": sorted(idx(b) for b in w.getattr(main, "exit_blocks")), "retsubs": sorted(idx(b) for b in w.getattr(main, "retsub_blocks")),
                        "callers": [idx(b) for b in w.getattr(main, "caller_blocks")], "return_points": [idx(b) for b in w.getattr(main, "return_point_blocks")]}
    for b in bbs:
        if w.getattr(b, "is_callsub_block"):
            rp = w.getattr(b, "sub_return_point")
            nx = w.getattr(b, "next")
            if (rp is None) != (len(nx) == 0) or (rp is not None and rp is not nx[0]):
                problems.append(f"callsub block B{idx(b)}: return point is not its fall-through successor")
            cs = w.getattr(b, "called_subroutine")
            lbl = w.getattr(w.getattr(b, "exit_instr"), "label")
            if w.getattr(cs, "name") != lbl:
                problems.append(f"callsub block B{idx(b)} calls {w.getattr(cs, 'name')} but names {lbl}")
            if rp is not None and not (w.getattr(rp, "is_sub_return_point") and w.getattr(rp, "callsub_block") is b):
                problems.append(f"return point of B{idx(b)} does not know its call site")
    return {"blocks": blocks, "main": sorted(idx(b) for b in w.getattr(main, "blocks")), "subs": subs,
            "retained_lines": sorted(w.getattr(i, "line") for i in w.getattr(teal, "instructions")), "problems": problems}, teal


def by_line(summary):
    """re-key a graph summary by the source line of each block's first instruction, so that the comparison does not depend on how
    blocks are numbered; a block that is named but not part of the graph appears as '?<id>'"""
    first = {i: v["lines"][0] for i, v in summary["blocks"].items()}

    def L(i):
        return first.get(i, f"?{i}")

    def S(xs):
        return sorted((L(x) for x in xs), key=lambda v: (isinstance(v, str), str(v) if isinstance(v, str) else v))
    blocks = {first[i]: {"lines": v["lines"], "next": [L(x) for x in v["next"]], "prev": S(v["prev"])} for i, v in summary["blocks"].items()}
    subs = {n: {"entry": L(v["entry"]), "blocks": S(v["blocks"]), "exits": S(v["exits"]), "retsubs": S(v["retsubs"]), "callers": S(v["callers"]),
                "return_points": S(v["return_points"])} for n, v in summary["subs"].items()}
    return {"blocks": blocks, "subs": subs, "main": S(summary["main"]), "retained_lines": summary["retained_lines"]}


SHAPES = {
    "straight line": "#pragma version 6\nint 1\nint 2\n+\nreturn\n",
    "diamond": "#pragma version 6\ntxn Amount\nbnz right\nint 1\nb join\nright:\nint 2\njoin:\npop\nint 1\nreturn\n",
    "loop with back edge": "#pragma version 6\nint 0\nloop:\ndup\nint 5\n<\nbz end\nint 1\n+\nb loop\nend:\nint 1\nreturn\n",
    "bnz as last instruction": "#pragma version 6\nint 0\ntop:\nint 1\n+\ndup\nint 3\n<\nbnz top\n",
    "bz to the next line": "#pragma version 6\ntxn Amount\nbz next\nnext:\nint 1\nreturn\n",
    "bnz to the next line then more": "#pragma version 6\ntxn Amount\nbnz n1\nn1:\ntxn Fee\nbz n2\nint 0\nreturn\nn2:\nint 1\nreturn\n",
    "b to the next line": "#pragma version 6\nint 1\nb n\nn:\nreturn\n",
    "switch with repeated label": "#pragma version 8\ntxn NumAppArgs\nswitch a b a\nint 0\nreturn\na:\nint 1\nreturn\nb:\nint 2\nreturn\n",
    "match with repeated label": "#pragma version 8\nint 1\nint 2\ntxn NumAppArgs\nmatch a a\nint 0\nreturn\na:\nint 1\nreturn\n",
    "switch as last instruction": "#pragma version 8\nb start\nreject:\nint 0\nreturn\napprove:\nint 1\nreturn\nstart:\ntxn NumAppArgs\nswitch reject approve\n",
    "dead code after return": "#pragma version 6\nint 1\nreturn\nint 2\nint 3\n+\npop\n",
    "dead block with two live successors": "#pragma version 6\nint 1\nbnz s2\ns1:\nint 1\nreturn\ndead:\nint 0\nbnz s2\nb s1\ns2:\nint 1\nreturn\n",
    "dead code in a subroutine region": "#pragma version 6\ncallsub sub\nint 1\nreturn\nsub:\nint 1\nbnz s2\ns1:\nretsub\ndead:\nint 0\nbnz s2\nb s1\ns2:\nretsub\n",
    "dead code that calls a subroutine": "#pragma version 6\nint 1\nreturn\ndead:\ncallsub sub\nint 1\nreturn\nsub:\nretsub\n",
    "dead call site of a live subroutine": "#pragma version 6\ncallsub sub\nint 1\nreturn\ndead:\ncallsub sub\nerr\nsub:\nretsub\n",
    "labels at the end": "#pragma version 6\ntxn Amount\nbnz end\nint 1\nreturn\nend:\n",
    "back-to-back labels": "#pragma version 6\ntxn Amount\nbnz a\nb b\na:\nb:\nint 1\nreturn\n",
    "empty subroutine": "#pragma version 6\ncallsub e\nint 1\nreturn\ne:\nretsub\n",
    "callsub as last instruction": "#pragma version 6\nb main\nsub:\nint 1\nreturn\nmain:\ncallsub sub\n",
    "subroutine called twice": "#pragma version 6\ncallsub f\ncallsub f\nint 1\nreturn\nf:\ntxn Amount\nbz f2\nretsub\nf2:\nretsub\n",
    "nested subroutines": "#pragma version 6\ncallsub f\nint 1\nreturn\nf:\ncallsub g\nretsub\ng:\nretsub\n",
    "recursive subroutine": "#pragma version 6\nint 3\ncallsub f\nint 1\nreturn\nf:\ndup\nbz base\nint 1\n-\ncallsub f\nbase:\nretsub\n",
    "subroutine before main": "#pragma version 6\nb main\nf:\nint 1\npop\nretsub\nmain:\ncallsub f\nint 1\nreturn\n",
    "subroutine that exits the program": "#pragma version 6\ncallsub f\nint 0\nreturn\nf:\ntxn Amount\nbz ok\nerr\nok:\nint 1\nreturn\n",
    "call inside a loop": "#pragma version 6\nint 0\nloop:\ncallsub f\nint 1\n+\ndup\nint 3\n<\nbnz loop\nint 1\nreturn\nf:\nretsub\n",
    "return point that is a jump target": "#pragma version 6\ntxn Amount\nbnz x\ncallsub f\nx:\nint 1\nreturn\nf:\nretsub\n",
    "comments and blank lines": "#pragma version 6\n\n// comment\n  int 1 // trailing\n\n  bnz l // c\n// c2\nerr\nl:\n\nint 1\nreturn\n",
    "mutual recursion": "#pragma version 6\ncallsub f\nint 1\nreturn\nf:\ntxn Amount\nbz fo\ncallsub g\nfo:\nretsub\ng:\ncallsub f\nretsub\n",
    "fall off the end": "#pragma version 6\ntxn Amount\nbz l\nint 1\nl:\nint 1\n",
    "main falls off the end after a call": "#pragma version 6\nb main\nf:\nint 1\npop\nretsub\nmain:\ncallsub f\nint 1\n",
    "subroutine path falls off the end": "#pragma version 6\ncallsub f\nint 1\nreturn\nf:\ntxn Amount\nbz x\nretsub\nx:\nint 1\n",
    "version 3 program (no subroutines yet)": "#pragma version 3\ntxn Amount\nbz z\nint 0\nreturn\nz:\nint 1\nreturn\n",
    "program without a version line": "txn Amount\nint 0\n==\n",
    "instructions the optimisation detectors report": "#pragma version 6\nint 0\ngtxns Amount\npop\ntxn GroupIndex\ngtxns Amount\npop\ntxna Accounts 0\npop\ntxn GroupIndex\ngtxnsa ApplicationArgs 0\npop\nint 1\nreturn\n",
    "call as the last instruction, the callee returns": "#pragma version 6\nb main\nf:\nint 1\nretsub\nmain:\ncallsub f\n",
    "group index computed by a subroutine": "#pragma version 6\ncallsub idx\nint 1\n+\ngtxns RekeyTo\nglobal ZeroAddress\n==\nassert\nint 1\nreturn\nidx:\ntxn GroupIndex\nretsub\n",
    "subroutine that jumps back to its own entry": "#pragma version 6\ncallsub f\ncallsub f\nint 1\nreturn\nf:\ntxn Amount\nbz out\nint 1\npop\nb f\nout:\nretsub\n",
    # the assembler accepts retsub anywhere; executed outside a subroutine it fails (nothing to return to)
    "retsub in the main program": "#pragma version 6\ntxn Amount\nbz ok\nretsub\nok:\nint 1\nreturn\n",
    "retsub in the main program next to a subroutine": "#pragma version 6\ntxn Amount\nbz ok\nretsub\nok:\ncallsub f\nint 1\nreturn\nf:\nretsub\n",
}


def rule_cfg_shapes(ctx, rep, rule="T-CFG", subs_only=False):
    rep.rule(rule, "parse_teal on abstract program shape classes (branches, loops, branch/call as last instruction, branch to next line, "
                   "repeated switch/match labels, dead code, labels at end, empty/shared/nested/recursive subroutines ...) equals an independent "
                   "reference construction: block partition in source order, ordered successors (fall-through first, no duplicates), "
                   "predecessors mirror successors, nothing outside the graph is named, subroutines/callers/return points")
    where = ctx.path(PT)
    for name, src in SHAPES.items():
        try:
            got, teal = tealer_cfg(ctx, src)
        except PyRaise as e:
            rep.violation(rule, f"{name}: builds", where, f"RAISES {e.exc} {e.where}", "a graph", why="graph construction fails on a valid program")
            continue
        ref = reference_cfg(ctx, src)
        problems = got["problems"]
        got, ref = by_line(got), by_line(ref)
        if not subs_only:
            rep.check(got["retained_lines"] == ref["retained_lines"], rule, f"{name}: retained instructions", where, got["retained_lines"], ref["retained_lines"],
                      why="the retained instructions are not exactly those reachable from the entry or a callsub target")
            gb = {k: {"lines": v["lines"], "next": v["next"], "prev": v["prev"]} for k, v in got["blocks"].items()}
            rb = {k: {"lines": v["lines"], "next": v["next"], "prev": v["prev"]} for k, v in ref["blocks"].items()}
            rep.check(gb == rb, rule, f"{name}: blocks and edges", where, gb, rb,
                      why="block partition, successor order or predecessor lists differ from the control flow of the program",
                      sample={"shape": name, "blocks": {k: v["next"] for k, v in rb.items()}})
            rep.check(not problems, rule, f"{name}: well-formed", where, problems[:5], [])
            rep.check(got["main"] == ref["main"], rule, f"{name}: main blocks", where, got["main"], ref["main"])
        rep.check(got["subs"] == ref["subs"], rule, f"{name}: subroutines", where, got["subs"], ref["subs"],
                  why="subroutine set, membership, exits, caller or return-point tables differ from the call structure of the program",
                  sample={"shape": name, "subroutines": ref["subs"]})
    rep.count("program shape classes", len(SHAPES))


# ---------------------------------------------------------------------------------------------- structural rules

MUTATORS = {"append", "extend", "insert", "remove", "pop", "clear", "add", "discard", "update", "sort", "reverse", "popitem", "setdefault"}


def _strip_iter(e):
    """the container an iteration ranges over; None when the loop ranges over a copy"""
    while isinstance(e, ast.Call) and isinstance(e.func, ast.Name) and e.func.id in ("enumerate", "reversed", "iter") and e.args:
        e = e.args[0]
    if isinstance(e, ast.Call):
        if isinstance(e.func, ast.Attribute) and e.func.attr in ("items", "keys", "values") and not e.args:
            return e.func.value
        return None   # list(x), sorted(x), x.copy(), f(...) - a fresh object
    if isinstance(e, (ast.Name, ast.Attribute, ast.Subscript)):
        return e
    return None


def iter_mutations(tree):
    """(loop, mutating statement) pairs: a statement inside `for x in E` that mutates the container denoted by E"""
    out = []
    for loop in ast.walk(tree):
        if not isinstance(loop, ast.For):
            continue
        cont = _strip_iter(loop.iter)
        if cont is None:
            continue
        path = ast.unparse(cont)
        for st in loop.body:
            for n in ast.walk(st):
                if isinstance(n, ast.Call) and isinstance(n.func, ast.Attribute) and n.func.attr in MUTATORS and ast.unparse(n.func.value) == path:
                    out.append((loop, n))
                elif isinstance(n, (ast.Assign, ast.AugAssign, ast.Delete)):
                    tg = n.targets if isinstance(n, (ast.Assign, ast.Delete)) else [n.target]
                    for t in tg:
                        if isinstance(t, ast.Subscript) and ast.unparse(t.value) == path and not isinstance(loop.iter, ast.Call):
                            out.append((loop, n))
                        if isinstance(n, ast.AugAssign) and ast.unparse(t) == path:
                            out.append((loop, n))
    return out


def rule_no_mutation_under_iteration(ctx, rep):
    rule = "R-ITER"
    rep.rule(rule, "no statement inside `for x in E` mutates the container denoted by E (whole package)")
    # positive fixture: the rule must recognise the pattern on every run
    fixture = ast.parse("def f(bi):\n    for bnext in bi.next:\n        bnext.prev.remove(bi)\n        bi.next.remove(bnext)\n"
                        "    for k in d:\n        del d[k]\n    for j, x in enumerate(list(bi.next)):\n        bi.next[j] = x\n")
    rep.require(len(iter_mutations(fixture)) == 2, "R-ITER does not recognise its positive fixture")
    loops = 0
    for modname, tree in ctx.trees.items():
        loops += sum(1 for n in ast.walk(tree) if isinstance(n, ast.For))
        bad = iter_mutations(tree)
        fn_of = {}
        for f in ast.walk(tree):
            if isinstance(f, ast.FunctionDef):
                for n in ast.walk(f):
                    fn_of[n] = f.name
        for loop, n in bad:
            rep.violation(rule, f"{modname}:{fn_of.get(loop, '?')}: for ... in {ast.unparse(loop.iter)}", f"{ctx.path(modname)}:{n.lineno}",
                          ast.unparse(n)[:80], "iterate over a copy",
                          "removing from / adding to a list while iterating over it skips elements: edges of an unreachable block survive")
    rep.count("for loops inspected", loops)
    rep.require(loops >= 150, f"only {loops} loops found in the package")
    for _ in range(loops):
        pass
    rep.ok(rule, {"loops": loops})


def _calls_named(fn, name):
    return [c for c in G.calls_in(fn) if isinstance(c.func, ast.Attribute) and c.func.attr == name]


def _semantic_graph_rules_hold(ctx):
    """do the semantic graph rules (program shape classes against the reference construction, function construction) hold on this tree?
    Used to tell a structural rule that is *violated* from one whose idiom was merely refactored away."""
    def compute():
        from ..report import Report
        from . import function_rules
        scratch = Report("scratch", "quick", 0, str(ctx.root))
        try:
            rule_cfg_shapes(ctx, scratch)
            rule_flow_table(ctx, scratch)
            function_rules.rule_function_construction(ctx, scratch)
        except Exception:
            return False
        return not scratch.violations
    return ctx.cached("semantic_graph_rules_hold", compute)


class _Soft:
    """collects the findings of a structural (syntactic) rule; they become violations only if the semantic graph rules fail too"""

    def __init__(self, ctx, rep, rule):
        self.ctx, self.rep, self.rule, self.items = ctx, rep, rule, []

    def check(self, cond, rule, construct, where, observed, expected, why=""):
        if cond:
            self.rep.ok(rule, {"construct": construct})
        else:
            self.items.append((construct, where, observed, expected, why))
        return cond

    def flush(self):
        if not self.items:
            return
        if _semantic_graph_rules_hold(self.ctx):
            for construct, where, observed, expected, why in self.items:
                self.rep.note(f"{self.rule}: idiom not recognised at {where} ({construct}); the semantic graph rules (T-CFG, T-FLOW, T-FUNCTION) hold, so this is a refactoring, not a violation")
            self.rep.count(f"{self.rule} sites not recognised but semantically fine", len(self.items))
        else:
            for construct, where, observed, expected, why in self.items:
                self.rep.violation(self.rule, construct, where, observed, expected, why)


def rule_edge_pairing(ctx, rep):
    rule = "R-PAIR"
    _rep, rep = rep, _Soft(ctx, rep, rule)
    try:
        _rule_edge_pairing(ctx, rep, _rep)
    finally:
        rep.flush()


def _rule_edge_pairing(ctx, rep, real):
    rule = "R-PAIR"
    real.rule(rule, "every a.add_next(b) has b.add_prev(a) in the same straight-line region and vice versa; every successor replacement/removal "
                    "updates the predecessor list of the old and the new successor (a site whose idiom is not recognised is reported only if the "
                    "semantic graph rules fail as well)")
    n = 0
    for modname in (PT, PF):
        tree = ctx.tree(modname)
        for fn in [f for f in ast.walk(tree) if isinstance(f, ast.FunctionDef)]:
            for s in G.walk(fn):
                block_stmts = None
            # group statements by their enclosing statement list
            for parent in ast.walk(fn):
                for fieldname in ("body", "orelse", "finalbody"):
                    stmts = getattr(parent, fieldname, None)
                    if not isinstance(stmts, list) or not stmts or not isinstance(stmts[0], ast.stmt):
                        continue
                    calls = []
                    for st in stmts:
                        if isinstance(st, ast.Expr) and isinstance(st.value, ast.Call) and isinstance(st.value.func, ast.Attribute) \
                                and st.value.func.attr in ("add_next", "add_prev") and len(st.value.args) == 1:
                            calls.append((st.value.func.attr, ast.unparse(st.value.func.value), ast.unparse(st.value.args[0]), st))
                    for kind, recv, arg, st in calls:
                        other = "add_prev" if kind == "add_next" else "add_next"
                        paired = any(k == other and r == arg and a == recv for k, r, a, _ in calls)
                        if not paired and kind == "add_prev":
                            # the successor side may be an in-place replacement:  arg.next[j] = recv
                            paired = any(isinstance(x, ast.Assign) and isinstance(x.targets[0], ast.Subscript)
                                         and ast.unparse(x.targets[0].value) in (f"{arg}.next", f"{arg}._next") and ast.unparse(x.value) == recv for x in stmts)
                        n += 1
                        rep.check(paired, rule, f"{modname.split('.')[-1]}:{fn.name}: {recv}.{kind}({arg})", f"{ctx.path(modname)}:{st.lineno}",
                                  "no matching call in the same region", f"{arg}.{other}({recv})",
                                  why="successor and predecessor lists must mirror each other")
                    # replacement of a successor: X.next[j] = Y  requires  Y.add_prev(X) and <old>.prev.remove(X)
                    for st in stmts:
                        if isinstance(st, ast.Assign) and len(st.targets) == 1 and isinstance(st.targets[0], ast.Subscript) \
                                and isinstance(st.targets[0].value, ast.Attribute) and st.targets[0].value.attr in ("next", "_next"):
                            recv = ast.unparse(st.targets[0].value.value)
                            new = ast.unparse(st.value)
                            texts = [ast.unparse(x) for x in stmts]
                            has_add = any(t == f"{new}.add_prev({recv})" for t in texts)
                            has_rm = any(t.endswith(f".prev.remove({recv})") for t in texts)
                            n += 1
                            rep.check(has_add and has_rm, rule, f"{modname.split('.')[-1]}:{fn.name}: successor replacement", f"{ctx.path(modname)}:{st.lineno}",
                                      {"new successor linked back": has_add, "old successor unlinked": has_rm}, "both",
                                      why="replacing a successor must update the predecessor lists of the old and the new block")
                        # removal loops: X.prev.remove(Y) paired with Y.next.remove(X)
                        if isinstance(st, ast.Expr) and isinstance(st.value, ast.Call) and isinstance(st.value.func, ast.Attribute) and st.value.func.attr == "remove" \
                                and isinstance(st.value.func.value, ast.Attribute) and st.value.func.value.attr in ("prev", "next") and len(st.value.args) == 1:
                            side = st.value.func.value.attr
                            recv = ast.unparse(st.value.func.value.value)
                            arg = ast.unparse(st.value.args[0])
                            other = "next" if side == "prev" else "prev"
                            texts = [ast.unparse(x) for x in stmts]
                            replaced = any(isinstance(x, ast.Assign) and isinstance(x.targets[0], ast.Subscript) and ast.unparse(x.targets[0].value) == f"{arg}.{other}" for x in stmts)
                            paired = f"{arg}.{other}.remove({recv})" in texts or replaced
                            n += 1
                            rep.check(paired, rule, f"{modname.split('.')[-1]}:{fn.name}: {recv}.{side}.remove({arg})", f"{ctx.path(modname)}:{st.lineno}",
                                      "no matching removal", f"{arg}.{other}.remove({recv})", why="an edge must be removed in both directions")
    real.count("edge pairing sites", n)
    if n < 12:
        real.note(f"R-PAIR: only {n} edge pairing sites recognised (12 on the tree this rule was written for)")


def rule_pass_order(ctx, rep):
    soft = _Soft(ctx, rep, "R-ORDER")
    try:
        _rule_pass_order(ctx, rep, soft)
    finally:
        soft.flush()


def _rule_pass_order(ctx, rep, soft):
    rule = "R-ORDER"
    rep.rule(rule, "in every function that builds a graph: first_pass, second_pass, create_bb, fourth_pass are called unconditionally and in this order "
                   "(this makes next[0] the fall-through and next[1] the jump target)")
    names = ["first_pass", "second_pass", "create_bb", "fourth_pass"]
    found = 0
    for modname in (PT, PF):
        tree = ctx.tree(modname)
        for fn in [f for f in tree.body if isinstance(f, ast.FunctionDef)]:
            sites = G.walk(fn)
            pos = {}
            for k, s in enumerate(sites):
                for c in G.calls_in(s.stmt) if not isinstance(s.stmt, (ast.If, ast.For, ast.While, ast.FunctionDef, ast.Try, ast.With)) else []:
                    if isinstance(c.func, ast.Name) and c.func.id in names:
                        pos.setdefault(c.func.id, []).append((k, s))
            if not pos:
                continue
            found += 1
            ok = all(len(pos.get(nm, [])) == 1 for nm in names)
            order = [pos[nm][0][0] for nm in names] if ok else []
            uncond = ok and all(not pos[nm][0][1].guards and not pos[nm][0][1].loops for nm in names)
            soft.check(ok and order == sorted(order) and uncond, rule, f"{modname.split('.')[-1]}:{fn.name}", f"{ctx.path(modname)}:{fn.lineno}",
                      {nm: [p[0] for p in pos.get(nm, [])] for nm in names}, "each pass once, unconditionally, in order")
    if found < 2:
        rep.note("R-ORDER: fewer than two functions call the parser passes directly (the pass structure was refactored); T-FLOW / T-CFG decide the successor order")
    # create_bb itself: default edge before any jump edge is guaranteed by create_bb (adds default edges) preceding fourth_pass (adds jump edges)


def rule_successor_dedup(ctx, rep):
    from ..report import AnalysisError
    soft = _Soft(ctx, rep, "R-DEDUP")
    try:
        _rule_successor_dedup(ctx, rep, soft)
    except AnalysisError as e:
        rep.note(f"R-DEDUP not applicable ({e}); duplicate-freedom of successor lists is decided by T-CFG")
    finally:
        soft.flush()


def _rule_successor_dedup(ctx, rep, soft):
    rule = "R-DEDUP"
    rep.rule(rule, "every jump edge added between blocks is guarded by a `not in` test of the successor list (duplicate-free successor lists: "
                   "premise of 'no path is reported twice')")
    fn = ctx.func(PT, "fourth_pass")
    sites = G.walk(fn)
    n = 0
    for s in sites:
        st = s.stmt
        if isinstance(st, ast.Expr) and isinstance(st.value, ast.Call) and isinstance(st.value.func, ast.Attribute) and st.value.func.attr == "add_next":
            recv, arg = ast.unparse(st.value.func.value), ast.unparse(st.value.args[0])
            guarded = any(pol and isinstance(t, ast.Compare) and isinstance(t.ops[0], ast.NotIn) and ast.unparse(t.left) == arg
                          and ast.unparse(t.comparators[0]) == f"{recv}.next" for t, pol in s.guards)
            n += 1
            soft.check(guarded, rule, "fourth_pass jump edge", f"{ctx.path(PT)}:{st.lineno}", [ast.unparse(t) for t, _ in s.guards], f"{arg} not in {recv}.next")
    if n < 1:
        rep.note("R-DEDUP: no add_next call found in fourth_pass (refactored); T-CFG decides duplicate-freedom")


EDGE_ATTRS = {"next", "prev", "_next", "_prev"}
OWN_ATTRS = {"idx", "_idx", "bb", "_bb", "_instructions", "called_subroutine", "_called_subroutine"}


def rule_edge_ownership(ctx, rep):
    rule = "R-OWN"
    rep.rule(rule, "only the parser modules and the methods of BasicBlock/Instruction write successor/predecessor lists, block ids and "
                   "instruction->block links")
    allowed = {PT, PF, "tealer.teal.basic_blocks", "tealer.teal.instructions.instructions"}
    n = 0
    for modname, tree in ctx.trees.items():
        for node in ast.walk(tree):
            hit = None
            if isinstance(node, ast.Call) and isinstance(node.func, ast.Attribute):
                if node.func.attr in MUTATORS and isinstance(node.func.value, ast.Attribute) and node.func.value.attr in EDGE_ATTRS:
                    hit = ast.unparse(node)[:80]
                if node.func.attr in ("add_next", "add_prev", "add_instruction"):
                    hit = ast.unparse(node)[:80]
            elif isinstance(node, (ast.Assign, ast.AugAssign)):
                tg = node.targets if isinstance(node, ast.Assign) else [node.target]
                for t in tg:
                    if isinstance(t, ast.Attribute) and t.attr in (EDGE_ATTRS | OWN_ATTRS) and not (isinstance(t.value, ast.Name) and t.value.id == "self"):
                        hit = ast.unparse(node)[:80]
                    if isinstance(t, ast.Subscript) and isinstance(t.value, ast.Attribute) and t.value.attr in EDGE_ATTRS:
                        hit = ast.unparse(node)[:80]
            if hit is None:
                continue
            n += 1
            rep.check(modname in allowed, rule, f"{modname}: {hit}", f"{ctx.path(modname)}:{node.lineno}", modname, sorted(allowed),
                      why="graph structure is written outside the modules that own it")
    rep.count("graph-structure writes", n)
    rep.require(n >= 20, f"only {n} graph-structure writes found")


def rule_global_edges_inverse(ctx, rep):
    rule = "T-GLOBAL"
    rep.rule(rule, "next_blocks_global and prev_blocks_global are mutually inverse on abstract call/return neighbourhoods; leaf_block_global = "
                   "no successors and neither callsub nor retsub")
    from .generic_tables import _callgraph, _loopgraph
    w = ctx.world
    A = "tealer.utils.analyses"
    nb, pb, lf = w.func(A, "next_blocks_global"), w.func(A, "prev_blocks_global"), w.func(A, "leaf_block_global")
    where = ctx.path(A)
    for name, kw in (("call/return", {}), ("return point is also a jump target", {"extra_jump": True}), ("two call sites", {"two_callers": True}),
                     ("callee never returns", {"callee_returns": False}),
                     ("return point is also a jump target and the callee never returns", {"extra_jump": True, "callee_returns": False}),
                     ("loops back to the entry of a subroutine and of the program", {})):
        g, fn = _loopgraph(ctx) if name.startswith("loop") else _callgraph(ctx, **kw)
        tag = {id(b): n for n, b in g.blocks.items()}
        nxt = {n: sorted(tag[id(x)] for x in w.call(nb, fn, b)) for n, b in g.blocks.items()}
        prv = {n: sorted(tag[id(x)] for x in w.call(pb, fn, b)) for n, b in g.blocks.items()}
        inv = {n: sorted(m for m in nxt if n in nxt[m]) for n in nxt}
        rep.check(prv == inv, rule, f"{name}: prev = inverse of next", where, prv, inv,
                  why="a global edge that exists in one direction is missing in the other: the forward and backward analyses disagree about the graph")
        leaves = {n: w.call(lf, b) for n, b in g.blocks.items()}
        want = {n: (not w.getattr(b, "next")) and not w.getattr(b, "is_callsub_block") and not w.getattr(b, "is_retsub_block") for n, b in g.blocks.items()}
        rep.check(leaves == want, rule, f"{name}: leaf blocks", where, leaves, want)
        if name.startswith("loop"):
            continue
        # expected successor kinds
        want_next = {"C": ["F0"], "F1": ["R"] if kw.get("callee_returns", True) and not kw.get("two_callers") else None}
        rep.check(nxt["C"] == ["F0"], rule, f"{name}: callsub -> callee entry", where, nxt["C"], ["F0"])
        if kw.get("callee_returns", True):
            rp = ["R", "R2"] if kw.get("two_callers") else ["R"]
            rep.check(nxt["F1"] == rp, rule, f"{name}: retsub -> return points", where, nxt["F1"], rp)


def rule_global_edges_programs(ctx, rep):
    rule = "T-GLOBAL(programs)"
    rep.rule(rule, "on the functions built from the program shape classes: prev_blocks_global is the inverse of next_blocks_global (every global "
                   "edge exists in both directions), and the global successors are the reference's (callsub -> callee entry, retsub -> return "
                   "points of the call sites, block successors otherwise)")
    w = ctx.world
    A = "tealer.utils.analyses"
    nb, pb = w.func(A, "next_blocks_global"), w.func(A, "prev_blocks_global")
    w.module(PF).values["_apply_transaction_context_analysis"] = ("builtin", "noop")
    cf, pt = w.func(PF, "construct_function"), w.func(PT, "parse_teal")
    where = ctx.path(A)
    extra = {"return point that is a jump target, the callee never returns":
             "#pragma version 6\ntxn Amount\nbz approve\ncallsub reject\napprove:\nint 1\nreturn\nreject:\nint 0\nreturn\n",
             "return point that is a loop header, the callee never returns":
             "#pragma version 6\ntxn Amount\nbz top\ncallsub bail\ntop:\ntxn Fee\npop\ntxn Amount\nbnz top\nint 1\nreturn\nbail:\nerr\n"}
    n = 0
    for name, src in list(SHAPES.items()) + list(extra.items()):
        try:
            teal = w.call(pt, src, "c")
            fn = w.call(cf, teal, ["B0"])
            blocks = {w.getattr(b, "idx"): b for b in w.getattr(fn, "blocks")}

            def tables():
                out = {}
                for sname, sub in w.getattr(fn, "subroutines").items():
                    out[sname] = ([w.getattr(x, "idx") for x in w.call(w.method(fn, "caller_blocks"), sub)],
                                  [w.getattr(x, "idx") for x in w.call(w.method(fn, "return_point_blocks"), sub)])
                return out
            before = tables()
            nxt = {i: sorted(w.getattr(x, "idx") for x in w.call(nb, fn, b)) for i, b in blocks.items()}
            prv = {i: sorted(w.getattr(x, "idx") for x in w.call(pb, fn, b)) for i, b in blocks.items()}
            nxt2 = {i: sorted(w.getattr(x, "idx") for x in w.call(nb, fn, b)) for i, b in blocks.items()}
            prv2 = {i: sorted(w.getattr(x, "idx") for x in w.call(pb, fn, b)) for i, b in blocks.items()}
            after = tables()
            rep.check(before == after and nxt == nxt2 and prv == prv2, rule, f"{name}: asking for global neighbours changes nothing", where,
                      {k: after[k] for k in after if after[k] != before.get(k)} or {"second answer differs": [i for i in prv if prv[i] != prv2[i] or nxt[i] != nxt2[i]]}, "the function's caller and return-point tables, and the answers, as before",
                      why="a query of the graph edits the function's tables (or returns a list the function keeps using)")
        except PyRaise as e:
            rep.violation(rule, f"{name}: runs", where, f"RAISES {e.exc} {e.where}", "global neighbours")
            continue
        inv = {i: sorted(m for m in nxt if i in nxt[m]) for i in nxt}
        n += 1
        rep.check(prv == inv, rule, f"{name}: prev = inverse of next", where, {i: prv[i] for i in prv if prv[i] != inv[i]}, {i: inv[i] for i in prv if prv[i] != inv[i]},
                  why="a global edge that exists in one direction is missing in the other: the forward and backward analyses disagree about the graph")
        ref = reference_cfg(ctx, src)
        callee_of = {c: s_ for s_, v in ref["subs"].items() if s_ != "__main__" for c in v["callers"]}
        sub_of = {b: s_ for s_, v in ref["subs"].items() for b in v["blocks"]}
        want = {}
        for i in blocks:
            if i not in ref["blocks"]:
                continue
            kind = ref["blocks"][i]["text"][-1].split()[0]
            if kind == "callsub" and i in callee_of:
                want[i] = [ref["subs"][callee_of[i]]["entry"]]
            elif kind == "retsub":
                want[i] = sorted(ref["subs"][sub_of[i]]["return_points"]) if sub_of.get(i, "__main__") != "__main__" else []
            else:
                want[i] = sorted(ref["blocks"][i]["next"])
        got = {i: nxt[i] for i in want}
        rep.check(got == want, rule, f"{name}: global successors", where, {i: got[i] for i in got if got[i] != want[i]}, {i: want[i] for i in got if got[i] != want[i]},
                  sample={"program": name} if n <= 6 else None)
    rep.count("functions checked", n)


def rule_call_graph(ctx, rep):
    rule = "T-CALLGRAPH"
    rep.rule(rule, "call-graph export: an edge f -> g exactly when a callsub retained in f targets g (on the abstract program shape classes)")
    w = ctx.world
    CG = "tealer.printers.call_graph"
    cls = None
    for name, st in w.module(CG).defs.items():
        if isinstance(st, ast.ClassDef):
            c = w.module(CG).lookup(name)
            if c.find("_construct_call_graph")[1] is not None:
                cls = c
    rep.require(cls is not None, "call-graph printer class not found")
    where = ctx.path(CG)
    n = 0
    for name, src in SHAPES.items():
        ref = reference_cfg(ctx, src)
        if len(ref["subs"]) <= 1:
            continue
        try:
            got, teal = tealer_cfg(ctx, src)
            pr = Obj(cls, teal=teal)
            graph = w.call(w.method(pr, "_construct_call_graph"))
        except PyRaise as e:
            rep.violation(rule, f"{name}: runs", where, f"RAISES {e.exc} {e.where}", "a graph")
            continue
        def owner(b):
            if b in ref["main"]:
                return "__main__"
            for s, info in ref["subs"].items():
                if s != "__main__" and b in info["blocks"]:
                    return s
            return "?"
        want = {s: sorted({owner(b) for b in info["callers"]}) for s, info in ref["subs"].items() if s != "__main__"}
        gotv = {k: sorted(v) for k, v in graph.items()} if isinstance(graph, dict) else graph
        n += 1
        rep.check(gotv == want, rule, f"{name}", where, gotv, want, why="call-graph edges differ from the retained call sites",
                  sample={"shape": name, "callers": want})
    rep.require(n >= 10, "fewer than 10 shapes with subroutines")


def rule_return_point_siblings(ctx, rep):
    """the three implementations of 'return point of a callsub block' agree on every successor-list shape"""
    rule = "R-SIBLING(return point)"
    rep.rule(rule, "BasicBlock.sub_return_point, Subroutine.caller_blocks (setter) and Function.__init__ compute the same return point for a "
                   "callsub block with 0 and 1 successors")
    from ..absobj import Graph
    w = ctx.world
    for nsucc in (0, 1):
        g = Graph(ctx)
        g.block("C", ["callsub f"])
        g.block("R", ["int 1", "return"])
        g.block("F0", ["f:", "retsub"])
        if nsucc:
            g.edge("C", "R")
        g.subroutine("main", "C", ["C", "R"] if nsucc else ["C"])
        g.subroutine("f", "F0", ["F0"])
        g.call("C", "f")
        fn = g.function("main", ["f"])
        a = w.getattr(g.blocks["C"], "sub_return_point")
        b = w.getattr(g.subs["f"], "return_point_blocks")
        c = w.call(w.method(fn, "return_point_blocks"), g.subs["f"])
        want = g.blocks["R"] if nsucc else None
        ok = (a is want) and (b == ([want] if want else [])) and (c == ([want] if want else []))
        rep.check(ok, rule, f"callsub block with {nsucc} successor(s)", ctx.path("tealer.teal.basic_blocks"),
                  {"sub_return_point": repr(a), "Subroutine.return_point_blocks": repr(b), "Function.return_point_blocks": repr(c)}, repr(want))
        cb = w.call(w.method(fn, "caller_blocks"), g.subs["f"])
        rep.check(len(cb) == 1 and cb[0] is g.blocks["C"], rule, f"function-level caller table ({nsucc})", ctx.path("tealer.teal.functions"), repr(cb), "[C]")
        if nsucc:
            r = g.blocks["R"]
            rep.check(w.getattr(r, "is_sub_return_point") is True and w.getattr(r, "callsub_block") is g.blocks["C"], rule,
                      "return point knows its call site", ctx.path("tealer.teal.basic_blocks"), repr(w.getattr(r, "is_sub_return_point")), True)
            rep.check(w.getattr(g.blocks["C"], "is_sub_return_point") is False, rule, "a callsub block without callsub predecessor is no return point",
                      ctx.path("tealer.teal.basic_blocks"), w.getattr(g.blocks["C"], "is_sub_return_point"), False)
