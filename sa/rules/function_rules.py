"""C12: the function cut out by a dispatch path (parse_functions.copy_main_cfg / construct_function),
evaluated abstractly on program shape classes with the context analysis phase abstracted away."""
from ..absint import Obj, Interp, PyRaise, Unsupported
from .cfg_rules import tealer_cfg, reference_cfg, SHAPES, PT, PF

DISPATCH = ("#pragma version 6\ntxn NumAppArgs\nint 0\n==\nbnz create\ntxna ApplicationArgs 0\nbyte \"a\"\n==\nbnz m_a\n"
            "txna ApplicationArgs 0\nbyte \"b\"\n==\nbnz m_b\nerr\ncreate:\nint 1\nreturn\nm_a:\ncallsub f\nint 1\nreturn\n"
            "m_b:\ncallsub g\nint 1\nreturn\nf:\ncallsub g\nretsub\ng:\nretsub\nunused:\ncallsub h\nerr\nh:\nretsub\n")
LOOPY = "#pragma version 6\nint 0\nloop:\ndup\nint 3\n<\nbz out\nint 1\n+\nb loop\nout:\ncallsub f\nint 1\nreturn\nf:\nretsub\n"


def _summary(ctx, blocks):
    """{idx: (lines, texts, next idx list, sorted prev idx list)} of a list of block objects"""
    w = ctx.world
    it = Interp(w.module(PT))
    out = {}
    for b in blocks:
        ins = w.getattr(b, "instructions")
        out[w.getattr(b, "idx")] = {"lines": [w.getattr(i, "line") for i in ins], "text": [" ".join(it.to_str(i).split()) for i in ins],
                                    "next": [w.getattr(x, "idx") for x in w.getattr(b, "next")],
                                    "prev": sorted(w.getattr(x, "idx") for x in w.getattr(b, "prev"))}
    return out


def _teal_snapshot(ctx, teal):
    w = ctx.world
    s = _summary(ctx, w.getattr(teal, "bbs"))
    subs = {n: sorted(w.getattr(b, "idx") for b in w.getattr(sub, "blocks")) for n, sub in w.getattr(teal, "subroutines").items()}
    ident = {w.getattr(b, "idx"): id(b) for b in w.getattr(teal, "bbs")}
    owner = {w.getattr(b, "idx"): w.getattr(w.getattr(b, "subroutine"), "name") for b in w.getattr(teal, "bbs")}
    main = sorted(w.getattr(b, "idx") for b in w.getattr(w.getattr(teal, "main"), "blocks"))
    # the contract's own caller / return-point tables (block objects, not only ids: a copy of a block is a different block)
    callers = {n: [(w.getattr(b, "idx"), id(b)) for b in w.getattr(sub, "caller_blocks")] for n, sub in w.getattr(teal, "subroutines").items()}
    rpoints = {n: [(w.getattr(b, "idx"), id(b)) for b in w.getattr(sub, "return_point_blocks")] for n, sub in w.getattr(teal, "subroutines").items()}
    names = {n: w.getattr(sub, "name") for n, sub in w.getattr(teal, "subroutines").items()}
    call_targets = {w.getattr(b, "idx"): id(w.getattr(b, "called_subroutine")) for b in w.getattr(teal, "bbs") if w.getattr(b, "is_callsub_block")}
    return {"blocks": s, "subs": subs, "ident": ident, "owner": owner, "main": main, "n_ins": len(w.getattr(teal, "instructions")),
            "callers": callers, "return points": rpoints, "subroutine names": names, "call targets": call_targets}


def _stub_analysis(ctx):
    mod = ctx.world.module(PF)
    mod.values["_apply_transaction_context_analysis"] = ("builtin", "noop")


def rule_function_construction(ctx, rep):
    rule = "T-FUNCTION"
    rep.rule(rule, "copy_main_cfg / construct_function on program shape classes: with path [B0] the function's main graph is isomorphic to the "
                   "contract's (ids, text, lines, edges), made of fresh block objects, sharing the subroutine blocks; for longer paths every "
                   "departure before the last path block leads to a block holding only the custom error instruction, symmetric edges, the last "
                   "block keeps its successors; the contract's own graph is unchanged and a second function does not depend on the first")
    w = ctx.world
    _stub_analysis(ctx)
    cf = w.func(PF, "construct_function")
    cm = w.func(PF, "copy_main_cfg")
    pt = w.func(PT, "parse_teal")
    where = ctx.path(PF)
    programs = {"dispatcher": DISPATCH, "loop then call": LOOPY}
    for k in ("diamond", "subroutine called twice", "nested subroutines", "bz to the next line", "dead code in a subroutine region",
              "switch with repeated label", "return point that is a jump target", "comments and blank lines", "callsub as last instruction",
              "mutual recursion", "recursive subroutine"):
        programs[k] = SHAPES[k]
    # a subroutine reached through two callers (diamond in the call graph) is included once; an uncalled one not at all
    programs["shared callee of two subroutines"] = ("#pragma version 6\ncallsub f\ncallsub g\nint 1\nreturn\nf:\ncallsub h\nretsub\ng:\ncallsub h\ncallsub f\nretsub\n"
                                                     "h:\ntxn Amount\npop\nretsub\nunused:\nretsub\n")
    ERR = w.cls("tealer.teal.instructions.instructions", "TealerCustomErrInstruction")
    n = 0
    for name, src in programs.items():
        try:
            teal = w.call(pt, src, "c")
            before = _teal_snapshot(ctx, teal)
            fn = w.call(cf, teal, ["B0"])
        except PyRaise as e:
            rep.violation(rule, f"{name}: [B0] builds", where, f"RAISES {e.exc} {e.where}", "a function")
            continue
        after = _teal_snapshot(ctx, teal)
        rep.check(before == after, rule, f"{name}: contract graph unchanged by construct_function", where,
                  {k: after[k] for k in after if after[k] != before[k]}, "unchanged", why="building a function must not alter the contract's own graph")
        fblocks = list(w.getattr(fn, "blocks"))
        fmain = w.getattr(fn, "main")
        fmain_blocks = list(w.getattr(fmain, "blocks"))
        got_main = _summary(ctx, fmain_blocks)
        want_main = {i: before["blocks"][i] for i in before["main"]}
        rep.check(got_main == want_main, rule, f"{name}: [B0] main graph isomorphic", where, got_main, want_main,
                  why="the copy of the main graph differs from the contract's main graph (ids, lines, text or edges)",
                  sample={"program": name, "main blocks": sorted(want_main)})
        fresh = all(id(b) != before["ident"].get(w.getattr(b, "idx")) for b in fmain_blocks)
        rep.check(fresh, rule, f"{name}: main blocks are copies", where, "a main block of the function is the contract's own object", "fresh objects")
        # subroutine blocks are shared; exactly the subroutines reachable from main by calls are included
        used = set()
        work = [i for i in before["main"]]
        ref = reference_cfg(ctx, src)
        def callees(bidx):
            t = before["blocks"][bidx]["text"][-1].split()
            return [t[1]] if t[0] == "callsub" else []
        todo = [c for i in before["main"] for c in callees(i)]
        while todo:
            s = todo.pop()
            if s in used:
                continue
            used.add(s)
            todo += [c for i in before["subs"][s] for c in callees(i)]
        got_subs = sorted(w.getattr(fn, "subroutines"))
        rep.check(got_subs == sorted(used), rule, f"{name}: used-subroutine closure", where, got_subs, sorted(used))
        shared = all(id(b) == before["ident"].get(w.getattr(b, "idx")) for b in fblocks if not any(b is m for m in fmain_blocks))
        rep.check(shared, rule, f"{name}: subroutine blocks are shared", where, "a subroutine block of the function is not the contract's object", "shared")
        want_all = sorted(before["main"] + [i for s in used for i in before["subs"][s]])
        rep.check(len(fblocks) == len({id(b) for b in fblocks}), rule, f"{name}: no block listed twice", where, len(fblocks), len({id(b) for b in fblocks}))
        rep.check(sorted(w.getattr(b, "idx") for b in fblocks) == want_all, rule, f"{name}: function blocks", where,
                  sorted(w.getattr(b, "idx") for b in fblocks), want_all)
        rep.check(w.getattr(w.getattr(fn, "entry"), "idx") == 0 and all(w.getattr(b, "subroutine") is fmain for b in fmain_blocks), rule,
                  f"{name}: entry and ownership", where, w.getattr(w.getattr(fn, "entry"), "idx"), 0)
        # callsub copies know their callee (the contract's subroutine objects)
        for b in fmain_blocks:
            if w.getattr(b, "is_callsub_block"):
                cs = w.getattr(b, "called_subroutine")
                lbl = w.getattr(w.getattr(b, "exit_instr"), "label")
                rep.check(cs is w.getattr(teal, "subroutines").get(lbl), rule, f"{name}: copied callsub keeps its callee", where, repr(cs), lbl)
        # every block of the function has a context of its own
        ok_ctx = True
        for b in fblocks:
            try:
                w.call(w.method(fn, "transaction_context"), b)
            except PyRaise:
                ok_ctx = False
        rep.check(ok_ctx, rule, f"{name}: every function block has a context", where, ok_ctx, True)
        # independence: a second function from the same contract equals the first
        fn2 = w.call(cf, teal, ["B0"])
        rep.check(_summary(ctx, w.getattr(w.getattr(fn2, "main"), "blocks")) == want_main and _teal_snapshot(ctx, teal) == before, rule,
                  f"{name}: second function independent of the first", where, "differs", "equal")
        rep.check(not any(any(a is b for b in fmain_blocks) for a in w.getattr(w.getattr(fn2, "main"), "blocks")), rule,
                  f"{name}: functions do not share main blocks", where, "shared main block", "disjoint")
        n += 1
    # longer dispatch paths
    teal = w.call(pt, DISPATCH, "c")
    before = _teal_snapshot(ctx, teal)
    main_next = {i: before["blocks"][i]["next"] for i in before["main"]}
    for path in (["B0", "B1"], ["B0", "B1", "B5"], ["B0", "B1", "B2", "B7"], ["B0", "B4"], ["B0", "B1", "B2"]):
        pname = ",".join(path)
        try:
            fn = w.call(cf, teal, list(path))
        except PyRaise as e:
            rep.violation(rule, f"dispatch path {pname} builds", where, f"RAISES {e.exc} {e.where}", "a function")
            continue
        ids = [int(p[1:]) for p in path]
        fmain_blocks = list(w.getattr(w.getattr(fn, "main"), "blocks"))
        by_idx = {}
        errs = []
        for b in fmain_blocks:
            ins = w.getattr(b, "instructions")
            if len(ins) == 1 and ins[0].cls.is_sub(ERR):
                errs.append(b)
            else:
                by_idx[w.getattr(b, "idx")] = b
        problems = []
        for k, i in enumerate(ids):
            b = by_idx.get(i)
            if b is None:
                problems.append(f"path block B{i} missing from the function")
                continue
            nxt = w.getattr(b, "next")
            if k + 1 < len(ids):
                want_real = ids[k + 1]
                if len(nxt) != len(main_next[i]):
                    problems.append(f"B{i}: successor count changed")
                for pos, s in enumerate(nxt):
                    orig = main_next[i][pos] if pos < len(main_next[i]) else None
                    if any(s is e for e in errs):
                        if orig == want_real:
                            problems.append(f"B{i}: the on-path successor B{want_real} was replaced by an error block")
                        if not any(p is b for p in w.getattr(s, "prev")):
                            problems.append(f"B{i}: error successor does not list B{i} as predecessor")
                    else:
                        if w.getattr(s, "idx") != want_real:
                            problems.append(f"B{i}: off-path successor B{w.getattr(s, 'idx')} was kept")
                        if not any(p is b for p in w.getattr(s, "prev")):
                            problems.append(f"B{i}: on-path successor lost its predecessor link")
            else:
                if [w.getattr(s, "idx") for s in nxt] != main_next[i] or any(any(s is e for e in errs) for s in nxt):
                    problems.append(f"last path block B{i}: successors changed to {[w.getattr(s, 'idx') for s in nxt]}")
        # blocks reachable only through a replaced edge must not list the path block as predecessor any more
        for i, b in by_idx.items():
            for p in w.getattr(b, "prev"):
                if not any(b is s for s in w.getattr(p, "next")):
                    problems.append(f"B{i} lists B{w.getattr(p, 'idx')} as predecessor but is not its successor")
        rep.check(not problems, rule, f"dispatch path {pname}", where, problems[:6], [],
                  why="departures from the dispatch path before its last block must lead to error blocks, and only those",
                  sample={"path": path, "error blocks": len(errs)})
        rep.check(_teal_snapshot(ctx, teal) == before, rule, f"dispatch path {pname}: contract unchanged", where, "changed", "unchanged")
        n += 1
    # a departure that rejoins the function body further down: the cut-off block must not remain a predecessor of a function block
    REJOIN = "#pragma version 6\ntxn NumAppArgs\nbnz two\nint 1\npop\nb join\ntwo:\nint 2\npop\njoin:\nint 1\nreturn\n"
    teal3 = w.call(pt, REJOIN, "c")
    for path in (["B0", "B2"], ["B0", "B1"], ["B0", "B2", "B3"]):
        try:
            fn = w.call(cf, teal3, list(path))
            fb = list(w.getattr(fn, "blocks"))
            strangers = sorted({(w.getattr(b, "idx"), w.getattr(pb, "idx")) for b in fb for pb in w.getattr(b, "prev") if not any(pb is x for x in fb)}
                               | {(w.getattr(b, "idx"), w.getattr(nb, "idx")) for b in fb for nb in w.getattr(b, "next") if not any(nb is x for x in fb)})
            rep.check(not strangers, rule, f"dispatch path {','.join(path)} with a departure that rejoins the body", where, strangers, [],
                      why="a block that is not part of the function is still a neighbour of a function block: the analysis looks it up and fails")
        except PyRaise as e:
            rep.violation(rule, f"dispatch path {','.join(path)} (rejoining departure) builds", where, f"RAISES {e.exc} {e.where}", "a function")
    # two departures that lead to the same cut-off block
    COMMON = "#pragma version 6\ntxn NumAppArgs\nbz reject\ntxna ApplicationArgs 0\nbyte \"a\"\n==\nbz reject\ntxn Fee\nbz reject\nint 1\nreturn\nreject:\nerr\n"
    teal4 = w.call(pt, COMMON, "c")
    for path in (["B0", "B1", "B2"], ["B0", "B1", "B2", "B3"]):
        try:
            fn = w.call(cf, teal4, list(path))
            fb = list(w.getattr(fn, "blocks"))
            nerr = 0
            problems = []
            for b in fb:
                ins = w.getattr(b, "instructions")
                if len(ins) == 1 and ins[0].cls.is_sub(ERR):
                    nerr += 1
                try:
                    w.call(w.method(fn, "transaction_context"), b)
                    w.getattr(b, "subroutine")
                except PyRaise as e:
                    problems.append(f"block B{w.getattr(b, 'idx')}: {e.exc}")
                for nb in w.getattr(b, "next"):
                    if not any(nb is x for x in fb):
                        problems.append(f"successor B{w.getattr(nb, 'idx')} of B{w.getattr(b, 'idx')} is not a block of the function")
            want_err = len(path) - 1
            rep.check(not problems and nerr == want_err, rule, f"dispatch path {','.join(path)} with departures to a common block", where,
                      {"error blocks": nerr, "problems": problems[:3]}, {"error blocks": want_err, "problems": []},
                      why="every departure gets its own error block, and every block reachable in the function belongs to it")
        except PyRaise as e:
            rep.violation(rule, f"dispatch path {','.join(path)} (common departure target) builds", where, f"RAISES {e.exc} {e.where}", "a function")
    # a path block with a direct edge that skips part of the path: the skipping edge is a departure too
    SKIP = "#pragma version 6\ntxn NumAppArgs\nbnz body\ntxn OnCompletion\nint OptIn\n==\nassert\nbody:\nint 1\nreturn\n"
    teal2 = w.call(pt, SKIP, "c")
    try:
        fn = w.call(cf, teal2, ["B0", "B1", "B2"])
        fm = {w.getattr(b, "idx"): b for b in w.getattr(w.getattr(fn, "main"), "blocks")}
        b0n = w.getattr(fm[0], "next")
        kinds = ["err" if (len(w.getattr(x, "instructions")) == 1 and w.getattr(x, "instructions")[0].cls.is_sub(ERR)) else w.getattr(x, "idx") for x in b0n]
        prev2 = sorted(w.getattr(x, "idx") for x in w.getattr(fm[2], "prev")) if 2 in fm else None
        rep.check(kinds == [1, "err"] and prev2 == [1], rule, "dispatch path B0,B1,B2 with an edge B0->B2 that skips B1", where, {"B0.next": kinds, "B2.prev": prev2},
                  {"B0.next": [1, "err"], "B2.prev": [1]}, why="an edge from a path block to a later path block that is not its immediate successor departs from the path")
    except PyRaise as e:
        rep.violation(rule, "dispatch path with a skipping edge builds", where, f"RAISES {e.exc} {e.where}", "a function")
    for bad in (["B0", "B5"], ["B1"], ["B0", "B1", "B0"]):
        try:
            w.call(cf, teal, list(bad))
            got = "accepted"
        except PyRaise as e:
            got = f"rejected ({e.exc})"
        rep.check(got.startswith("rejected"), rule, f"invalid dispatch path {','.join(bad)} rejected", where, got, "rejected")
    rep.count("function constructions", n)
