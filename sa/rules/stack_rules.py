"""C11.2: stack discipline of construct_stack_ast against a reference stack machine written from the AVM semantics."""
import itertools

from ..absint import Obj, Interp, PyRaise, Unsupported
from ..absobj import Builder

SAB = "tealer.analyses.utils.stack_ast_builder"
SHUFFLES = ("pop", "dup", "dup2", "swap", "select", "dig", "cover", "uncover", "bury", "popn", "dupn", "frame_dig", "frame_bury", "proto")


def reference_stack(ctx, lines):
    """AVM stack after each instruction; entries are tags (producer line index, output index), 'below' for values from before the block,
    or ('opaque', k) for a value whose producer cannot be named (select result, frame slots)"""
    spec = {}
    for op in ctx.spec("avm_ops.json")["opcodes"]:
        spec.setdefault(op["mnemonic"], []).append(op)
    stack = []
    args_of = {}

    def pop():
        return stack.pop() if stack else "below"

    for k, line in enumerate(lines):
        toks = line.split()
        mn = toks[0]
        n = int(toks[1]) if len(toks) > 1 and toks[1].isdigit() else None
        if mn == "pop":
            args_of[k] = [pop()]
        elif mn == "popn":
            args_of[k] = [pop() for _ in range(n)][::-1]
        elif mn == "dup":
            a = pop(); args_of[k] = [a]; stack += [a, a]
        elif mn == "dup2":
            b = pop(); a = pop(); args_of[k] = [a, b]; stack += [a, b, a, b]
        elif mn == "dupn":
            a = pop(); args_of[k] = [a]; stack += [a] * (n + 1)
        elif mn == "swap":
            b = pop(); a = pop(); args_of[k] = [a, b]; stack += [b, a]
        elif mn == "dig":
            vals = [pop() for _ in range(n + 1)][::-1]; args_of[k] = vals; stack += vals + [vals[0]]
        elif mn == "cover":
            vals = [pop() for _ in range(n + 1)][::-1]; args_of[k] = vals; stack += [vals[-1]] + vals[:-1]
        elif mn == "uncover":
            vals = [pop() for _ in range(n + 1)][::-1]; args_of[k] = vals; stack += vals[1:] + [vals[0]]
        elif mn == "bury":
            vals = [pop() for _ in range(n + 1)][::-1]; args_of[k] = vals
            stack += [vals[-1]] + vals[1:-1] if n >= 1 else []
        elif mn == "select":
            vals = [pop() for _ in range(3)][::-1]; args_of[k] = vals; stack.append(("opaque", k))
        else:
            cands = spec.get(mn)
            if not cands:
                raise Unsupported(f"reference stack: unknown opcode {mn}")
            op = cands[0]
            env = {"imm0": n or 0, "len": len(toks) - 1}
            pops = eval(op["pops"], {}, env)
            pushes = eval(op["pushes"], {}, env)
            args_of[k] = [pop() for _ in range(pops)][::-1]
            stack += [(k, j) for j in range(pushes)]
    return args_of


def rule_stack_discipline(ctx, rep, full=True):
    rule = "T-STACK"
    rep.rule(rule, "construct_stack_ast against a reference AVM stack machine on straight-line blocks (4 distinct producers, then every "
                   "stack-shuffling opcode with n in 0..3, singly and in pairs, then a consumer): whenever tealer names a producing "
                   "instruction for an operand, it is the instruction that really pushed that operand, in the right output position; operands from "
                   "before the block are 'unknown'; argument lists are in push order and as long as the consumer's pop count")
    w = ctx.world
    b = Builder(ctx)
    where = ctx.path(SAB)
    producers = ["txn RekeyTo", "gtxn 1 RekeyTo", "global ZeroAddress", "int 7"]
    shuf = ["pop", "dup", "dup2", "swap", "select"] + [f"{m} {n}" for m in ("dig", "cover", "uncover", "bury", "dupn", "popn") for n in range(0, 4)]
    shuf = [s for s in shuf if s != "bury 0"]
    consumers = ["==", "setbit", "assert", "mulw", "+"]
    seqs = [[s] for s in shuf] + ([[a, c] for a in shuf for c in ("swap", "cover 2", "uncover 2", "dup", "dig 1", "pop")] if full else [])
    if not full:
        consumers = ["==", "setbit"]
    n = 0
    for npush in (4, 2, 0):
        for seq, cons in itertools.product(seqs, consumers):
            if npush != 4 and (len(seq) > 1 or cons not in ("==", "setbit")):
                continue
            lines = producers[:npush] + seq + [cons]
            try:
                ref = reference_stack(ctx, lines)
                bb, objs = b.block(lines)
                sv = b.stack_value(objs[-1])
                args = w.getattr(sv, "args")
            except PyRaise as e:
                rep.violation(rule, " ; ".join(lines[npush:]), where, f"RAISES {e.exc} {e.where}", "stack values")
                continue
            want = ref[len(lines) - 1]
            problems = []
            if len(args) != len(want):
                problems.append(f"{len(args)} operands reconstructed, the consumer pops {len(want)}")
            shuffle_idx = {k for k, l in enumerate(lines) if l.split()[0] in SHUFFLES}
            for pos, (a, t) in enumerate(zip(args, want)):
                if b.is_unknown(a):
                    if t != "below" and not (isinstance(t, tuple) and t[0] == "opaque"):
                        # imprecise, not wrong - unless the value is known to come from inside the block and nothing shuffled it
                        if not shuffle_idx:
                            problems.append(f"operand {pos}: reported unknown but pushed by line {t[0]}")
                    continue
                ins = w.getattr(a, "instruction")
                k = next((i for i, o in enumerate(objs) if o is ins), None)
                oi = w.getattr(a, "ins_out_values_index")
                if k is None:
                    problems.append(f"operand {pos}: producer is not an instruction of the block")
                elif k in shuffle_idx:
                    continue   # value attributed to the shuffling instruction itself: opaque, never credited to a field
                elif t == "below":
                    problems.append(f"operand {pos}: attributed to '{lines[k]}' but it comes from before the block")
                elif isinstance(t, tuple) and t[0] == "opaque":
                    problems.append(f"operand {pos}: attributed to '{lines[k]}' but it is the result of line {t[1]}")
                elif (k, oi) != t:
                    problems.append(f"operand {pos}: attributed to '{lines[k]}'[{oi}] but really pushed by '{lines[t[0]]}'[{t[1]}]")
            n += 1
            rep.check(not problems, rule, f"[{npush} producers] {' ; '.join(lines[npush:])}", where, problems[:3], [],
                      why="an operand is attributed to an instruction that did not push it: a comparison would be credited to the wrong field",
                      sample={"block": lines, "operands": [str(t) for t in want]})
    # order of operands and multi-output indices
    bb, objs = b.block(["int 1", "int 2", "mulw", "-"])
    sv = b.stack_value(objs[-1])
    args = w.getattr(sv, "args")
    ok = len(args) == 2 and all(w.getattr(a, "instruction") is objs[2] for a in args) and [w.getattr(a, "ins_out_values_index") for a in args] == [0, 1]
    rep.check(ok, rule, "outputs of a two-output opcode keep their order", where, [repr(a) for a in args], "mulw[0], mulw[1]")
    bb, objs = b.block(["txn Fee", "int 5", "-"])
    args = w.getattr(b.stack_value(objs[-1]), "args")
    rep.check(w.getattr(args[0], "instruction") is objs[0] and w.getattr(args[1], "instruction") is objs[1], rule, "args[0] is the first pushed operand", where, "order", "push order")
    bb, objs = b.block(["int 5", "-"])
    args = w.getattr(b.stack_value(objs[-1]), "args")
    rep.check(b.is_unknown(args[0]) and w.getattr(args[1], "instruction") is objs[0], rule, "unknown operands pad the bottom", where, "order", "unknown first")
    rep.count("straight-line blocks compared", n)
    rep.require(n >= (800 if full else 100), f"only {n} blocks")
