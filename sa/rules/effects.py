"""C14: effects and aliasing rules over the whole package (pure syntax-tree analyses).

* E-SHARED  - module-level / class-level mutable containers ("shared roots") are never mutated after module
              initialisation, directly or through an alias (flow-insensitive, interprocedural taint with
              copy constructors as sanitisers and per-function summaries "returns shared" / "mutates parameter k");
* E-ORDER   - a set whose iteration order depends on the interpreter's hash seed (sets of str or of
              identity-hashed objects) is sorted before it is stored in an observable;
* R-OWN(ctx)- only the analyses' result writers and the context classes write context attributes.
"""
import ast

from .. import guards as G

MUTATORS = {"append", "extend", "insert", "remove", "pop", "clear", "add", "discard", "update", "sort", "reverse", "popitem", "setdefault",
            "difference_update", "intersection_update", "symmetric_difference_update", "__setitem__", "__delitem__"}
COPIERS = {"list", "set", "dict", "tuple", "sorted", "frozenset", "deepcopy", "copy", "reversed", "enumerate", "zip", "map", "filter", "len",
           "str", "int", "bool", "any", "all", "max", "min", "sum", "repr", "isinstance", "range", "print", "format", "hash", "id", "type"}
CONTAINER_CALLS = {"list", "dict", "set", "defaultdict", "OrderedDict", "deque"}


def _is_container_display(v):
    if isinstance(v, (ast.List, ast.Dict, ast.Set, ast.ListComp, ast.DictComp, ast.SetComp)):
        return True
    if isinstance(v, ast.Call) and isinstance(v.func, ast.Name) and v.func.id in CONTAINER_CALLS:
        return True
    return False


class Shared:
    """whole-package model for E-SHARED"""

    def __init__(self, trees):
        self.trees = trees
        self.mod_roots = {}      # (module, name) -> node
        self.cls_roots = {}      # (module, class, attr) -> node
        self.imports = {}        # module -> {local name: (module, name)}
        self.classes = {}        # class name -> [(module, ClassDef)]
        self.funcs = {}          # (module, qualname) -> FunctionDef
        self.by_name = {}        # simple function name -> [(module, qualname)]
        self._index()
        self.returns_shared = {}     # func key -> root description
        self.mutates_param = {}      # func key -> {param index: description}

    def _index(self):
        for m, t in self.trees.items():
            imp = {}
            for st in ast.walk(t):
                if isinstance(st, ast.ImportFrom) and st.module:
                    for a in st.names:
                        imp[a.asname or a.name] = (st.module, a.name)
            self.imports[m] = imp
            for st in t.body:
                self._root_stmt(m, None, st)
                if isinstance(st, ast.ClassDef):
                    self.classes.setdefault(st.name, []).append((m, st))
                    for cs in st.body:
                        self._root_stmt(m, st.name, cs)

            def rec(node, prefix):
                for ch in ast.iter_child_nodes(node):
                    if isinstance(ch, ast.FunctionDef):
                        q = f"{prefix}{ch.name}"
                        self.funcs[(m, q)] = ch
                        self.by_name.setdefault(ch.name, []).append((m, q))
                        rec(ch, q + ".")
                    elif isinstance(ch, ast.ClassDef):
                        rec(ch, f"{prefix}{ch.name}.")
                    else:
                        rec(ch, prefix)
            rec(t, "")
        # aliases of roots at module / class level:  UNIVERSAL_SETS = universal_sets
        changed = True
        while changed:
            changed = False
            for m, t in self.trees.items():
                for st in t.body:
                    changed |= self._alias_stmt(m, None, st)
                    if isinstance(st, ast.ClassDef):
                        for cs in st.body:
                            changed |= self._alias_stmt(m, st.name, cs)

    def _targets(self, st):
        if isinstance(st, ast.Assign):
            return [t for t in st.targets if isinstance(t, ast.Name)], st.value
        if isinstance(st, ast.AnnAssign) and st.value is not None and isinstance(st.target, ast.Name):
            return [st.target], st.value
        return [], None

    def _root_stmt(self, m, cls, st):
        tg, v = self._targets(st)
        if v is not None and _is_container_display(v):
            for t in tg:
                if cls is None:
                    self.mod_roots[(m, t.id)] = st
                else:
                    self.cls_roots[(m, cls, t.id)] = st

    def _alias_stmt(self, m, cls, st):
        tg, v = self._targets(st)
        if v is None or not isinstance(v, ast.Name):
            return False
        src = self.resolve_name(m, v.id)
        if src is None:
            return False
        ch = False
        for t in tg:
            key = (m, t.id) if cls is None else (m, cls, t.id)
            table = self.mod_roots if cls is None else self.cls_roots
            if key not in table:
                table[key] = st
                ch = True
        return ch

    def resolve_name(self, m, name):
        if (m, name) in self.mod_roots:
            return f"{m}.{name}"
        imp = self.imports.get(m, {}).get(name)
        if imp and (imp[0], imp[1]) in self.mod_roots:
            return f"{imp[0]}.{imp[1]}"
        return None

    def class_attr_root(self, attr):
        for (m, c, a) in self.cls_roots:
            if a == attr:
                return f"{m}.{c}.{a}"
        return None


def _fresh(e):
    """expression certainly evaluates to a fresh object (or to something that is not a container)"""
    if isinstance(e, (ast.List, ast.Dict, ast.Set, ast.ListComp, ast.DictComp, ast.SetComp, ast.GeneratorExp, ast.Constant, ast.JoinedStr,
                      ast.Tuple, ast.Compare, ast.BoolOp, ast.UnaryOp, ast.Lambda)):
        return True
    if isinstance(e, ast.BinOp):
        return True
    if isinstance(e, ast.Subscript) and isinstance(e.slice, ast.Slice):
        return True
    if isinstance(e, ast.Call):
        f = e.func
        if isinstance(f, ast.Name) and f.id in COPIERS | CONTAINER_CALLS:
            return True
        if isinstance(f, ast.Attribute) and f.attr in ("copy", "keys", "items", "union", "intersection", "difference", "split", "join", "format", "strip"):
            return True
    return False


class FuncTaint:
    """taint of local names inside one function; sources: shared roots, tainted parameters, calls returning shared"""

    def __init__(self, model, m, q, fn):
        self.M, self.m, self.q, self.fn = model, m, q, fn
        self.params = [a.arg for a in fn.args.posonlyargs + fn.args.args]
        self.taint = {}          # local name -> description of the shared object it may alias
        self.ptaint = {}         # local name -> parameter index it may alias
        self.nested = {n for n in ast.walk(fn) if isinstance(n, (ast.FunctionDef, ast.Lambda)) and n is not fn}

    def own_nodes(self):
        skip = set()
        for n in self.nested:
            for x in ast.walk(n):
                if x is not n:
                    skip.add(x)
        for n in ast.walk(self.fn):
            if n not in skip and n is not self.fn:
                yield n

    def src(self, e):
        """(shared description or None, parameter index or None) the expression may alias"""
        if _fresh(e):
            return None, None
        if isinstance(e, ast.Name):
            if e.id in self.taint or e.id in self.ptaint:
                return self.taint.get(e.id), self.ptaint.get(e.id)
            if e.id in self.params:
                return None, None
            return self.M.resolve_name(self.m, e.id), None
        if isinstance(e, ast.Attribute):
            if isinstance(e.value, ast.Name) and e.value.id in ("self", "cls") or (isinstance(e.value, ast.Name) and e.value.id in self.M.classes):
                r = self.M.class_attr_root(e.attr)
                if r:
                    return r, None
            return None, None
        if isinstance(e, ast.Subscript):
            s, p = self.src(e.value)
            return (s + "[...]" if s else None), p
        if isinstance(e, ast.Call):
            f = e.func
            if isinstance(f, ast.Attribute) and f.attr in ("get", "values", "setdefault", "pop"):
                s, p = self.src(f.value)
                return (s + "[...]" if s else None), p
            # calls returning a shared object
            name = f.id if isinstance(f, ast.Name) else f.attr if isinstance(f, ast.Attribute) else None
            for key in self.M.by_name.get(name, []):
                if key in self.M.returns_shared:
                    return self.M.returns_shared[key], None
            return None, None
        if isinstance(e, ast.IfExp):
            a, b = self.src(e.body), self.src(e.orelse)
            return a[0] or b[0], a[1] if a[1] is not None else b[1]
        if isinstance(e, ast.NamedExpr):
            return self.src(e.value)
        return None, None

    def run(self):
        """returns (violations, returns_shared, mutates_param)"""
        for i, p in enumerate(self.params):
            self.ptaint[p] = i
        changed = True
        rounds = 0
        while changed and rounds < 10:
            changed = False
            rounds += 1
            for n in self.own_nodes():
                pairs = []
                if isinstance(n, ast.Assign):
                    pairs = [(t, n.value) for t in n.targets]
                elif isinstance(n, ast.AnnAssign) and n.value is not None:
                    pairs = [(n.target, n.value)]
                elif isinstance(n, (ast.For, ast.comprehension)):
                    it = n.iter
                    if isinstance(it, ast.Call) and isinstance(it.func, ast.Attribute) and it.func.attr in ("values", "items"):
                        it = it.func.value
                    elif isinstance(it, ast.Call) and isinstance(it.func, ast.Name) and it.func.id == "enumerate" and it.args:
                        it = it.args[0]
                    s, p = self.src(it) if not _fresh(it) else (None, None)
                    if s or p is not None:
                        for t in ast.walk(n.target):
                            if isinstance(t, ast.Name):
                                if s and self.taint.get(t.id) is None:
                                    self.taint[t.id] = s + "[...]"
                                    changed = True
                                if p is not None and t.id not in self.ptaint and t.id not in self.params:
                                    self.ptaint[t.id] = p
                                    changed = True
                    continue
                for t, v in pairs:
                    if isinstance(t, ast.Name):
                        s, p = self.src(v)
                        if s and self.taint.get(t.id) is None:
                            self.taint[t.id] = s
                            changed = True
                        if p is not None and t.id not in self.ptaint and t.id not in self.params:
                            self.ptaint[t.id] = p
                            changed = True
                        if t.id in self.params and s is None and p is None and _fresh(v):
                            # parameter rebound to a fresh object: later mutations do not touch the caller's object
                            pass
        viol, mut = [], {}
        rebound = {t.id for n in self.own_nodes() if isinstance(n, ast.Assign) for t in n.targets if isinstance(t, ast.Name)}
        for n in self.own_nodes():
            recv = None
            what = None
            if isinstance(n, ast.Call) and isinstance(n.func, ast.Attribute) and n.func.attr in MUTATORS:
                recv, what = n.func.value, f".{n.func.attr}(...)"
            elif isinstance(n, (ast.Assign, ast.Delete)):
                for t in n.targets:
                    if isinstance(t, ast.Subscript):
                        recv, what = t.value, "[...] = / del"
            elif isinstance(n, ast.AugAssign):
                if isinstance(n.target, ast.Subscript):
                    recv, what = n.target.value, "[...] op="
                elif isinstance(n.target, ast.Name):
                    recv, what = n.target, "op= (in place for lists/sets)"
            if recv is None:
                # passing a shared object to a function that mutates that parameter
                if isinstance(n, ast.Call):
                    name = n.func.id if isinstance(n.func, ast.Name) else n.func.attr if isinstance(n.func, ast.Attribute) else None
                    for key in self.M.by_name.get(name, []):
                        mp = self.M.mutates_param.get(key, {})
                        off = 1 if isinstance(n.func, ast.Attribute) and self.M.funcs[key].args.args and self.M.funcs[key].args.args[0].arg in ("self", "cls") else 0
                        for i, a in enumerate(n.args):
                            if (i + off) in mp:
                                s, p = self.src(a)
                                if s:
                                    viol.append((n, s, f"passed to {key[1]} which mutates its parameter ({mp[i + off]})"))
                                if p is not None:
                                    mut.setdefault(p, f"via {key[1]}")
                continue
            s, p = self.src(recv)
            if s:
                viol.append((n, s, what))
            if p is not None and not (isinstance(recv, ast.Name) and recv.id in self.params and recv.id in rebound and False):
                mut.setdefault(p, what)
        ret = None
        for n in self.own_nodes():
            if isinstance(n, ast.Return) and n.value is not None:
                s, p = self.src(n.value)
                if s:
                    ret = s
        return viol, ret, mut


def shared_analysis(trees):
    M = Shared(trees)
    results = {}
    for _ in range(6):
        changed = False
        for (m, q), fn in M.funcs.items():
            viol, ret, mut = FuncTaint(M, m, q, fn).run()
            results[(m, q)] = viol
            if ret and M.returns_shared.get((m, q)) != ret:
                M.returns_shared[(m, q)] = ret
                changed = True
            if mut and M.mutates_param.get((m, q)) != mut:
                M.mutates_param[(m, q)] = mut
                changed = True
        if not changed:
            break
    return M, results


FIXTURE = '''
universal = {}
universal["k"] = list(range(3))
TABLE = [1, 2]
class A:
    SETS = universal
    def fresh(self, key):
        return set(self.SETS[key])
    def leak(self, key):
        return self.SETS[key]
    def bad1(self, key):
        u = self.SETS[key]
        u.remove(1)
    def bad2(self):
        x = self.leak("k")
        x.append(4)
    def ok(self, key):
        u = list(self.SETS[key])
        u.remove(1)
def helper(lst):
    lst.append(1)
def bad3():
    helper(TABLE)
def ok2():
    helper(list(TABLE))
'''


def rule_shared_roots(ctx, rep):
    rule = "E-SHARED"
    rep.rule(rule, "no module-level or class-level mutable container, nor any alias of one (through assignments, element reads, returns, "
                   "parameters), is mutated outside module initialisation; copies (list(), set(), slices, comprehensions, operators) cut the alias")
    # positive fixture
    fx = {"fixture": ast.parse(FIXTURE)}
    M, res = shared_analysis(fx)
    fired = sorted(q for (m, q), v in res.items() if v)
    rep.require(fired == ["A.bad1", "A.bad2", "bad3"], f"E-SHARED fixture: fired on {fired}")
    M, res = shared_analysis(ctx.trees)
    roots = len(M.mod_roots) + len(M.cls_roots)
    rep.count("shared roots", roots)
    rep.require(roots >= 15, f"only {roots} shared roots found")
    n = 0
    for (m, q), viol in res.items():
        n += 1
        for node, root, what in viol:
            rep.violation(rule, f"{m}:{q} mutates {root}", f"{ctx.path(m)}:{node.lineno}", f"{ast.unparse(node)[:80]}  ({what})", "mutation of a private copy",
                          "a container shared by every analysis in the process is modified: results depend on what was analysed before")
    rep.count("functions analysed", n)
    rep.note("shared roots: " + ", ".join(sorted(f"{k[0].split('.')[-1]}.{'.'.join(k[1:])}" for k in list(M.mod_roots) + list(M.cls_roots))[:60]))
    rep.note("functions returning a shared object (callers are tracked): " + ", ".join(f"{k[1]}->{v}" for k, v in sorted(M.returns_shared.items())) or "none")
    for k in M.mod_roots:
        rep.ok(rule, {"root": f"{k[0]}.{k[1]}"})
    for k in M.cls_roots:
        rep.ok(rule, {"root": f"{k[0]}.{k[1]}.{k[2]}"})


# ---------------------------------------------------------------------------------------------- E-ORDER

CTX_ATTRS = {"group_sizes", "group_indices", "transaction_types", "rekeyto", "closeto", "assetcloseto", "sender", "max_fee", "max_fee_unknown",
             "any_addr", "no_addr", "possible_addr", "is_gtxn_context"}


def _ann_kind(ann):
    """'unstable' for Set[str] / sets of objects, 'stable' for Set[int], None otherwise"""
    if ann is None:
        return None
    s = ast.unparse(ann).replace('"', "").replace("'", "")
    if s.startswith(("Set[", "set[", "FrozenSet[", "AbstractSet[")):
        inner = s[s.index("[") + 1:-1]
        if inner in ("int", "bool") or inner in STABLE_ENUMS:
            return "stable"
        return "unstable"
    return None


STABLE_ENUMS = set()     # enumeration classes whose members hash to integers (computed by enum_hash_stability on every run)


def enum_hash_stability(ctx):
    """{enum class name: True if the hash of its members does not depend on the interpreter's hash seed}.  A plain enum.Enum hashes the
    member's *name* (a string: seed-dependent); a class that defines __hash__ is judged by what it hands to hash(): evaluated on every member"""
    from ..absint import ClassV, PyRaise, Unsupported, EnumMember
    w = ctx.world
    out = {}
    for modname, tree in ctx.trees.items():
        for st in tree.body:
            if not isinstance(st, ast.ClassDef):
                continue
            try:
                cls = w.module(modname).lookup(st.name)
            except (KeyError, Unsupported):
                continue
            if not (isinstance(cls, ClassV) and cls.is_enum()):
                continue
            names = cls.enum_member_names()
            if any(e.split(".")[-1] in ("IntEnum", "IntFlag") for e in cls.ext_bases()):
                out[cls.name] = True
                continue
            c, hm = cls.dunder("__hash__")
            if hm is None:
                out[cls.name] = not names     # enum.Enum.__hash__ is hash(self._name_)
                continue
            stable = True
            for nm in names:
                m = w.getattr(cls, nm)
                w.hash_probe = []
                try:
                    m.__dict__.pop("_hash", None)
                    m._call("__hash__")
                except (PyRaise, Unsupported):
                    stable = False
                kinds = list(w.hash_probe)
                w.hash_probe = None
                m.__dict__.pop("_hash", None)
                if not kinds or any(k not in ("int", "bool", "Term") for k in kinds):
                    stable = False
            out[cls.name] = stable
    return out


STR_METHODS = {"strip", "lstrip", "rstrip", "lower", "upper", "title", "format", "join", "replace", "capitalize", "removeprefix", "removesuffix"}
_STR_ATTRS = set()


def str_class_attrs(trees):
    """class-level attribute names that are bound to string constants in every class that defines them (NAME, DESCRIPTION ...)"""
    seen = {}
    for t in trees.values():
        for c in [n for n in ast.walk(t) if isinstance(n, ast.ClassDef)]:
            for st in c.body:
                if isinstance(st, ast.Assign) and len(st.targets) == 1 and isinstance(st.targets[0], ast.Name):
                    seen.setdefault(st.targets[0].id, set()).add(isinstance(st.value, ast.Constant) and isinstance(st.value.value, str) or isinstance(st.value, ast.JoinedStr))
                elif isinstance(st, ast.AnnAssign) and isinstance(st.target, ast.Name) and ast.unparse(st.annotation) == "str":
                    seen.setdefault(st.target.id, set()).add(True)
    return {k for k, v in seen.items() if v == {True}}


def _elt_is_str(e):
    if isinstance(e, ast.Constant) and isinstance(e.value, str):
        return True
    if isinstance(e, ast.JoinedStr):
        return True
    if isinstance(e, ast.Call) and isinstance(e.func, ast.Name) and e.func.id == "str":
        return True
    if isinstance(e, ast.Call) and isinstance(e.func, ast.Attribute) and e.func.attr in STR_METHODS:
        return True
    if isinstance(e, ast.Attribute) and e.attr in _STR_ATTRS:
        return True
    return False


def _set_kind(e, env):
    """hash-order kind of a set-valued expression"""
    if isinstance(e, ast.SetComp) and _elt_is_str(e.elt):
        return "unstable"
    if isinstance(e, ast.Call) and isinstance(e.func, ast.Name) and e.func.id in ("set", "frozenset") and e.args and isinstance(e.args[0], (ast.GeneratorExp, ast.ListComp)) and _elt_is_str(e.args[0].elt):
        return "unstable"
    if isinstance(e, ast.Name):
        return env.get(e.id)
    if isinstance(e, ast.BinOp) and isinstance(e.op, (ast.Sub, ast.BitOr, ast.BitAnd, ast.BitXor)):
        a, b = _set_kind(e.left, env), _set_kind(e.right, env)
        if "unstable" in (a, b):
            return "unstable"
        return a or b
    if isinstance(e, ast.Call) and isinstance(e.func, ast.Name) and e.func.id in ("set", "frozenset") and e.args:
        inner = e.args[0]
        if isinstance(inner, (ast.List, ast.Tuple, ast.Set)) and inner.elts and all(isinstance(x, ast.Constant) and isinstance(x.value, str) for x in inner.elts):
            return "unstable"
        if isinstance(inner, ast.GeneratorExp):
            return "unknown-elements"
        return _set_kind(inner, env) or "unknown-elements"
    if isinstance(e, ast.Set) and e.elts and all(isinstance(x, ast.Constant) and isinstance(x.value, str) for x in e.elts):
        return "unstable"
    if isinstance(e, ast.SetComp):
        return "unknown-elements"
    return None


_ATTR_ELEM = {}


def attr_elem_kinds(trees):
    """attribute / property name -> hash-order kind of a set built from its elements, from the annotations in the package
    (List[str] -> 'unstable', List[int] -> 'stable'); only names whose every definition agrees are kept"""
    seen = {}
    for t in trees.values():
        for n in ast.walk(t):
            name, ann = None, None
            if isinstance(n, ast.FunctionDef) and n.returns is not None and any(isinstance(d, ast.Name) and d.id == "property" for d in n.decorator_list):
                name, ann = n.name, n.returns
            elif isinstance(n, ast.AnnAssign) and isinstance(n.target, ast.Attribute) and isinstance(n.target.value, ast.Name) and n.target.value.id == "self":
                name, ann = n.target.attr.lstrip("_"), n.annotation
            if name is None:
                continue
            a = ast.unparse(ann).replace('"', "").replace("'", "")
            kind = None
            if a.startswith(("List[", "Sequence[", "Tuple[", "Set[")):
                inner = a[a.index("[") + 1:-1]
                kind = "stable" if inner in ("int", "bool") else "unstable"
            seen.setdefault(name, set()).add(kind)
    return {k: next(iter(v)) for k, v in seen.items() if len(v) == 1 and None not in v}


ORDER_EFFECTS = {"append", "add_next", "add_prev", "insert", "extend", "write", "add_instruction"}


def _ann_text(a):
    return ast.unparse(a).replace('"', "").replace("'", "").replace(" ", "") if a is not None else ""


def order_loops(tree, attr_kinds):
    """for-loops over a hash-ordered set whose body has an order-sensitive effect (appends, edge insertions, output, text built with +=)"""
    out = []
    returns = {f.name: _ann_text(f.returns) for f in ast.walk(tree) if isinstance(f, ast.FunctionDef) and f.returns is not None}
    for fn in [f for f in ast.walk(tree) if isinstance(f, ast.FunctionDef)]:
        # names of this function whose declared type is known: annotated locals / parameters, and locals bound to the result of a function
        # of this module with a return annotation
        types = {a.arg: _ann_text(a.annotation) for a in fn.args.args + fn.args.kwonlyargs if a.annotation is not None}
        for n in ast.walk(fn):
            if isinstance(n, ast.AnnAssign) and isinstance(n.target, ast.Name):
                types[n.target.id] = _ann_text(n.annotation)
            elif isinstance(n, ast.Assign) and len(n.targets) == 1 and isinstance(n.targets[0], ast.Name) and isinstance(n.value, ast.Call):
                f = n.value.func
                nm = f.id if isinstance(f, ast.Name) else f.attr if isinstance(f, ast.Attribute) else None
                if nm in returns:
                    types.setdefault(n.targets[0].id, returns[nm])
        # loop variables bound to the values of a Dict[..., Set[str]]
        set_vars = {k for k, t in types.items() if t.startswith(("Set[str]", "set[str]"))}
        for loop in [n for n in ast.walk(fn) if isinstance(n, ast.For)]:
            it = loop.iter
            if isinstance(it, ast.Call) and isinstance(it.func, ast.Attribute) and it.func.attr in ("items", "values") and isinstance(it.func.value, ast.Name):
                t = types.get(it.func.value.id, "")
                if t.startswith(("Dict[", "dict[")) and t.rstrip("]").endswith(("Set[str", "set[str")):
                    tgt = loop.target
                    v = tgt.elts[-1] if isinstance(tgt, ast.Tuple) and it.func.attr == "items" else tgt
                    if isinstance(v, ast.Name):
                        set_vars.add(v.id)
        for loop in [n for n in ast.walk(fn) if isinstance(n, ast.For)]:
            it = loop.iter
            kind = None
            if isinstance(it, ast.Name) and it.id in set_vars:
                kind = "unstable"
            if isinstance(it, ast.Call) and isinstance(it.func, ast.Name) and it.func.id in ("set", "frozenset") and it.args:
                inner = it.args[0]
                if isinstance(inner, ast.Attribute):
                    kind = attr_kinds.get(inner.attr)
            elif isinstance(it, (ast.Set, ast.SetComp)):
                kind = "unstable" if isinstance(it, ast.Set) and all(isinstance(x, ast.Constant) and isinstance(x.value, str) for x in it.elts) else None
            if kind != "unstable":
                continue
            effects = [c for st in loop.body for c in ast.walk(st) if isinstance(c, ast.Call) and isinstance(c.func, ast.Attribute) and c.func.attr in ORDER_EFFECTS]
            # text or a list built piece by piece (x += ...) in the order of the iteration
            effects += [c for st in loop.body for c in ast.walk(st) if isinstance(c, ast.AugAssign) and isinstance(c.op, ast.Add) and isinstance(c.target, ast.Name)]
            if effects:
                out.append((fn, loop, effects[0]))
    return out


def order_sites(tree):
    """(function, node, kind, sink) where a hash-ordered set is turned into a sequence"""
    out = []
    for fn in [f for f in ast.walk(tree) if isinstance(f, ast.FunctionDef)]:
        env = {}
        for a in fn.args.posonlyargs + fn.args.args + fn.args.kwonlyargs:
            k = _ann_kind(a.annotation)
            if k:
                env[a.arg] = k
        for n in ast.walk(fn):
            if isinstance(n, ast.AnnAssign) and isinstance(n.target, ast.Name):
                k = _ann_kind(n.annotation)
                if k:
                    env[n.target.id] = k
        for n in ast.walk(fn):
            if isinstance(n, ast.Assign) and len(n.targets) == 1 and isinstance(n.targets[0], ast.Name) and n.targets[0].id not in env:
                k = _set_kind(n.value, env)
                if k:
                    env[n.targets[0].id] = k
        for n in ast.walk(fn):
            conv = None
            if isinstance(n, ast.Call) and isinstance(n.func, ast.Name) and n.func.id in ("list", "tuple") and n.args:
                conv = n.args[0]
            elif isinstance(n, (ast.ListComp, ast.GeneratorExp)) and n.generators:
                conv = n.generators[0].iter
            elif isinstance(n, ast.Call) and isinstance(n.func, ast.Attribute) and n.func.attr == "join" and n.args:
                conv = n.args[0]
            if conv is None:
                continue
            k = _set_kind(conv, env)
            if k in ("unstable", "unknown-elements"):
                out.append((fn, n, k))
    return out


def rule_hash_order(ctx, rep):
    rule = "E-ORDER"
    rep.rule(rule, "a set of strings (iteration order depends on PYTHONHASHSEED) is sorted before it becomes a list stored in a block context "
                   "attribute or emitted by to_json")
    fx = ast.parse("def f(ctx, s: Set[str]):\n    ctx.possible_addr = list(s - set(['A']))\n    ctx.x = sorted(s)\n")
    rep.require(len(order_sites(fx)) == 1, "E-ORDER does not recognise its positive fixture")
    fx4 = ast.parse("class S:\n    def callees(self):\n        return list(set(b.callee for b in self._blocks if b.is_call))\n")
    rep.require(any(k == "unknown-elements" for _, _, k in order_sites(fx4)), "E-ORDER does not recognise its address-order fixture")
    n = 0
    stab = enum_hash_stability(ctx)
    STABLE_ENUMS.clear()
    STABLE_ENUMS.update(k for k, v in stab.items() if v)
    rep.note("enumerations whose members hash to integers: " + ", ".join(sorted(STABLE_ENUMS)) + "; by name (seed-dependent): " + ", ".join(sorted(k for k, v in stab.items() if not v)))
    rep.require(len(stab) >= 4, f"only {len(stab)} enumeration classes found")
    _STR_ATTRS.clear()
    _STR_ATTRS.update(str_class_attrs(ctx.trees))
    fx3 = ast.parse("def h(ds, ex):\n    sel = {d.NAME for d in ds} - {x.strip() for x in ex}\n    return [ds[n] for n in sel]\n")
    _STR_ATTRS.add("NAME")
    rep.require(len([1 for _, _, k in order_sites(fx3) if k == "unstable"]) == 1, "E-ORDER does not recognise its set-comprehension fixture")
    for modname, tree in ctx.trees.items():
        parent = {}
        for p in ast.walk(tree):
            for ch in ast.iter_child_nodes(p):
                parent[ch] = p
        for fn, node, kind in order_sites(tree):
            n += 1
            # is the sequence stored in an observable?  walk up to the enclosing statement
            st = node
            wrapped_sorted = False
            while st in parent and not isinstance(st, ast.stmt):
                st = parent[st]
                if isinstance(st, ast.Call) and isinstance(st.func, ast.Name) and st.func.id == "sorted":
                    wrapped_sorted = True
            observable = False
            if isinstance(st, ast.Assign):
                for t in st.targets:
                    if isinstance(t, ast.Attribute) and t.attr in CTX_ATTRS:
                        observable = True
            if isinstance(st, ast.Return) and fn.name in ("to_json",):
                observable = True
            worklist = False
            tgt = st.targets[0] if isinstance(st, ast.Assign) and len(st.targets) == 1 else st.target if isinstance(st, ast.AnnAssign) else None
            if isinstance(tgt, ast.Name) and getattr(st, "value", None) is node:
                # worklist idiom: a local that is only drained (pop), refilled (append/extend) and tested for emptiness; the
                # fixpoint it drives collects into sets, so the order in which it is drained is not visible
                uses = [u for u in ast.walk(fn) if isinstance(u, ast.Name) and u.id == tgt.id and u is not tgt]
                def _wl(u):
                    pu = parent.get(u)
                    if isinstance(pu, ast.Attribute) and pu.attr in ("pop", "append", "extend") and isinstance(parent.get(pu), ast.Call) and parent[pu].func is pu:
                        return True
                    if isinstance(pu, (ast.While, ast.If)) and pu.test is u:
                        return True
                    if isinstance(pu, ast.UnaryOp) and isinstance(pu.op, ast.Not):
                        return True
                    return False
                worklist = bool(uses) and all(_wl(u) for u in uses) and any(isinstance(parent.get(u), ast.Attribute) and parent[u].attr == "pop" for u in uses)
            escapes = isinstance(st, ast.Return) or (isinstance(st, ast.Assign) and any(isinstance(t, ast.Attribute) for t in st.targets))
            if kind == "unknown-elements" and escapes and not wrapped_sorted and not worklist:
                # a set of objects (hashed by address) turned into a list that leaves the function: its order changes from run to run
                rep.violation(rule, f"{modname}:{fn.name}: {ast.unparse(node)[:60]}", f"{ctx.path(modname)}:{node.lineno}", ast.unparse(st)[:100],
                              "a list built in a deterministic order (first occurrence, or sorted by a key)",
                              "the order of a list built from a set of objects follows their memory addresses: whatever is derived from it changes from run to run")
            elif kind == "unstable" and not wrapped_sorted and not worklist:
                rep.violation(rule, f"{modname}:{fn.name}: {ast.unparse(node)[:60]}", f"{ctx.path(modname)}:{node.lineno}", ast.unparse(st)[:100], "sorted(...)",
                              "the order of the stored list changes with the interpreter's hash seed")
            else:
                rep.ok(rule, {"site": f"{modname}:{fn.name}", "expr": ast.unparse(node)[:60], "elements": kind, "observable": observable, "sorted": wrapped_sorted, "worklist": worklist})
    # lists of enumeration members stored in attributes: when the members hash by name, the order of a list built from a set of them
    # follows the hash seed; such a list has to be sorted before it is stored
    enum_attrs = {}
    # which attributes of a block context hold lists of enumeration members: read off a freshly constructed context
    from ..absint import EnumMember as _EM
    BTC = ctx.world.cls("tealer.teal.context.block_transaction_context", "BlockTransactionContext")
    fresh = ctx.world.new(BTC)
    for attr, val in fresh.fields.items():
        if isinstance(val, list) and val and all(isinstance(x, _EM) for x in val):
            enum_attrs[attr.lstrip("_")] = {x.cls.name for x in val}
    rep.require("transaction_types" in enum_attrs, f"no attribute holding a list of enumeration members found ({sorted(enum_attrs)})")
    for modname, tree in ctx.trees.items():
        for node in ast.walk(tree):
            if not (isinstance(node, ast.Assign) and len(node.targets) == 1 and isinstance(node.targets[0], ast.Attribute)):
                continue
            attr = node.targets[0].attr.lstrip("_")
            if attr not in enum_attrs:
                continue
            v = node.value
            builds_list = (isinstance(v, ast.Call) and isinstance(v.func, ast.Name) and v.func.id in ("list", "tuple")) or isinstance(v, ast.ListComp)
            if not builds_list:
                continue
            n += 1
            bad = sorted(e for e in enum_attrs[attr] if not stab.get(e, True))
            if bad:
                rep.violation(rule, f"{modname}: {ast.unparse(node.targets[0])[:50]} = {ast.unparse(v)[:40]}", f"{ctx.path(modname)}:{node.lineno}",
                              f"members of {', '.join(bad)} hash by name", "members that hash to integers, or sorted(...)",
                              "the order of the stored list changes with the interpreter's hash seed")
            else:
                rep.ok(rule, {"site": modname, "stores": attr, "elements": sorted(enum_attrs[attr]), "hash": "integer"})
    ak = attr_elem_kinds(ctx.trees)
    fx2 = ast.parse("def g(ins, labels):\n    for l in set(ins.labels):\n        ins.add_next(labels[l])\n    for l in ins.labels:\n        ins.add_next(labels[l])\n")
    rep.require(len(order_loops(fx2, {"labels": "unstable"})) == 1, "E-ORDER(loop) does not recognise its positive fixture")
    fx5 = ast.parse("def g() -> Dict[str, Set[str]]:\n    return {}\n\ndef p():\n    out = ''\n    graph = g()\n    for k, vs in graph.items():\n        for v in vs:\n            out += v\n"
                    "        for v in sorted(vs):\n            out += v\n    return out\n")
    rep.require(len(order_loops(fx5, {})) == 1, "E-ORDER(loop) does not recognise its dictionary-of-sets fixture")
    loops = 0
    for modname, tree in ctx.trees.items():
        for fn, loop, eff in order_loops(tree, ak):
            loops += 1
            rep.violation(rule, f"{modname}:{fn.name}: for ... in {ast.unparse(loop.iter)[:50]}", f"{ctx.path(modname)}:{loop.lineno}", ast.unparse(eff)[:80],
                          "iterate in a deterministic order (the list itself, or sorted(...))",
                          "the order of edges / list elements built in this loop changes with the interpreter's hash seed")
    rep.count("set-to-sequence conversions inspected", n)
    rep.count("attribute element types known", len(ak))


def rule_context_writers(ctx, rep):
    rule = "R-OWN(context)"
    rep.rule(rule, "block-context attributes are written only by the analyses' result writers and by the context classes themselves: running a "
                   "detector or printer cannot change what another detector reads")
    allowed_prefix = ("tealer.analyses.dataflow.transaction_context.", "tealer.teal.context.")
    n = 0
    for modname, tree in ctx.trees.items():
        for node in ast.walk(tree):
            hit = None
            if isinstance(node, (ast.Assign, ast.AugAssign, ast.AnnAssign)):
                tg = node.targets if isinstance(node, ast.Assign) else [node.target]
                for t in tg:
                    if isinstance(t, ast.Attribute) and t.attr in CTX_ATTRS and not (isinstance(t.value, ast.Name) and t.value.id == "self" and modname.startswith("tealer.teal.context")):
                        hit = ast.unparse(node)[:80]
                    if isinstance(t, ast.Subscript) and isinstance(t.value, ast.Attribute) and t.value.attr in CTX_ATTRS:
                        hit = ast.unparse(node)[:80]
            elif isinstance(node, ast.Call) and isinstance(node.func, ast.Attribute) and node.func.attr in MUTATORS \
                    and isinstance(node.func.value, ast.Attribute) and node.func.value.attr in CTX_ATTRS:
                hit = ast.unparse(node)[:80]
            if hit is None:
                continue
            n += 1
            rep.check(modname.startswith(allowed_prefix), rule, f"{modname}: {hit}", f"{ctx.path(modname)}:{node.lineno}", modname, "an analysis module",
                      why="analysis results are modified outside the analyses")
    rep.count("context attribute writes", n)
    rep.require(n >= 10, f"only {n} context writes found")


# ---------------------------------------------------------------------------------------------- P-BLOCK (provenance of block values)

PROV_FIXTURE = '''
from typing import TYPE_CHECKING
if TYPE_CHECKING:
    from tealer.teal.teal import Teal
    from tealer.teal.functions import Function


def bad_lookup(teal: "Teal", function: "Function") -> None:
    for bb in teal.bbs:
        function.transaction_context(bb)


def good_lookup(function: "Function") -> None:
    for bb in function.blocks:
        function.transaction_context(bb)


def bad_identity(teal: "Teal", function: "Function") -> bool:
    for bb in teal.main.blocks:
        if bb in function.main.blocks:
            return True
    return False
'''


def rule_block_provenance(ctx, rep):
    from .. import provenance
    rule = "P-BLOCK"
    rep.rule(rule, "whole-package provenance analysis of BasicBlock values (contract's main graph / function's copy / subroutine / error block): "
                   "no Function.transaction_context(...) lookup receives a block of the contract's own main graph, and no membership / identity test "
                   "relates a block that can only be the contract's with one that can only be a function's copy")
    sources = {}
    for modname in ctx.trees:
        sources[modname] = (ctx.root / ctx.path(modname)).read_text()
    sources["tealer.zz_verif_fixture"] = PROV_FIXTURE
    stats, res = provenance.analyse(sources)
    fx = [r for r in res if r["module"] == "tealer.zz_verif_fixture"]
    fired = sorted(r["function"] for r in fx if r["verdict"] == "violation")
    rep.require(fired == ["bad_identity", "bad_lookup"], f"P-BLOCK fixture: fired on {fired}")
    lookups = [r for r in res if r["kind"] == "lookup" and r["module"] != "tealer.zz_verif_fixture"]
    idents = [r for r in res if r["kind"] == "identity" and r["module"] != "tealer.zz_verif_fixture"]
    rep.require(len(lookups) >= 20, f"only {len(lookups)} transaction_context lookups found")
    rep.require(len(idents) >= 8, f"only {len(idents)} identity tests between block values found")
    unknown = 0
    for r in lookups + idents:
        if r["module"] in provenance.BUILDERS:
            rep.count("sites inside the graph builders (both copies are handled there; not judged)")
            continue
        where = f"{ctx.path(r['module'])}:{r['line']}"
        if r["verdict"] == "unknown":
            unknown += 1
            rep.note(f"P-BLOCK: provenance of the argument unknown at {where}: {r['expr']} (not judged)")
            continue
        why = ("a block of the contract's own graph is looked up in a table keyed by the function's copies (KeyError)" if r["kind"] == "lookup"
               else "blocks of the contract's graph and of a function's copy are never the same object: the test is always false")
        rep.check(r["verdict"] == "ok", rule, f"{r['module']}:{r['function']}: {r['expr'][:60]}", where, {"left": r["a"], "right": r["b"]},
                  "function-side provenance" if r["kind"] == "lookup" else "comparable provenance", why=why,
                  sample={"site": where, "expr": r["expr"], "provenance": r["a"], "vs": r["b"]})
    rep.counts["P-BLOCK stats"] = stats
    rep.count("P-BLOCK sites with unknown provenance", unknown)



def rule_mutable_defaults(ctx, rep):
    rule = "R-DEFAULT"
    rep.rule(rule, "no function has a mutable default argument (list / dict / set display or constructor) that it, or a function it passes it to, "
                   "mutates: such a default is shared by every call in the process, so results depend on what was analysed before")
    fx = ast.parse("def f(x, seen=[]):\n    seen.append(x)\n    return seen\ndef g(x, seen=None):\n    seen = seen or []\n    seen.append(x)\ndef h(x, opts={}):\n    return opts.get(x)\n")
    def scan(tree):
        out = []
        for fn in [n for n in ast.walk(tree) if isinstance(n, (ast.FunctionDef, ast.Lambda))]:
            a = fn.args
            params = a.posonlyargs + a.args
            defaults = [None] * (len(params) - len(a.defaults)) + list(a.defaults)
            pairs = list(zip(params, defaults)) + list(zip(a.kwonlyargs, a.kw_defaults))
            for p, d in pairs:
                if d is None or not _is_container_display(d):
                    continue
                body = fn.body if isinstance(fn.body, list) else [fn.body]
                mutated = passed = False
                for st in body:
                    for n in ast.walk(st):
                        if isinstance(n, ast.Call) and isinstance(n.func, ast.Attribute) and n.func.attr in MUTATORS and isinstance(n.func.value, ast.Name) and n.func.value.id == p.arg:
                            mutated = True
                        if isinstance(n, (ast.Assign, ast.AugAssign)):
                            for t in (n.targets if isinstance(n, ast.Assign) else [n.target]):
                                if isinstance(t, ast.Subscript) and isinstance(t.value, ast.Name) and t.value.id == p.arg:
                                    mutated = True
                                if isinstance(n, ast.AugAssign) and isinstance(t, ast.Name) and t.id == p.arg:
                                    mutated = True
                        if isinstance(n, ast.Call) and any(isinstance(x, ast.Name) and x.id == p.arg for x in n.args):
                            passed = True
                out.append((fn, p.arg, mutated, passed))
        return out
    fxr = scan(fx)
    rep.require(sorted((getattr(f, "name", "?"), m) for f, _, m, _ in fxr) == [("f", True), ("h", False)], "R-DEFAULT does not recognise its fixture")
    n = 0
    for modname, tree in ctx.trees.items():
        for fn, pname, mutated, passed in scan(tree):
            n += 1
            name = getattr(fn, "name", "<lambda>")
            rep.check(not mutated and not (passed and name.startswith("_may")), rule, f"{modname}:{name}({pname}=<mutable>)", f"{ctx.path(modname)}:{fn.lineno}",
                      "default is a shared mutable object that the function mutates" if mutated else "passed on", "None default, fresh object per call",
                      why="state survives between calls and between analysed contracts")
            if passed and not mutated:
                rep.note(f"R-DEFAULT: {modname}:{name} passes its mutable default {pname} to another function (not judged)")
    rep.count("mutable defaults inspected", n)
    rep.ok(rule, {"functions with a mutable default": n})



def rule_pure_lattice(ctx, rep):
    rule = "E-PURE(lattice)"
    rep.rule(rule, "the lattice operations and condition readers of every analysis (_union, _intersection, _universal_set, _null_set, _get_asserted*) "
                   "do not mutate their parameters (whole-package parameter-mutation summaries of the alias analysis)")
    M, res = shared_analysis(ctx.trees)
    n = 0
    for (m, q), fn in M.funcs.items():
        name = q.split(".")[-1]
        if not m.startswith("tealer.analyses.dataflow.transaction_context"):
            continue
        if name in ("_union", "_intersection", "_universal_set", "_null_set") or name.startswith("_get_asserted"):
            n += 1
            mp = {k: v for k, v in M.mutates_param.get((m, q), {}).items() if not (k == 0 and fn.args.args and fn.args.args[0].arg in ("self", "cls"))}
            params = [a.arg for a in fn.args.posonlyargs + fn.args.args]
            rep.check(not mp, rule, f"{m.split('.')[-1]}:{q}", f"{ctx.path(m)}:{fn.lineno}", {params[k]: v for k, v in mp.items() if k < len(params)}, "no parameter mutated",
                      why="operands are live entries of the analysis tables (or lists owned by the caller)")
    rep.require(n >= 20, f"only {n} lattice/condition functions found")


# ---------------------------------------------------------------------------------------------- renderers do not edit what they render (C14)

RENDER_FIXTURE = '''
def _render(bb, config):
    comments = bb.tealer_comments
    comments += config.extra(bb)
    cost = bb.cost
    cost += 1
    rows = []
    rows.append(cost)
    return comments
'''


def _container_attrs(trees):
    """names of attributes / properties of repository classes that are declared as lists, dictionaries or sets"""
    out = set()
    for tree in trees.values():
        for n in ast.walk(tree):
            ann, name = None, None
            if isinstance(n, ast.FunctionDef) and n.returns is not None and any(
                    (isinstance(d, ast.Name) and d.id == "property") for d in n.decorator_list):
                ann, name = n.returns, n.name
            elif isinstance(n, ast.AnnAssign) and isinstance(n.target, ast.Attribute) and isinstance(n.target.value, ast.Name) and n.target.value.id == "self":
                ann, name = n.annotation, n.target.attr.lstrip("_")
            if ann is None:
                continue
            text = ast.unparse(ann).strip("\"'")
            if text.split("[")[0].split(".")[-1] in ("List", "Dict", "Set", "list", "dict", "set", "DefaultDict", "defaultdict"):
                out.add(name)
    return out


def _render_mutations(fn, containers):
    """in-place changes of a container that `fn` reaches through an attribute of an object it was given (not of self)"""
    def root(e):
        while isinstance(e, (ast.Attribute, ast.Subscript)):
            e = e.value
        return e.id if isinstance(e, ast.Name) else None
    fresh_locals = {t.id for n in ast.walk(fn) if isinstance(n, ast.Assign) and isinstance(n.value, (ast.Call, ast.List, ast.Dict, ast.Set, ast.ListComp))
                    for t in n.targets if isinstance(t, ast.Name)}
    alias = {}
    for n in ast.walk(fn):
        pairs = [(t, n.value) for t in n.targets] if isinstance(n, ast.Assign) else [(n.target, n.value)] if isinstance(n, ast.AnnAssign) and n.value is not None else []
        for t, v in pairs:
            if isinstance(t, ast.Name) and isinstance(v, ast.Attribute) and v.attr.lstrip("_") in containers and root(v) not in ("self", "cls", None):
                alias[t.id] = ast.unparse(v)

    def given(e):
        """the container expression `e` belongs to an object the function did not create"""
        if isinstance(e, ast.Name):
            return alias.get(e.id)
        if isinstance(e, ast.Attribute) and e.attr.lstrip("_") in containers and root(e) not in ("self", "cls", None) and root(e) not in fresh_locals:
            return ast.unparse(e)
        return None
    out = []
    for n in ast.walk(fn):
        recv, what = None, None
        if isinstance(n, ast.Call) and isinstance(n.func, ast.Attribute) and n.func.attr in MUTATORS:
            recv, what = n.func.value, f".{n.func.attr}(...)"
        elif isinstance(n, ast.AugAssign):
            recv, what = (n.target.value, "[...] op=") if isinstance(n.target, ast.Subscript) else (n.target, "op= (in place for lists, sets and dictionaries)")
        elif isinstance(n, (ast.Assign, ast.Delete)):
            for t in n.targets:
                if isinstance(t, ast.Subscript):
                    recv, what = t.value, "[...] = / del"
        if recv is not None and given(recv):
            out.append((n.lineno, given(recv), what))
    return out


def rule_renderers_pure(ctx, rep):
    rule = "E-PURE(export)"
    rep.rule(rule, "the functions that render results (tealer.utils.output, tealer.printers.*) do not change in place a list, dictionary or set that they "
                   "reach through an attribute of a block, instruction, contract or configuration they were given - directly or through a local name "
                   "bound to it: what one export shows must not depend on the exports made before it in the same process")
    containers = _container_attrs(ctx.trees)
    rep.require({"tealer_comments", "instructions", "next", "prev"} <= containers, f"container attributes of the block classes not found: {sorted(containers)[:8]}")
    fix = _render_mutations(ast.parse(RENDER_FIXTURE).body[0], containers)
    rep.require(len(fix) == 1 and fix[0][1] == "bb.tealer_comments", f"{rule}: the positive fixture gives {fix}")
    n = 0
    for modname, tree in sorted(ctx.trees.items()):
        if not (modname == "tealer.utils.output" or modname.startswith("tealer.printers")):
            continue
        for fn in [x for x in ast.walk(tree) if isinstance(x, ast.FunctionDef)]:
            n += 1
            found = _render_mutations(fn, containers)
            rep.check(not found, rule, f"{modname.split('.', 1)[1]}:{fn.name}", f"{ctx.path(modname)}:{found[0][0] if found else fn.lineno}",
                      [f"{w} {what}" for _, w, what in found], "no container of a rendered object changed in place",
                      why="the rendered object keeps the change: the next export of the same contract in this process shows it",
                      sample={"function": fn.name})
    rep.count("rendering functions analysed", n)
    rep.require(n >= 30, f"only {n} rendering functions found")
