"""T-OP / T-RT / T-PREFIX: the opcode table of tealer against spec/avm_ops.json.

Association opcode -> class is taken from the parser (abstract evaluation of `parse_line` on one
spelling per opcode and immediate shape), never from class names.  Stack effect, version, mode and
cost are then read from the class by abstract evaluation over *symbolic* immediates, so a verdict
is for every immediate value, not for a sample.
"""
import ast

from ..absint import Obj, Term, Interp, PyRaise, Unsupported, ClassV, EnumMember
from .. import tables
from ..tables import INS, PARSE

FIELD_FAMILY = {
    "txn": "TransactionField", "txna": "TransactionField", "gtxn": "TransactionField", "gtxna": "TransactionField",
    "gtxns": "TransactionField", "gtxnsa": "TransactionField", "txnas": "TransactionField", "gtxnas": "TransactionField",
    "gtxnsas": "TransactionField", "itxn": "TransactionField", "itxna": "TransactionField", "itxn_field": "TransactionField",
    "itxnas": "TransactionField", "gitxn": "TransactionField", "gitxna": "TransactionField", "gitxnas": "TransactionField",
    "global": "GlobalField", "asset_holding_get": "AssetHoldingField", "asset_params_get": "AssetParamsField",
    "app_params_get": "AppParamsField", "acct_params_get": "AcctParamsField",
}
# how the opcode spells an array field: with a literal index ("idx"), without ("noidx"), scalar fields only ("scalar")
ARRAY_STYLE = {"txn": "both", "gtxn": "both", "gtxns": "both", "itxn": "both", "gitxn": "both", "itxn_field": "noidx",
               "txna": "idx", "gtxna": "idx", "gtxnsa": "idx", "itxna": "idx", "gitxna": "idx",
               "txnas": "noidx", "gtxnas": "noidx", "gtxnsas": "noidx", "itxnas": "noidx", "gitxnas": "noidx"}
STR_SAMPLE = {"b": "target_1", "bz": "target_1", "bnz": "target_1", "callsub": "target_1",
              "addr": "7777777777777777777777777777777777777777777777777777Y5HFKQ",
              "byte": "0x0102", "pushbytes": "0x0102", "method": '"foo(uint64)void"', "int": "pay", "pushint": "pay"}
LIST_SAMPLES = {"intcblock": ["", "1", "1 2 3", "7 7"], "bytecblock": ["", "0x01", "0x01 0x02 0x03", "0x01 0x01"], "pushints": ["", "1", "1 2 3", "5 5"],
                "pushbytess": ["0x01", "0x01 0x02 0x03", "0x02 0x02"], "switch": ["", "a", "a b c", "a a", "a b a"], "match": ["", "a", "a b c", "a a", "a b a"]}


def _spec_ops(ctx):
    return ctx.spec("avm_ops.json")["opcodes"]


def op_lines(ctx):
    """(spec entry, source line, sample immediates) - one or more spellings per opcode entry"""
    fields = ctx.spec("avm_fields.json")["families"]
    out = []
    for op in _spec_ops(ctx):
        mn = op["mnemonic"]
        variants = [[]]
        for k, kind in enumerate(op["imm"]):
            if kind == "int":
                vs = ["3", "0"]      # zero: an immediate that is present but falsy
            elif kind == "none":
                vs = [None]
            elif kind == "str":
                vs = [STR_SAMPLE.get(mn, "x")]
            elif kind.startswith("="):
                vs = [kind[1:]]
            elif kind == "list":
                vs = LIST_SAMPLES[mn]
            elif kind == "field":
                fam = FIELD_FAMILY[mn]
                style = ARRAY_STYLE.get(mn, "scalar")
                vs = []
                for name, info in fields[fam].items():
                    if info["array"]:
                        if style in ("both", "idx"):
                            vs.append(f"{name} 1")
                            vs.append(f"{name} 0")
                        if style == "noidx":
                            vs.append(name)
                    elif style in ("both", "scalar") or (style == "noidx" and mn == "itxn_field"):
                        vs.append(name)
            else:
                raise Unsupported(f"spec immediate kind {kind}")
            variants = [v + [x] for v in variants for x in vs]
        for v in variants:
            toks = [mn] + [x for x in v if x not in (None, "")]
            out.append((op, " ".join(toks), v))
    return out


def parsed_rows(ctx):
    """abstract evaluation of parse_line on every spelling: class, printed form"""
    def build():
        w = ctx.world
        pl = w.func(PARSE, "parse_line")
        rows = []
        for op, line, imms in op_lines(ctx):
            try:
                o = w.call(pl, line)
            except PyRaise as e:
                rows.append({"op": op, "line": line, "raises": e.exc, "where": e.where})
                continue
            if not isinstance(o, Obj):
                rows.append({"op": op, "line": line, "raises": f"returned {o!r}", "where": None})
                continue
            try:
                printed = Interp(o.cls.mod).to_str(o)
            except PyRaise as e:
                printed = ("RAISES", e.exc)
            rows.append({"op": op, "line": line, "cls": o.cls, "obj": o, "printed": printed})
        return rows
    return ctx.cached("parsed_rows", build)


def class_of_opcode(ctx, rep):
    """opcode entry index -> class constructed by the parser (must be unique per entry)"""
    out = {}
    for r in parsed_rows(ctx):
        if "cls" not in r:
            continue
        key = id(r["op"])
        out.setdefault(key, (r["op"], set()))[1].add(r["cls"])
    return out


def _eval_expr(expr, env):
    node = ast.parse(expr, mode="eval").body

    def ev(n):
        if isinstance(n, ast.Constant):
            return n.value
        if isinstance(n, ast.Name):
            return env[n.id]
        if isinstance(n, ast.BinOp) and isinstance(n.op, (ast.Add, ast.Sub)):
            a, b = ev(n.left), ev(n.right)
            sign = 1 if isinstance(n.op, ast.Add) else -1
            if isinstance(a, Term) or isinstance(b, Term):
                r = Term.lift(a).add(b, sign)
                return r.const if r.is_const() else r
            return a + sign * b
        raise Unsupported(f"spec expression {expr}")
    return ev(node)


def _class_variants(ctx, cls, op):
    """symbolic instances of cls for the immediate shape of the spec entry"""
    w = ctx.world
    enums = {cls.name: [k[1:] for k in op["imm"] if k.startswith("=")]} if any(k.startswith("=") for k in op["imm"]) else None
    out = []
    for args in tables.arg_variants(w, cls, enums):
        kinds = ["list" if k.startswith("list") else k for k in tables.arg_kinds(args)]
        want = list(op["imm"])
        # `int`/`pushint` take Union[str,int]; spec lists both shapes as separate entries
        if kinds != want:
            continue
        out.append(args)
    return out


def _env_for(args):
    env = {}
    for k, a in enumerate(args):
        if isinstance(a, Term):
            env[f"imm{k}"] = a
        elif isinstance(a, list):
            env["len"] = len(a)
    return env


def _where(ctx, cls):
    return f"{ctx.path(cls.mod.name)}:{cls.node.lineno}"


def symbolic_rows(ctx, rep):
    """(op, cls, args, obj) for every spec opcode entry, class found through the parser"""
    def build():
        rows = []
        assoc = class_of_opcode(ctx, rep)
        for op in _spec_ops(ctx):
            ent = assoc.get(id(op))
            if ent is None:
                rows.append((op, None, None, None))
                continue
            classes = ent[1]
            if len(classes) != 1:
                rows.append((op, sorted(c.name for c in classes), None, None))
                continue
            cls = next(iter(classes))
            vs = _class_variants(ctx, cls, op)
            if not vs:
                rows.append((op, cls, None, None))
                continue
            for args in vs:
                rows.append((op, cls, args, ctx.world.new(cls, *args)))
        return rows
    return ctx.cached("symbolic_rows", build)


def _opkey(op):
    return op["mnemonic"] + ("(" + ",".join(op["imm"]) + ")" if op["imm"] else "")


def rule_opcode_classes(ctx, rep, rule="T-OP(assoc)"):
    """every spec opcode is parsed to exactly one Instruction class (the anchor of T-OP)"""
    rep.rule(rule, "every AVM opcode spelling is parsed to exactly one instruction class")
    n = 0
    for op, cls, args, obj in symbolic_rows(ctx, rep):
        if obj is not None:
            n += 1
    rep.count("opcode entries with a class", n)
    rep.require(n >= 150, f"only {n} spec opcodes could be associated with a class through the parser (expected >= 150)")
    return n


def rule_stack_effect(ctx, rep):
    rule = "T-OP(stack)"
    rep.rule(rule, "pops/pushes of every instruction class equal the AVM stack effect, symbolically in the immediates")
    seen_cls = set()
    for op, cls, args, obj in symbolic_rows(ctx, rep):
        if obj is None:
            continue   # reported by C16 (parser association); not a stack-effect question
        seen_cls.add(cls)
        env = _env_for(args)
        w = ctx.world
        for attr, key in (("stack_pop_size", "pops"), ("stack_push_size", "pushes")):
            lenpart = f"[len={env['len']}]" if "len" in env else ""
            try:
                got = w.getattr(obj, attr)
            except PyRaise as e:
                got = f"RAISES {e.exc}"
            except Unsupported as e:
                if "symbolic" not in str(e):
                    raise
                # the count branches on the value of an immediate: decide it for a sweep of concrete immediates instead
                for val in (0, 1, 2, 3, 255):
                    cargs = [val if isinstance(a, Term) else a for a in args]
                    cobj = w.new(cls, *cargs)
                    cenv = {k: (val if isinstance(v, Term) else v) for k, v in env.items()}
                    try:
                        g = w.getattr(cobj, attr)
                    except PyRaise as e2:
                        g = f"RAISES {e2.exc}"
                    wv = _eval_expr(op[key], cenv)
                    rep.check(g == wv, rule, f"{_opkey(op)}.{key}{lenpart}", _where(ctx, cls), {"immediate": val, key: repr(g)}, {"immediate": val, key: repr(wv)},
                              why="stack effect depends on the immediate's value in a way the AVM's does not")
                continue
            want = _eval_expr(op[key], env)
            rep.check(got == want, rule, f"{_opkey(op)}.{key}{lenpart}", _where(ctx, cls), repr(got), repr(want),
                      why=op.get("note", ""), sample={"opcode": _opkey(op), "class": cls.name, key: repr(got)})
    # the instruction object the parser builds for a concrete line has the stack effect of that line (immediates and list lengths as written)
    for r in parsed_rows(ctx):
        if "cls" not in r:
            continue
        op = r["op"]
        toks = r["line"].split()[1:]
        env = {}
        ti = 0
        for k, kind in enumerate(op["imm"]):
            if kind == "int":
                env[f"imm{k}"] = int(toks[ti], 0) if ti < len(toks) and toks[ti].isdigit() else 0
                ti += 1
            elif kind == "list":
                env["len"] = len(toks) - ti
                ti = len(toks)
            elif kind in ("none",):
                pass
            elif kind == "field":
                ti = len(toks)
            else:
                ti += 1
        if "list" not in op["imm"]:
            continue      # scalar immediates are decided symbolically above
        for attr, key in (("stack_pop_size", "pops"), ("stack_push_size", "pushes")):
            try:
                got = w.getattr(r["obj"], attr)
            except PyRaise as e:
                got = f"RAISES {e.exc}"
            want = _eval_expr(op[key], env)
            rep.check(got == want, rule, f"'{r['line']}'.{key}", _where(ctx, r["cls"]), got, want,
                      why="the stack effect of the parsed instruction is not that of the source line (list immediates counted as written)")
    # tealer-only classes must not disturb the emulated stack
    spec = ctx.spec("avm_ops.json")
    pseudo = {p["class"]: p for p in spec["pseudo"]}
    for cls in tables.instruction_classes(ctx.world):
        if cls in seen_cls:
            continue
        try:
            variants = tables.arg_variants(ctx.world, cls)
        except Unsupported:
            rep.count("classes outside the spec with unsupported constructor (not armed)")
            continue
        for args in variants:
            obj = ctx.world.new(cls, *args)
            got = (ctx.world.getattr(obj, "stack_pop_size"), ctx.world.getattr(obj, "stack_push_size"))
            if cls.name in pseudo:
                want = (int(pseudo[cls.name]["pops"]), int(pseudo[cls.name]["pushes"]))
                rep.check(got == want, rule, f"pseudo {cls.name}", _where(ctx, cls), repr(got), repr(want))
            else:
                rep.count("classes not reached from any spec opcode (not armed)")
                rep.note(f"class {cls.name} is not constructed by the parser for any AVM v1-v8 opcode; stack effect {got} not judged")
    rep.require(len(seen_cls) >= 150, "fewer than 150 instruction classes reached through the parser")


def _mode_name(m):
    return m.name if isinstance(m, EnumMember) else str(m)


def rule_version_mode(ctx, rep):
    rule = "T-OP(version,mode)"
    rep.rule(rule, "introduction version and execution mode of every opcode equal the AVM table")
    for op, cls, args, obj in symbolic_rows(ctx, rep):
        if obj is None:
            continue
        w = ctx.world
        ver = w.getattr(obj, "version")
        mode = _mode_name(w.getattr(obj, "mode"))
        if op.get("version_unarbitrated"):
            rep.count("unarbitrated version entries (not armed)")
        else:
            rep.check(ver == op["version"], rule, f"{_opkey(op)}.version", _where(ctx, cls), ver, op["version"])
        rep.check(mode == op["mode"], rule, f"{_opkey(op)}.mode", _where(ctx, cls), mode, op["mode"])


def rule_cost(ctx, rep):
    rule = "T-OP(cost)"
    rep.rule(rule, "cost of every opcode for every declared program version >= its introduction equals the AVM table")
    for op, cls, args, obj in symbolic_rows(ctx, rep):
        if obj is None:
            continue
        for v, want in op["cost"].items():
            tables.with_version(ctx.world, obj, int(v))
            try:
                got = ctx.world.getattr(obj, "cost")
            except PyRaise as e:
                got = f"RAISES {e.exc}"
            rep.check(got == want, rule, f"{_opkey(op)}.cost[v{v}]", _where(ctx, cls), got, want)
    # assembler directives and labels are not opcodes: they cost nothing
    b = None
    from ..absobj import Builder
    b = Builder(ctx)
    for line in ("#pragma version 6", "somelabel:"):
        o = b.ins(line)
        for v in (1, 6, 8):
            tables.with_version(ctx.world, o, v)
            got = ctx.world.getattr(o, "cost")
            rep.check(got == 0, rule, f"'{line.split()[0]}' is not an opcode: cost[v{v}]", _where(ctx, o.cls), got, 0,
                      why="a label / pragma line is counted in the block cost")
    # BasicBlock.cost is the sum over its instructions
    w = ctx.world
    bbcls = w.cls("tealer.teal.basic_blocks", "BasicBlock")
    tealcls = w.cls("tealer.teal.teal", "Teal")
    sha = [o for op, c, a, o in symbolic_rows(ctx, rep) if o is not None and op["mnemonic"] in ("sha256", "keccak256", "int", "ed25519verify")]
    rep.require(len(sha) >= 4, "cost probe opcodes missing")
    for v in (1, 2, 8):
        teal = Obj(tealcls, _version=v)
        bb = Obj(bbcls, _teal=teal, _instructions=list(sha), _idx=0)
        want = 0
        for o in sha:
            o.fields["_bb"] = bb
            want += w.getattr(o, "cost")
        got = w.getattr(bb, "cost")
        rep.check(got == want, rule, f"BasicBlock.cost[v{v}]", f"{ctx.path('tealer.teal.basic_blocks')}", got, want,
                  why="block cost must be the sum of its instructions' costs")


# ---------------------------------------------------------------------------------------------- C16

def _normalise_line(line):
    return " ".join(line.split())


def rule_prefix_and_roundtrip(ctx, rep):
    """T-PREFIX + T-RT: every opcode spelling parses to its own class and prints back to the same text"""
    r1, r2 = "T-PREFIX", "T-RT"
    rep.rule(r1, "first-match prefix parsing maps every AVM opcode spelling to that opcode's own class")
    rep.rule(r2, "printed form of the parsed instruction is the source spelling (mnemonic, immediates, order) and parses back")
    w = ctx.world
    unsupported = w.cls(INS, "UnsupportedInstruction")
    pl = w.func(PARSE, "parse_line")
    by_op = {}
    n = 0
    for r in parsed_rows(ctx):
        op = r["op"]
        n += 1
        where = f"{ctx.path(PARSE)}"
        if "raises" in r:
            rep.violation(r1, f"{_opkey(op)} line '{r['line']}'", where, f"RAISES {r['raises']}", "an instruction", "valid spelling is rejected")
            continue
        cls = r["cls"]
        rep.check(not cls.is_sub(unsupported), r1, f"{_opkey(op)} recognised", where, cls.name, "the opcode's class",
                  why=f"'{r['line']}' is not recognised as an opcode", sample={"line": r["line"], "class": cls.name})
        by_op.setdefault(id(op), (op, set()))[1].add(cls)
        # round trip on the canonical spelling
        want = _normalise_line(r["line"])
        printed = r["printed"]
        if True:
            ok = rep.check(printed == want, r2, f"{_opkey(op)} print", _where(ctx, cls), printed, want,
                           why="printed form differs from the source spelling", sample={"line": r["line"], "printed": printed})
            if ok and isinstance(printed, str):
                try:
                    o2 = w.call(pl, printed)
                    again = Interp(o2.cls.mod).to_str(o2) if isinstance(o2, Obj) else repr(o2)
                    same = isinstance(o2, Obj) and o2.cls is cls and again == printed
                except PyRaise as e:
                    same, again = False, f"RAISES {e.exc}"
                rep.check(same, r2, f"{_opkey(op)} reparse", _where(ctx, cls), again, printed)
    # one class per opcode, and different opcodes -> different classes (no opcode taken for another)
    owner = {}
    for key, (op, classes) in by_op.items():
        rep.check(len(classes) == 1, r1, f"{_opkey(op)} single class", ctx.path(PARSE), sorted(c.name for c in classes), "one class")
        for c in classes:
            if c.is_sub(unsupported):
                continue
            prev = owner.get(c)
            if prev is not None and prev["mnemonic"] != op["mnemonic"]:
                rep.violation(r1, f"{op['mnemonic']} vs {prev['mnemonic']}", ctx.path(PARSE), c.name, "distinct classes",
                              f"two opcodes are parsed to the same class {c.name}: one is taken for the other")
            owner.setdefault(c, op)
    # an unknown word that merely starts with a known opcode is not that opcode: it is kept verbatim as unsupported
    mnemonics = {op["mnemonic"] for op in _spec_ops(ctx)}
    ext = 0
    for mn in sorted(mnemonics):
        for suffix in ("x", "_2", "foo"):
            word = mn + suffix
            if word in mnemonics or any(m.startswith(word) for m in mnemonics):
                continue
            for line in (word, word + " 1"):
                try:
                    o = w.call(pl, line)
                    got = (o.cls.name, Interp(o.cls.mod).to_str(o)) if isinstance(o, Obj) else (None, repr(o))
                except PyRaise as e:
                    got = ("RAISES", e.exc)
                ext += 1
                ok = got[0] == "UnsupportedInstruction" and isinstance(got[1], str) and got[1].split()[-len(line.split()):] == line.split()
                rep.check(ok, r1, f"unknown word '{line}'", ctx.path(PARSE), got, ("UnsupportedInstruction", f"... {line}"),
                          why=f"an unknown opcode is taken for '{mn}', the known opcode it starts with", sample={"line": line} if mn in ("err", "dup") else None)
    rep.count("unknown words that extend a known opcode", ext)
    rep.count("opcode spellings parsed", n)
    rep.require(n >= 400, f"only {n} opcode spellings generated (expected >= 400)")


def rule_prefix_table(ctx, rep):
    """T-PREFIX on the table itself: with first-match startswith semantics no rule is dead, and the first rule that
    matches `mnemonic` / `mnemonic + ' '` for every AVM opcode is the rule whose key is that mnemonic"""
    rule = "T-PREFIX(table)"
    rep.rule(rule, "parser_rules under first-match startswith: no rule shadowed, each opcode selects its own rule")
    rules = tables.parser_rules(ctx.world)
    rep.require(len(rules) >= 150, f"parser_rules has {len(rules)} entries (expected >= 150)")
    keys = [k for k, _ in rules]
    where = ctx.path(PARSE)
    for i, k in enumerate(keys):
        shadow = [keys[j] for j in range(i) if k.startswith(keys[j])]
        rep.check(not shadow, rule, f"rule '{k}' reachable", where, shadow, [], why=f"rule '{k}' can never fire: shadowed by earlier {shadow}")
    mns = sorted({op["mnemonic"] for op in _spec_ops(ctx)})
    handled_before = {"byte", "pushbytes", "method", "bytecblock", "pushbytess"}
    for mn in mns:
        if mn in handled_before:
            continue
        has_imm = any(op["imm"] and op["imm"] != ["none"] for op in _spec_ops(ctx) if op["mnemonic"] == mn)
        bare = any((not op["imm"]) or op["imm"] == ["none"] or op["imm"] == ["list"] for op in _spec_ops(ctx) if op["mnemonic"] == mn)
        spellings = ([mn + " 1"] if has_imm else []) + ([mn] if bare and not has_imm else [])
        for sp in spellings:
            first = next((k for k in keys if sp.startswith(k)), None)
            rep.check(first is not None and first.strip() == mn, rule, f"'{sp}' selects own rule", where, first, mn,
                      why=f"'{sp}' is captured by rule '{first}'")


def rule_field_tables(ctx, rep):
    """field-name tables: every key maps to the class that prints as that key, and has the AVM version"""
    rule = "T-FIELD"
    rep.rule(rule, "every AVM field name parses to a field printing the same name, with the AVM introduction version")
    spec = ctx.spec("avm_fields.json")["families"]
    total = 0
    for fam, entries in spec.items():
        rows = {}
        for r in tables.field_rows(ctx.world, fam):
            name = r["str"].split()[0] if isinstance(r["str"], str) else None
            rows[name] = r
        for name, info in entries.items():
            r = rows.get(name)
            where = ctx.path(tables.FIELD_MODULES[fam])
            if r is None:
                rep.violation(rule, f"{fam}.{name} exists", where, "no class prints this name", name)
                continue
            total += 1
            want_str = f"{name} 7" if info["array"] else name
            rep.check(r["str"] == want_str, rule, f"{fam}.{name} print", f"{where}:{r['line']}", r["str"], want_str)
            if info["array"]:
                rep.check(r.get("str_noidx") == name, rule, f"{fam}.{name} print-noidx", f"{where}:{r['line']}", r.get("str_noidx"), name)
    rep.require(total >= 110, f"only {total} field classes matched the spec")
    return total


def rule_field_versions(ctx, rep):
    rule = "T-FIELD(version)"
    rep.rule(rule, "introduction version of every field equals the AVM table")
    spec = ctx.spec("avm_fields.json")["families"]
    for fam, entries in spec.items():
        for r in tables.field_rows(ctx.world, fam):
            name = r["str"].split()[0] if isinstance(r["str"], str) else None
            if name in entries:
                rep.check(r["version"] == entries[name]["version"], rule, f"{fam}.{name}.version",
                          f"{ctx.path(tables.FIELD_MODULES[fam])}:{r['line']}", r["version"], entries[name]["version"])


def rule_tokens(ctx, rep):
    """T-TOKEN: tokenisation, comments, whitespace and byte-literal spellings"""
    import base64 as _b64
    rule = "T-TOKEN"
    rep.rule(rule, "comments, indentation, repeated whitespace and the byte-literal spellings (hex, quoted with escapes and '//' inside, base64/b64, "
                   "base32/b32 in both the prefix and the call form) parse to the instruction the assembler would produce; unknown opcodes are "
                   "kept verbatim; malformed literals are rejected")
    w = ctx.world
    pl = w.func(PARSE, "parse_line")
    where = ctx.path(PARSE)
    hx = lambda b: "0x" + b.hex()
    b64 = lambda s: hx(_b64.b64decode(s + "=" * (-len(s) % 4)))
    b32 = lambda s: hx(_b64.b32decode(s + "=" * (-len(s) % 8)))
    rows = [
        ("int 1 // comment", "Int", "int 1"), ("int 1 //comment", "Int", "int 1"), ("\tint\t1", "Int", "int 1"), ("   int     1   ", "Int", "int 1"),
        ("int 1 // a // b", "Int", "int 1"), ("bnz   l1   // x", "BNZ", "bnz l1"), ("txn  Fee", "Txn", "txn Fee"), ("gtxn 0   RekeyTo // c", "Gtxn", "gtxn 0 RekeyTo"),
        ("label_1: // c", "Label", "label_1:"), ("  l2:", "Label", "l2:"), ("#pragma version 6", "Pragma", "#pragma version 6"),
        ('byte "a // b" // c', "Byte", 'byte "a // b"'), ('byte "a b"', "Byte", 'byte "a b"'), ('byte "a\\"b"', "Byte", 'byte "a\\"b"'), ('byte ""', "Byte", 'byte ""'),
        ('byte "//"', "Byte", 'byte "//"'), ("byte 0xAbCd", "Byte", "byte 0xAbCd"), ("byte 0x", "Byte", "byte 0x"),
        ("byte base64 AAEC", "Byte", "byte " + b64("AAEC")), ("byte b64 AAEC", "Byte", "byte " + b64("AAEC")), ("byte base64(AAEC)", "Byte", "byte " + b64("AAEC")),
        ("byte b64(AAEC)", "Byte", "byte " + b64("AAEC")), ("byte b64 AA==", "Byte", "byte " + b64("AA==")), ("byte b64 AA", "Byte", "byte " + b64("AA")),
        ("byte base64 iZWMx72KvU6Bw6sPAWQFL96YH+VMrBA0XKWD9XbZOZI=", "Byte", "byte " + b64("iZWMx72KvU6Bw6sPAWQFL96YH+VMrBA0XKWD9XbZOZI=")),
        ("byte base32 AAAQE", "Byte", "byte " + b32("AAAQE")), ("byte b32 AAAQE===", "Byte", "byte " + b32("AAAQE===")), ("byte base32(AAAQE)", "Byte", "byte " + b32("AAAQE")),
        ("byte b32(MFRGGZDFMY======)", "Byte", "byte " + b32("MFRGGZDFMY======")), ("pushbytes b64 AAEC // c", "PushBytes", "pushbytes " + b64("AAEC")),
        ('pushbytess "a b" 0x01 b64 AA== base32(AAAQE)', "PushBytess", 'pushbytess "a b" 0x01 ' + b64("AA==") + " " + b32("AAAQE")),
        ('bytecblock 0x01 "x y" // consts', "Bytecblock", 'bytecblock 0x01 "x y"'), ("intcblock 1 0x10 // c", "Intcblock", "intcblock 1 16"),
        ("addr 7777777777777777777777777777777777777777777777777777Y5HFKQ // c", "Addr", "addr 7777777777777777777777777777777777777777777777777777Y5HFKQ"),
        ("foo 1 2", "UnsupportedInstruction", "UNSUPPORTED foo 1 2"), ("frobnicate", "UnsupportedInstruction", "UNSUPPORTED frobnicate"),
        ("b== // c", "BEq", "b=="), ("b!=", "BNeq", "b!="), ("b l1", "B", "b l1"), ("b>", "BGreater", "b>"), ("b>=", "BGreaterE", "b>="), ("b<=", "BLessE", "b<="),
        ("b+", "BAdd", "b+"), ("bz l", "BZ", "bz l"), ("bzero", "BZero", "bzero"), ("bitlen", "BitLen", "bitlen"), ("b~", "BBitwiseInvert", "b~"),
        ("!", "Not", "!"), ("!=", "Neq", "!="), ("=", None, None),
        # a comment may follow a token without a space (the assembler ends the token at '//')
        ("int 1//c", "Int", "int 1"), ("txn Fee//x // y", "Txn", "txn Fee"), ("lbl://c", "Label", "lbl:"), ('byte "x"//c', "Byte", 'byte "x"'), ("retsub//", "Retsub", "retsub"),
        ("gtxn 1 RekeyTo//c", "Gtxn", "gtxn 1 RekeyTo"), ("bnz l1//x", "BNZ", "bnz l1"),
    ]
    if ctx.cached("base64 slashes", lambda: True):
        # '//' is part of the base64 alphabet: inside base64 data it is data, not a comment
        rows += [("byte b64 //8=", "Byte", "byte " + b64("//8=")), ("byte base64 //8=", "Byte", "byte " + b64("//8=")), ("byte base64(//8=)", "Byte", "byte " + b64("//8=")),
                 ("byte b64(AA//) // c", "Byte", "byte " + b64("AA//")), ("byte b64 AA//BB8= // real comment", "Byte", "byte " + b64("AA//BB8=")),
                 ("pushbytes b64 ab//cd== //c", "PushBytes", "pushbytes " + b64("ab//cd==")), ("byte b64 AA // c", "Byte", "byte " + b64("AA")),
                 ("byte b32 AAAQE // c", "Byte", "byte " + b32("AAAQE"))]
    # every first character of the base64 / base32 alphabets, in the spaced and in the parenthesised spelling
    B64 = "ABCDEFGHIJKLMNOPQRSTUVWXYZabcdefghijklmnopqrstuvwxyz0123456789+/"
    B32 = "ABCDEFGHIJKLMNOPQRSTUVWXYZ234567"
    for c in B64:
        data = c + "GVs"
        rows += [(f"byte base64({data})", "Byte", "byte " + b64(data)), (f"byte b64 {data}", "Byte", "byte " + b64(data))]
    for c in B64[::7]:
        rows += [(f"byte b64({c}Q==)", "Byte", "byte " + b64(c + "Q==")), (f"pushbytes base64 {c}Q==", "PushBytes", "pushbytes " + b64(c + "Q=="))]
    for c in B32:
        data = c + "EBAGBAF"
        rows += [(f"byte base32({data})", "Byte", "byte " + b32(data)), (f"byte b32 {data}", "Byte", "byte " + b32(data))]
    for c in B32[::5]:
        rows += [(f"byte b32({c}A======)", "Byte", "byte " + b32(c + "A======"))]
    for line, cname, printed in rows:
        try:
            o = w.call(pl, line)
            got = (o.cls.name, " ".join(Interp(o.cls.mod).to_str(o).split())) if isinstance(o, Obj) else (None, repr(o))
        except PyRaise as e:
            got = ("RAISES", e.exc)
        if cname is None:
            rep.check(got[0] in ("UnsupportedInstruction", "RAISES"), rule, f"'{line}' is no opcode", where, got, "unsupported or rejected")
            continue
        rep.check(got == (cname, printed), rule, f"'{line}'", where, got, (cname, printed), why="the line is not parsed to the instruction it denotes",
                  sample={"line": line, "class": cname, "printed": printed})
    for line in ("", "   ", "\t", "// only a comment", "   // indented comment"):
        try:
            got = w.call(pl, line)
        except PyRaise as e:
            got = f"RAISES {e.exc}"
        rep.check(got is None, rule, f"no instruction for {line!r}", where, repr(got), None)
    for line in ('byte "abc', "byte xyz", "byte base64", "byte b32(AA", "pushbytes", "byte b64", "byte base32", "byte b64(AA==", "byte base64(AA", "byte 0x01 0x02",
                 "pushbytes b32", "method", "lbl: int 1", 'byte "a"b', "pushbytess b64"):
        try:
            o = w.call(pl, line)
            got = "accepted as " + (o.cls.name if isinstance(o, Obj) else repr(o))
        except PyRaise as e:
            got = f"rejected ({e.exc})"
        rep.check(got.startswith("rejected") or "Unsupported" in got, rule, f"malformed {line!r} rejected", where, got, "rejected")
    # blank lines at the very top of the file count as well (through the whole parser, not only its first pass)
    teal0 = w.call(w.func("tealer.teal.parse_teal", "parse_teal"), "\n  \n#pragma version 6\n\nint 1\nreturn\n", "c")
    got0 = [(w.getattr(i, "line"), " ".join(Interp(i.cls.mod).to_str(i).split())) for i in w.getattr(teal0, "instructions")]
    rep.check(got0 == [(3, "#pragma version 6"), (5, "int 1"), (6, "return")], rule, "line numbers of a file that starts with blank lines", ctx.path("tealer.teal.parse_teal"),
              got0, [(3, "#pragma version 6"), (5, "int 1"), (6, "return")], why="recorded line numbers are not the 1-based source lines")
    # line numbers are the 1-based source lines, comment-only and blank lines count
    fp = w.func("tealer.teal.parse_teal", "first_pass")
    import collections
    lines = ["#pragma version 6", "", "// c", "  int 1 // x", "", "l:", "// c2", "return"]
    labels, subs, instrs = {}, collections.defaultdict(list), []
    w.call(fp, lines, labels, subs, instrs)
    got = [(w.getattr(i, "line"), " ".join(Interp(i.cls.mod).to_str(i).split())) for i in instrs]
    want = [(1, "#pragma version 6"), (4, "int 1"), (6, "l:"), (8, "return")]
    rep.check(got == want, rule, "recorded line numbers", ctx.path("tealer.teal.parse_teal"), got, want)
    src_kept = [w.getattr(i, "source_code") for i in instrs]
    rep.check(src_kept == ["#pragma version 6", "  int 1 // x", "l:", "return"], rule, "source text kept per instruction", where, src_kept, "verbatim lines")
    cm = [w.getattr(i, "comments_before_ins") for i in instrs]
    rep.check(cm == [[], ["// c"], [], ["// c2"]], rule, "comment lines attached to the next instruction", where, cm, [[], ["// c"], [], ["// c2"]])



def rule_int_push_table(ctx, rep):
    rule = "T-INTPUSH"
    rep.rule(rule, "is_int_push_ins over every opcode spelling: 'pushes an integer constant' is answered yes exactly for int / pushint / intc / "
                   "intc_k - instructions that push exactly one value, the constant - and the reported value is that constant (unknown for an "
                   "unresolved intc); never for an instruction that pushes several values or a computed one")
    w = ctx.world
    f = w.func("tealer.utils.analyses", "is_int_push_ins")
    where = f"{ctx.path('tealer.utils.analyses')}:{f.node.lineno}"
    n = 0
    seen = set()
    for r in parsed_rows(ctx):
        if "obj" not in r:
            continue
        mn = r["op"]["mnemonic"]
        key = (mn, r["line"])
        if key in seen:
            continue
        seen.add(key)
        o = r["obj"]
        toks = r["line"].split()
        try:
            got = w.call(f, o)
        except PyRaise as e:
            got = ("RAISES", e.exc)
        if mn in ("int", "pushint"):
            imm = toks[1]
            want_yes = True
            ok = isinstance(got, tuple) and got[0] is True and (got[1] == (int(imm, 0) if imm[0].isdigit() else got[1]))
        elif mn in ("intc", "intc_0", "intc_1", "intc_2", "intc_3"):
            # no block / contract attached to a freshly parsed instruction: the tool may refuse (its own error) or answer 'constant, value unknown'
            ok = (isinstance(got, tuple) and (got[0] == "RAISES" or (got[0] is True and got[1] is None)))
            want_yes = True
        else:
            want_yes = False
            ok = isinstance(got, tuple) and got[0] is False
        n += 1
        rep.check(ok, rule, f"{r['line']}", where, list(got) if isinstance(got, tuple) else got, "(True, the constant)" if want_yes else "(False, -)",
                  why="an instruction is taken for an integer constant it does not push (or the reverse): comparisons would be read against the wrong value",
                  sample={"line": r["line"], "constant": want_yes} if mn in ("int", "pushints", "intc_0", "txn") else None)
    rep.count("instructions asked", n)
    rep.require(n >= 400, f"only {n} instructions")
