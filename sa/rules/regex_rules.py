"""C20: the regex engine evaluated abstractly on program shape classes against a reference
(instruction-level reachability from the label, straight-line matching by printed text, covered = instructions on a
path from the label to a match)."""
from ..absint import Obj, Interp, PyRaise, Unsupported
from .cfg_rules import PT

RX = "tealer.utils.regex.regex"

PROGRAMS = {
    "straight line": "#pragma version 6\nstart:\nint 1\nint 2\n+\nint 4\npop\nint 1\nreturn\n",
    "diamond": "#pragma version 6\nstart:\nint 1\nbnz right\nint 2\nb join\nright:\nint 3\njoin:\nint 4\npop\nint 1\nreturn\n",
    "diamond, match in one arm": "#pragma version 6\nstart:\nint 1\nbnz right\nint 4\npop\nb join\nright:\nint 3\npop\njoin:\nint 1\nreturn\n",
    "loop before the match": "#pragma version 6\nstart:\nint 0\nloop:\nint 1\n+\ndup\nint 3\n<\nbnz loop\nint 4\npop\nint 1\nreturn\n",
    "match only in unreachable-from-label code": "#pragma version 6\nint 4\npop\nb start\nstart:\nint 1\nreturn\n",
    "the named label is a loop head": "#pragma version 6\nint 0\nstart:\nint 1\n+\ndup\nint 3\n<\nbz done\ndup\npop\nb start\ndone:\nint 4\npop\nint 1\nreturn\n",
    "the named label is a loop head inside a diamond": "#pragma version 6\ntxn Amount\nbz start\nint 7\npop\nstart:\ntxn Fee\nbnz out\nint 4\npop\nb start\nout:\nint 1\nreturn\n",
    "two matches": "#pragma version 6\nstart:\nint 4\npop\nint 1\nbz other\nint 4\npop\nother:\nint 1\nreturn\n",
    "match across a label": "#pragma version 6\nstart:\nint 1\nbz m\nm:\nint 4\nl2:\npop\nint 1\nreturn\n",
    "no match": "#pragma version 6\nstart:\nint 1\nint 2\n==\nreturn\n",
    "pattern interrupted by a branch": "#pragma version 6\nstart:\nint 4\nbz x\npop\nx:\nint 1\nreturn\n",
    "three-way join": "#pragma version 6\nstart:\ntxn Amount\nbnz a\ntxn Fee\nbnz b\nint 9\nb join\na:\nint 8\nb join\nb:\nint 7\njoin:\nint 4\npop\nint 1\nreturn\n",
    "match after a subroutine call (instruction edges stay in the caller)": "#pragma version 6\nstart:\ncallsub f\nint 4\npop\nint 1\nreturn\nf:\nint 4\npop\nretsub\n",
}
PATTERNS = {"int 4 / pop": "int 4\npop", "int 4": "int 4", "int 1 / return": "int 1\nreturn", "int 4 / pop / int 1": "int 4\npop\nint 1",
            "int 4 / pop / int 1 / return": "int 4\npop\nint 1\nreturn",
            # every line of the pattern is an instruction of the pattern: the version line and labels too
            "#pragma version 6 / start:": "#pragma version 6\nstart:", "#pragma version 6": "#pragma version 6", "#pragma version 5": "#pragma version 5",
            "start: / int 4": "start:\nint 4",
            # a pattern that runs past the end of straight-line code (after return / past a branch) matches nowhere
            "int 1 / return / int 9": "int 1\nreturn\nint 9", "pop / int 1 / return / pop": "pop\nint 1\nreturn\npop",
            # blank lines inside the pattern are not instructions
            "int 4 / (blank) / pop": "int 4\n\npop"}


def reference(ctx, teal, label, pattern_lines):
    """(matches as lists of source lines, covered source lines) by an independent two-pass computation on the instruction graph"""
    w = ctx.world
    it = Interp(teal.cls.mod)
    instrs = list(w.getattr(teal, "instructions"))
    text = {id(i): " ".join(it.to_str(i).split()) for i in instrs}
    line = {id(i): w.getattr(i, "line") for i in instrs}
    nxt = {id(i): list(w.getattr(i, "next")) for i in instrs}
    if label == "*":
        start = instrs[0]
    else:
        cands = [i for i in instrs if text[id(i)] == label + ":"]
        if not cands:
            return None, None
        start = cands[0]
    reach, order, st = set(), [], [start]
    while st:
        x = st.pop()
        if id(x) in reach:
            continue
        reach.add(id(x))
        order.append(x)
        st.extend(nxt[id(x)])
    matches = []
    for x in order:
        cur, seq, ok = x, [], True
        for k, pl in enumerate(pattern_lines):
            if cur is None or text[id(cur)] != pl:
                ok = False
                break
            seq.append(cur)
            if k + 1 < len(pattern_lines):
                succ = nxt[id(cur)]
                cur = succ[0] if len(succ) == 1 else None
        if ok:
            matches.append([line[id(i)] for i in seq])
    starts = {m[0] for m in matches}
    # covered: reachable instructions from which a match start is reachable through at least one edge
    can = set()
    changed = True
    while changed:
        changed = False
        for x in order:
            if id(x) in can:
                continue
            if any(line[id(s)] in starts or id(s) in can for s in nxt[id(x)] if id(s) in reach):
                can.add(id(x))
                changed = True
    covered = sorted(line[i] for i in can)
    return sorted(matches), covered


def rule_regex(ctx, rep):
    rule = "T-REGEX"
    rep.rule(rule, "match_regex evaluated abstractly on program shape classes x patterns of 1-3 instructions: a match is reported exactly at every "
                   "instruction reachable from the label where the pattern occurs in straight-line code, each match lists its instructions in "
                   "order; 'covered' is exactly the set of instructions from which a match is reachable (all arms of a join)")
    w = ctx.world
    pt = w.func(PT, "parse_teal")
    parse_rx, match = w.func(RX, "parse_regex"), w.func(RX, "match_regex")
    where = ctx.path(RX)
    n = 0
    for pname, src in PROGRAMS.items():
        teal = w.call(pt, src, "c")
        for lbl in ("start", "*"):
            for patname, pat in PATTERNS.items():
                rx = w.call(parse_rx, f"{lbl} =>\n{pat}\n")
                try:
                    w.stdout = []
                    ms, cov = w.call(match, teal, rx)
                    got_m = sorted([w.getattr(i, "line") for i in m] for m in ms)
                    got_c = sorted(w.getattr(i, "line") for i in cov)
                except PyRaise as e:
                    rep.violation(rule, f"{pname} / {lbl} => {patname}: runs", where, f"RAISES {e.exc} {e.where}", "matches")
                    continue
                finally:
                    w.stdout = None
                want_m, want_c = reference(ctx, teal, lbl, [l for l in pat.splitlines() if l.strip()])
                n += 1
                rep.check(got_m == want_m, rule, f"matches: {pname} / {lbl} => {patname}", where, got_m, want_m,
                          why="reported matches differ from the reachable straight-line occurrences of the pattern",
                          sample={"program": pname, "label": lbl, "pattern": patname, "matches": want_m})
                rep.check(got_c == want_c, rule, f"covered: {pname} / {lbl} => {patname}", where, got_c, want_c,
                          why="the covered set is not the set of instructions on a path from the label to a match")
    # unknown label
    teal = w.call(pt, PROGRAMS["straight line"], "c")
    w.stdout = []
    r = w.call(match, teal, w.call(parse_rx, "nolabel =>\nint 4\n"))
    w.stdout = None
    rep.check(isinstance(r, tuple) and list(r[0]) == [] and len(r[1]) == 0, rule, "unknown label gives no match", where, repr(r), "([], set())")
    # text without '=>' is rejected with the tool's own error
    try:
        w.call(parse_rx, "int 4\npop\n")
        got = "accepted"
    except PyRaise as e:
        got = f"rejected ({e.exc})"
    rep.check(got == "rejected (ValueError)", rule, "pattern text without '=>' is rejected", where, got, "rejected (ValueError)")
    # a conditional branch is not straight-line code, even when its target is the instruction that follows it
    src_b = "#pragma version 6\nstart:\nint 1\nbnz skip\nskip:\nint 4\npop\nint 1\nreturn\n"
    teal_b = w.call(pt, src_b, "c")
    for patname, pat, want_b in (("int 1 / bnz skip / skip:", "int 1\nbnz skip\nskip:", []), ("bnz skip / skip: / int 4", "bnz skip\nskip:\nint 4", []),
                                 ("int 1 / bnz skip", "int 1\nbnz skip", [[3, 4]]), ("skip: / int 4 / pop", "skip:\nint 4\npop", [[5, 6, 7]])):
        try:
            w.stdout = []
            ms, cov = w.call(match, teal_b, w.call(parse_rx, f"start =>\n{pat}\n"))
            got_b = sorted([w.getattr(i, "line") for i in m] for m in ms)
        except PyRaise as e:
            got_b = f"RAISES {e.exc} {e.where}"
        finally:
            w.stdout = None
        rep.check(got_b == want_b, rule, f"branch to the directly following label / start => {patname}", where, got_b, want_b,
                  why="a pattern is matched through a conditional branch (or not matched in straight-line code next to one)")
    rep.count("regex evaluations", n)
