"""The context analysis evaluated abstractly on a whole (small) program, restricted to base keys (no gtxn keys)."""
from ..absint import Obj, Interp, PyRaise, Unsupported
from .cfg_rules import PT, PF
from .cmptables import _find_analyses, _addr_consts

DEFAULT = (("int_fields", None), ("addr_fields", ["RekeyTo"]), ("fee_field", ["Fee"]), ("txn_types", None))


def analyse(ctx, src, which=DEFAULT, path=("B0",), reverse_order=False):
    """{(key): {block idx: normalised value}} of the function cut out by `path`; reverse_order=True hands the analyses the function's
    block list and subroutine table in the opposite order (the order of both is an accident of set iteration in construct_function)"""
    w = ctx.world
    w.module(PF).values["_apply_transaction_context_analysis"] = ("builtin", "noop")
    teal = w.call(w.func(PT, "parse_teal"), src, "c")
    fn = w.call(w.func(PF, "construct_function"), teal, list(path))
    if reverse_order:
        blocks = w.getattr(fn, "blocks")
        blocks.reverse()
        subs = w.getattr(fn, "subroutines")
        items = list(subs.items())[::-1]
        subs.clear()
        subs.update(items)
    an = _find_analyses(ctx)
    out = {}
    for modname, keys in which:
        me = w.new(an[modname], fn)
        if keys is not None:
            me.fields["BASE_KEYS"] = list(keys)
        me.fields["KEYS_WITH_GTXN"] = []
        me.fields["_store_results"] = ("builtin", "noop")
        w.call(w.method(me, "run_analysis"))
        bc = w.getattr(me, "_block_contexts")
        for key in (keys or list(w.getattr(me, "BASE_KEYS"))):
            vals = {}
            for b in w.getattr(fn, "blocks"):
                v = bc[key][b]
                if isinstance(v, Obj):
                    v = ("unknown" if w.getattr(v, "is_unknown") else w.getattr(v, "value"))
                elif isinstance(v, (set, frozenset)):
                    v = tuple(sorted(map(str, v)))
                vals[w.getattr(b, "idx")] = v
            out[key] = vals
    lines = {w.getattr(b, "idx"): [w.getattr(i, "line") for i in w.getattr(b, "instructions")] for b in w.getattr(fn, "blocks")}
    return out, lines
