"""E3 - structured guard inference over the statement tree.

Python has no goto, so the conditions under which a statement executes can be read off the tree:
a statement inherits the guards of the enclosing if/else arms and, in addition, the negation of
every earlier sibling `if c:` whose body always leaves the block (return / raise / continue /
break on all paths).  Loops contribute a `loop` marker with their iterable.

walk(fn) -> list of Site(stmt, guards, loops) for every statement of the function body (nested
function bodies are separate scopes and are not entered).
"""
import ast
from dataclasses import dataclass, field
from typing import List, Tuple


@dataclass
class Site:
    stmt: ast.AST
    guards: Tuple[Tuple[ast.AST, bool], ...]       # (test expression, polarity)
    loops: Tuple[ast.AST, ...]                     # enclosing For/While statements, outermost first
    after: Tuple[ast.AST, ...] = ()                # earlier statements of the same and enclosing blocks (straight-line order)


def leaves(stmts):
    """does every path through this statement list leave the enclosing block?"""
    for st in stmts:
        if isinstance(st, (ast.Return, ast.Raise, ast.Continue, ast.Break)):
            return True
        if isinstance(st, ast.If) and st.orelse and leaves(st.body) and leaves(st.orelse):
            return True
        if isinstance(st, ast.Expr) and isinstance(st.value, ast.Call) and ast.unparse(st.value.func) in ("sys.exit", "parser.exit", "exit"):
            return True
    return False


def _split_and(test, pol):
    """a positive conjunction contributes each conjunct; a negated disjunction likewise"""
    if isinstance(test, ast.BoolOp) and ((isinstance(test.op, ast.And) and pol) or (isinstance(test.op, ast.Or) and not pol)):
        out = []
        for v in test.values:
            out += _split_and(v, pol)
        return out
    if isinstance(test, ast.UnaryOp) and isinstance(test.op, ast.Not):
        return _split_and(test.operand, not pol)
    return [(test, pol)]


def walk(fn):
    out: List[Site] = []

    def rec(stmts, guards, loops, before):
        guards = list(guards)
        before = list(before)
        for st in stmts:
            out.append(Site(st, tuple(guards), tuple(loops), tuple(before)))
            if isinstance(st, ast.If):
                rec(st.body, guards + _split_and(st.test, True), loops, before)
                rec(st.orelse, guards + _split_and(st.test, False), loops, before)
                if leaves(st.body):
                    guards += _split_and(st.test, False)
                elif st.orelse and leaves(st.orelse):
                    guards += _split_and(st.test, True)
            elif isinstance(st, (ast.For, ast.While)):
                rec(st.body, guards, loops + [st], before)
                rec(st.orelse, guards, loops, before)
            elif isinstance(st, ast.With):
                rec(st.body, guards, loops, before)
            elif isinstance(st, ast.Try):
                rec(st.body, guards, loops, before)
                for h in st.handlers:
                    rec(h.body, guards, loops, before)
                rec(st.orelse, guards, loops, before)
                rec(st.finalbody, guards, loops, before)
            before.append(st)

    body = fn.body if isinstance(fn.body, list) else [ast.Return(value=fn.body)]
    rec(body, [], [], [])
    return out


def calls_in(node):
    """Call nodes inside `node`, not entering nested function definitions / lambdas"""
    out = []

    def rec(n):
        for ch in ast.iter_child_nodes(n):
            if isinstance(ch, (ast.FunctionDef, ast.Lambda, ast.ClassDef)):
                continue
            if isinstance(ch, ast.Call):
                out.append(ch)
            rec(ch)
    if isinstance(node, ast.Call):
        out.append(node)
    rec(node)
    return out


def names_in(node):
    return {n.id for n in ast.walk(node) if isinstance(n, ast.Name)}


def params(fn):
    return [a.arg for a in fn.args.posonlyargs + fn.args.args]
