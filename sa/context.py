"""Shared analysis context: the parsed repository (E0), the abstract evaluator world (E2), the spec tables."""
import ast
import json
import pathlib

from .absint import World
from .report import AnalysisError

VERIF = pathlib.Path(__file__).resolve().parent.parent


class Ctx:
    def __init__(self, root="/repo", tier="quick", seed=0):
        self.root = pathlib.Path(root)
        self.tier, self.seed = tier, seed
        if not (self.root / "tealer").is_dir():
            raise AnalysisError(f"{self.root}/tealer not found")
        self.world = World(str(self.root))
        self._trees = None
        self._spec = {}
        self._cache = {}

    def spec(self, name):
        if name not in self._spec:
            self._spec[name] = json.loads((VERIF / "spec" / name).read_text())
        return self._spec[name]

    def fresh_world(self):
        return World(str(self.root))

    # ---- E0: every module of the package, parsed
    @property
    def trees(self):
        if self._trees is None:
            self._trees = {}
            files = sorted((self.root / "tealer").rglob("*.py"))
            for p in files:
                rel = p.relative_to(self.root)
                name = ".".join(rel.with_suffix("").parts)
                if name.endswith(".__init__"):
                    name = name[: -len(".__init__")]
                try:
                    t = ast.parse(p.read_text())
                except SyntaxError as e:
                    raise AnalysisError(f"{rel}: does not parse: {e}")
                for n in ast.walk(t):
                    n._mod = name
                t._path = str(rel)
                self._trees[name] = t
            if len(self._trees) != len(files):
                raise AnalysisError("module name collision while loading the package")
        return self._trees

    def tree(self, dotted):
        t = self.trees.get(dotted)
        if t is None:
            raise AnalysisError(f"anchor module {dotted} not found")
        return t

    def path(self, dotted):
        return self.tree(dotted)._path

    def func(self, dotted, qualname):
        """FunctionDef by module and dotted qualname (Class.method, outer.inner)"""
        node = self.tree(dotted)
        for part in qualname.split("."):
            found = None
            for ch in ast.walk(node) if not isinstance(node, ast.Module) else node.body:
                if isinstance(ch, (ast.FunctionDef, ast.ClassDef)) and ch.name == part and ch is not node:
                    found = ch
                    break
            if found is None:
                raise AnalysisError(f"anchor {dotted}:{qualname} not found")
            node = found
        return node

    def where(self, dotted, node):
        return f"{self.path(dotted)}:{getattr(node, 'lineno', 0)}"

    def cached(self, key, fn):
        if key not in self._cache:
            self._cache[key] = fn()
        return self._cache[key]
