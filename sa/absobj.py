"""Builders of abstract inputs for the table extraction (E2).

Instruction objects are made by tealer's own constructors / parser evaluated abstractly, blocks by
BasicBlock's constructor and add_instruction, stack values by tealer's own construct_stack_ast - so the
inputs have exactly the shape the analysed code produces, and renaming a private field cannot make a
rule vacuous.
"""
from .absint import Obj, Term, Interp, PyRaise, Unsupported
from .report import AnalysisError

INS = "tealer.teal.instructions.instructions"
PARSE = "tealer.teal.instructions.parse_instruction"
SAB = "tealer.analyses.utils.stack_ast_builder"
BBM = "tealer.teal.basic_blocks"


class Builder:
    def __init__(self, ctx):
        self.ctx = ctx
        self.w = ctx.world
        self._parse_line = self.w.func(PARSE, "parse_line")
        self.BB = self.w.cls(BBM, "BasicBlock")
        self.KSV = self.w.cls(SAB, "KnownStackValue")
        self.USV = self.w.cls(SAB, "UnknownStackValue")
        self._gsv = self.w.func(SAB, "get_stack_value_for_ins")

    def ins(self, line):
        """an instruction object as the parser builds it for this source line"""
        if isinstance(line, Obj):
            return line
        o = self.w.call(self._parse_line, line)
        if not isinstance(o, Obj):
            raise AnalysisError(f"parser returned {o!r} for {line!r}")
        if o.cls.name == "UnsupportedInstruction":
            raise AnalysisError(f"parser does not recognise {line!r}")
        o.fields["__tag__"] = line
        return o

    def int_sym(self, term, opcode="int"):
        cls = self.ins(f"{opcode} 1").cls
        o = self.w.new(cls, term)
        o.fields["__tag__"] = f"{opcode} {term!r}"
        return o

    def cls(self, name):
        return self.w.cls(INS, name)

    def block(self, instrs, idx=0, teal=None):
        bb = self.w.new(self.BB)
        out = []
        for i in instrs:
            o = self.ins(i)
            self.w.call(self.w.method(bb, "add_instruction"), o)
            Interp(self.BB.mod).assign_attr(o, "bb", bb)
            out.append(o)
        Interp(self.BB.mod).assign_attr(bb, "idx", idx)
        if teal is not None:
            Interp(self.BB.mod).assign_attr(bb, "teal", teal)
        bb.fields["__tag__"] = f"B{idx}"
        return bb, out

    def stack_value(self, ins):
        return self.w.call(self._gsv, ins)

    def operand(self, instrs, consumer="assert", teal=None):
        """the stack value consumed by `consumer` placed after `instrs` in one block (tealer's own reconstruction)"""
        bb, objs = self.block(list(instrs) + [consumer], teal=teal)
        sv = self.stack_value(objs[-1])
        args = self.w.getattr(sv, "args")
        return args[0], bb, objs

    def is_unknown(self, v):
        return isinstance(v, Obj) and v.cls.is_sub(self.USV)


def analysis_object(ctx, module, clsname):
    """an instance of an analysis class without running its constructor: the table functions read class attributes only;
    a read of per-run state raises AttributeError -> surfaces as RAISES and fails the extraction"""
    cls = ctx.world.cls(module, clsname)
    return Obj(cls)


class Graph:
    """abstract CFG neighbourhoods made with tealer's own constructors (blocks, edges, subroutines, a function)"""

    def __init__(self, ctx):
        self.ctx = ctx
        self.b = Builder(ctx)
        self.w = ctx.world
        self.SUB = self.w.cls("tealer.teal.subroutine", "Subroutine")
        self.FN = self.w.cls("tealer.teal.functions", "Function")
        self.TEAL = self.w.cls("tealer.teal.teal", "Teal")
        self.teal = Obj(self.TEAL, _version=8, _int_constants=[], _byte_constants=[])
        self.blocks = {}
        self.subs = {}
        self._n = 0

    def block(self, name, instrs):
        bb, objs = self.b.block(instrs, idx=self._n, teal=self.teal)
        bb.fields["__tag__"] = name
        self._n += 1
        self.blocks[name] = bb
        return bb

    def edge(self, a, b, block_edge=True):
        """block edge a -> b plus the instruction edge exit(a) -> entry(b), as the four parser passes create them;
        block_edge=False adds only the instruction edge (second edge to the same block: `bz L` directly followed by `L:`)"""
        a, b = self.blocks[a], self.blocks[b]
        if block_edge:
            self.w.call(self.w.method(a, "add_next"), b)
            self.w.call(self.w.method(b, "add_prev"), a)
        ia, ib = self.w.getattr(a, "exit_instr"), self.w.getattr(b, "entry_instr")
        self.w.call(self.w.method(ia, "add_next"), ib)
        self.w.call(self.w.method(ib, "add_prev"), ia)

    def subroutine(self, name, entry, blocks):
        s = self.w.new(self.SUB, name, self.blocks[entry], [self.blocks[x] for x in blocks])
        it = Interp(self.SUB.mod)
        for x in blocks:
            it.assign_attr(self.blocks[x], "subroutine", s)
        self.subs[name] = s
        return s

    def call(self, callsub_block, sub):
        """bind the callsub instruction ending `callsub_block` to subroutine `sub`"""
        bb = self.blocks[callsub_block]
        ins = self.w.getattr(bb, "exit_instr")
        Interp(self.SUB.mod).assign_attr(ins, "called_subroutine", self.subs[sub])

    def function(self, main, subs=()):
        m = self.subs[main]
        allb = list(self.w.getattr(m, "blocks"))
        for s in subs:
            allb += list(self.w.getattr(self.subs[s], "blocks"))
        # contract-level caller tables, as parse_teal fills them
        for s in subs:
            callers = [bb for bb in self.blocks.values()
                       if self.w.getattr(bb, "is_callsub_block") and self.w.getattr(bb, "called_subroutine") is self.subs[s]]
            Interp(self.SUB.mod).assign_attr(self.subs[s], "caller_blocks", callers)
        fn = self.w.new(self.FN, "f", self.w.getattr(m, "entry"), allb, self.teal, m, {s: self.subs[s] for s in subs})
        return fn
