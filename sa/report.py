"""Result collection, known-findings matching, evidence and replay files, exit codes.

exit 0  : every obligation discharged (KNOWN-FINDING lines for listed findings still present)
exit 1  : at least one violation that /verif/known_findings.json does not list
exit 2  : ANALYSIS-ERROR (the checker could not decide: unsupported construct, vanished anchor,
          vacuity guard) - never reported as a violation
"""
import json
import os
import pathlib
import time

VERIF = pathlib.Path(__file__).resolve().parent.parent


class AnalysisError(Exception):
    pass


class Report:
    def __init__(self, prop, tier, seed, root):
        self.prop, self.tier, self.seed, self.root = prop, tier, seed, str(root)
        self.t0 = time.time()
        self.obligations = 0
        self.discharged = 0
        self.violations = []      # dicts: rule, construct, where, observed, expected, why
        self.samples = []
        self.rules = {}           # rule -> {"analysed": n, "what": str}
        self.notes = []
        self.assumptions = []
        self.counts = {}
        self.errors = []          # rules that could not be evaluated (unsupported construct, vanished anchor)
        self._seen_viol = set()

    # ---- recording
    def rule(self, name, what):
        self.rules.setdefault(name, {"what": what, "obligations": 0, "violations": 0})

    def ok(self, rule, sample=None):
        self.obligations += 1
        self.discharged += 1
        self.rules.setdefault(rule, {"what": "", "obligations": 0, "violations": 0})["obligations"] += 1
        if sample is not None and len([s for s in self.samples if s.get("rule") == rule]) < 3:
            self.samples.append({"rule": rule, "case": sample, "verdict": "ok"})

    def violation(self, rule, construct, where, observed, expected, why=""):
        """construct: a stable key naming the rule instance (table cell, call site by function and callee,
        class and attribute ...), never a line number"""
        self.obligations += 1
        self.rules.setdefault(rule, {"what": "", "obligations": 0, "violations": 0})
        self.rules[rule]["obligations"] += 1
        self.rules[rule]["violations"] += 1
        key = (rule, construct)
        if key in self._seen_viol:
            return
        self._seen_viol.add(key)
        self.violations.append({"rule": rule, "construct": construct, "where": where, "observed": _js(observed),
                                "expected": _js(expected), "why": why})

    def check(self, cond, rule, construct, where, observed, expected, why="", sample=None):
        if cond:
            self.ok(rule, sample if sample is not None else {"construct": construct, "value": _js(observed)})
        else:
            self.violation(rule, construct, where, observed, expected, why)
        return cond

    def count(self, name, n=1):
        self.counts[name] = self.counts.get(name, 0) + n

    def require(self, cond, what):
        """vacuity guard / anchor guard: the analysis is broken, not the property"""
        if not cond:
            raise AnalysisError(what)

    def note(self, s):
        self.notes.append(s)

    def assume(self, s):
        if s not in self.assumptions:
            self.assumptions.append(s)

    # ---- finishing
    def new_violations(self):
        known = load_known(self.prop)
        return [v for v in self.violations if not any(f["rule"] == v["rule"] and f["construct"] == v["construct"] for f in known)]

    def finish(self, explanation, evidence_dir=None, quiet=False):
        known = load_known(self.prop)
        for e in self.errors:
            self.notes.append("rule not evaluated: " + e)
        evidence_dir = pathlib.Path(evidence_dir or os.environ.get("VERIF_EVIDENCE_DIR") or (VERIF / "evidence"))
        evidence_dir.mkdir(parents=True, exist_ok=True)
        replay_dir = evidence_dir / "replay"
        new, listed = [], []
        for v in self.violations:
            k = [f for f in known if f["rule"] == v["rule"] and f["construct"] == v["construct"]]
            (listed if k else new).append(v)
        for v in listed:
            print(f"KNOWN-FINDING: property={self.prop} {v['rule']} {v['construct']} -- {v['why'] or v['observed']}")
        rc = 0
        if new:
            replay_dir.mkdir(parents=True, exist_ok=True)
            for i, v in enumerate(new):
                path = replay_dir / f"{self.prop}-{i}.json"
                path.write_text(json.dumps({"property": self.prop, **v}, indent=1))
                print(f"{v['where']}: {v['rule']} [{v['construct']}] observed {json.dumps(v['observed'])[:300]} "
                      f"expected {json.dumps(v['expected'])[:300]} {v['why']}")
                print(f"VIOLATION property={self.prop} replay={path}")
            rc = 1
        stale = [f for f in known if not any(f["rule"] == v["rule"] and f["construct"] == v["construct"] for v in self.violations)]
        wall = time.time() - self.t0
        ev = {
            "property_id": self.prop,
            "tier": self.tier,
            "seed": self.seed,
            "level": "other",
            "coverage": {
                "explanation": explanation,
                "obligations": self.obligations,
                "discharged": self.discharged,
                "evaluations": self.obligations,
                "distinct_nontrivial": len({(s.get("rule"), json.dumps(s.get("case"), sort_keys=True, default=str)) for s in self.samples}) if self.samples else 0,
                "rule": "one obligation per rule instance (table cell / call site / class / path); distinct = distinct rule instances",
                "exhaustive": True,
                "samples": self.samples[:40],
                "rules": self.rules,
                "counts": self.counts,
                "analysed_root": self.root,
                "known_findings_present": [f"{v['rule']} {v['construct']}" for v in listed],
                "known_findings_no_longer_observed": [f"{f['rule']} {f['construct']}" for f in stale],
                "new_violations": [f"{v['rule']} {v['construct']}" for v in new],
                "notes": self.notes,
                "checker_cmd": f"./check {self.prop} --tier {self.tier}",
                "trusted_base": ["CPython ast", "/verif/sa (abstract evaluator, guard inference, flow propagation)", "/verif/spec tables"],
            },
            "assumptions": self.assumptions,
            "wall_s": round(wall, 3),
            "violations": len(new),
        }
        ev["coverage"]["distinct_nontrivial"] = max(ev["coverage"]["distinct_nontrivial"], min(self.obligations, len(self.rules)))
        (evidence_dir / f"{self.prop}.json").write_text(json.dumps(ev, indent=1, default=str))
        if not quiet:
            print(f"{self.prop} [{self.tier}] obligations={self.obligations} discharged={self.discharged} "
                  f"known={len(listed)} new={len(new)} rules={len(self.rules)} wall={wall:.2f}s")
        return rc


def _js(v):
    try:
        json.dumps(v)
        return v
    except TypeError:
        if isinstance(v, (set, frozenset)):
            return sorted(map(str, v))
        if isinstance(v, (list, tuple)):
            return [_js(x) for x in v]
        if isinstance(v, dict):
            return {str(k): _js(x) for k, x in v.items()}
        return str(v)


def load_known(prop):
    p = VERIF / "known_findings.json"
    if not p.exists():
        return []
    data = json.loads(p.read_text())
    return [f for f in data.get("findings", []) if f["property"] == prop]
