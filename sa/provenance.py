"""E4 / P-BLOCK: which copy of the main CFG does a BasicBlock-valued expression denote?

Flow-insensitive, field-based qualifier propagation over the whole package, driven by the annotations
(the package is mypy --strict clean).  tealer keeps two copies of the main graph: the contract's
(`Teal.bbs`, `Teal.main.blocks`: MAIN_ORIG) and one per function (`Function.blocks/entry/main`: MAIN_COPY, plus the
error blocks ERR); subroutine blocks (SUB) are shared.  Per-function tables (`Function.transaction_context`) are keyed
by the function's blocks, reported paths are made of the function's blocks.  Rules:

* P-BLOCK(lookup)   - no argument of `Function.transaction_context(...)` may be a MAIN_ORIG block;
* P-BLOCK(identity) - no `in` / `==` / `is` relates a value that may be MAIN_ORIG but not MAIN_COPY with one that may be
                      MAIN_COPY but not MAIN_ORIG.

The rules fire only on known-bad qualifier sets, never on "unknown"; the graph-building modules (parse_teal,
parse_functions), which legitimately handle both copies, are not judged.
"""
import ast
import collections

MO, MC, SUB, ERR = 'MAIN_ORIG', 'MAIN_COPY', 'SUB', 'ERR'
BUILDERS = ('tealer.teal.parse_teal', 'tealer.teal.parse_functions')


def analyse(sources):
    """sources: {module name: source text}.  Returns (stats, sinks) where sinks = list of dicts"""
    mods = {}
    # ---------------------------------------------------------------- load
    for name, text in sources.items():
        mods[name] = ast.parse(text)
        for n in ast.walk(mods[name]):
            n._mod = name
    classes = {}
    for mname, t in mods.items():
        for n in t.body:
            if isinstance(n, ast.ClassDef):
                if n.name in classes: continue
                classes[n.name] = n
                n._mod = mname


    def bases(c):
        out = []
        for b in classes[c].bases:
            bn = b.id if isinstance(b, ast.Name) else getattr(b, 'attr', None)
            if bn in classes:
                out.append(bn)
                out += bases(bn)
        return out


    def mro(c):
        return [c] + bases(c)


    def find_member(c, name):
        for k in mro(c):
            for m in classes[k].body:
                if isinstance(m, ast.FunctionDef) and m.name == name:
                    return k, m
                if isinstance(m, ast.AnnAssign) and isinstance(m.target, ast.Name) and m.target.id == name:
                    return k, m
                if isinstance(m, ast.Assign) and any(isinstance(t, ast.Name) and t.id == name for t in m.targets):
                    return k, m
        return None, None


    # ---------------------------------------------------------------- types
    def parse_ann(a):
        """annotation AST -> type term: ('cls',N) | ('seq',T) | ('dict',K,V) | ('fn',) | None"""
        if a is None:
            return None
        if isinstance(a, ast.Constant) and isinstance(a.value, str):
            try:
                return parse_ann(ast.parse(a.value, mode='eval').body)
            except SyntaxError:
                return None
        if isinstance(a, ast.Name):
            if a.id in classes:
                return ('cls', a.id)
            return None
        if isinstance(a, ast.Attribute):
            return ('cls', a.attr) if a.attr in classes else None
        if isinstance(a, ast.Subscript):
            head = a.value.id if isinstance(a.value, ast.Name) else getattr(a.value, 'attr', '')
            args = a.slice.elts if isinstance(a.slice, ast.Tuple) else [a.slice]
            if head in ('List', 'Set', 'Sequence', 'Iterable', 'list', 'set', 'Type'):
                return ('seq', parse_ann(args[0]))
            if head == 'Optional':
                return parse_ann(args[0])
            if head in ('Dict', 'dict', 'DefaultDict'):
                return ('dict', parse_ann(args[0]), parse_ann(args[1]))
            if head == 'Tuple':
                return ('seq', None)
            if head == 'Callable':
                return ('fn',)
        return None


    class FuncInfo:
        def __init__(self, node, cls, parent, mod):
            self.node, self.cls, self.parent, self.mod = node, cls, parent, mod
            self.id = f'{mod}:{getattr(node, "name", "<lambda>")}:{node.lineno}'
            self.params = [a.arg for a in node.args.posonlyargs + node.args.args]
            self.locals_types = {}

        def __repr__(self):
            return self.id


    funcs = {}      # node -> FuncInfo
    by_name = collections.defaultdict(list)   # simple name -> [FuncInfo]


    def index_funcs(node, cls, parent, mod):
        for ch in ast.iter_child_nodes(node):
            if isinstance(ch, ast.ClassDef):
                index_funcs(ch, ch.name, parent, mod)
            elif isinstance(ch, (ast.FunctionDef, ast.Lambda)):
                fi = FuncInfo(ch, cls, parent, mod)
                funcs[ch] = fi
                if isinstance(ch, ast.FunctionDef):
                    by_name[ch.name].append(fi)
                index_funcs(ch, None if isinstance(ch, ast.FunctionDef) and cls and False else cls, fi, mod)
            else:
                index_funcs(ch, cls, parent, mod)


    for mname, t in mods.items():
        index_funcs(t, None, None, mname)

    module_funcs = {}
    for mname, t in mods.items():
        for n in t.body:
            if isinstance(n, ast.FunctionDef):
                module_funcs.setdefault(n.name, []).append(funcs[n])


    def attr_type(cname, attr):
        k, m = find_member(cname, attr)
        if m is None:
            # instance attribute assigned in __init__
            for kk in mro(cname):
                ki, init = find_member(kk, '__init__')
                if init is None or not isinstance(init, ast.FunctionDef):
                    continue
                for st in ast.walk(init):
                    tgt = None
                    if isinstance(st, ast.AnnAssign):
                        tgt, ann, val = st.target, st.annotation, st.value
                    elif isinstance(st, ast.Assign):
                        tgt, ann, val = st.targets[0], None, st.value
                    if isinstance(tgt, ast.Attribute) and isinstance(tgt.value, ast.Name) and tgt.value.id == 'self' and tgt.attr == attr:
                        if ann is not None:
                            return parse_ann(ann)
                        return TypeEnv(funcs[init]).type_of(val)
            return None
        if isinstance(m, ast.FunctionDef):
            if any(isinstance(d, ast.Name) and d.id == 'property' for d in m.decorator_list):
                return parse_ann(m.returns)
            return ('method', k, m)
        if isinstance(m, ast.AnnAssign):
            return parse_ann(m.annotation)
        return None


    class TypeEnv:
        def __init__(self, fi):
            self.fi = fi

        def var_type(self, name, depth=0):
            fi = self.fi
            while fi is not None:
                node = fi.node
                allargs = node.args.posonlyargs + node.args.args + node.args.kwonlyargs
                for a in allargs:
                    if a.arg == name:
                        if name == 'self' and fi.cls:
                            return ('cls', fi.cls)
                        t = parse_ann(a.annotation)
                        if t is not None:
                            return t
                        return LAMBDA_PARAM_TYPES.get((fi.node, name))
                body = node.body if isinstance(node.body, list) else [node.body]
                for st in body:
                    for sub in ast.walk(st):
                        if isinstance(sub, (ast.FunctionDef, ast.Lambda)) and sub is not node:
                            continue
                        if isinstance(sub, ast.AnnAssign) and isinstance(sub.target, ast.Name) and sub.target.id == name:
                            return parse_ann(sub.annotation)
                        if depth < 4 and isinstance(sub, ast.Assign) and any(isinstance(t, ast.Name) and t.id == name for t in sub.targets):
                            t = TypeEnv(fi).type_of(sub.value, depth + 1)
                            if t is not None:
                                return t
                        if depth < 4 and isinstance(sub, (ast.For, ast.comprehension)) and isinstance(sub.target, ast.Name) and sub.target.id == name:
                            t = TypeEnv(fi).type_of(sub.iter, depth + 1)
                            if t and t[0] == 'seq':
                                return t[1]
                            if t and t[0] == 'dict':
                                return t[1]
                fi = fi.parent
            return None

        def type_of(self, e, depth=0):
            if depth > 6:
                return None
            if isinstance(e, ast.Name):
                return self.var_type(e.id, depth)
            if isinstance(e, ast.Attribute):
                rt = self.type_of(e.value, depth + 1)
                if rt and rt[0] == 'cls':
                    return attr_type(rt[1], e.attr)
                if rt and rt[0] == 'dict' and e.attr in ('values', 'items', 'keys', 'get'):
                    return ('dictmethod', e.attr, rt)
                return None
            if isinstance(e, ast.Call):
                ft = None
                if isinstance(e.func, ast.Name):
                    if e.func.id in classes:
                        return ('cls', e.func.id)
                    if e.func.id in ('list', 'sorted', 'set', 'tuple', 'reversed') and e.args:
                        t = self.type_of(e.args[0], depth + 1)
                        if t and t[0] == 'seq':
                            return t
                        if t and t[0] == 'dict':
                            return ('seq', t[1])
                        return None
                    for fi in module_funcs.get(e.func.id, []):
                        return parse_ann(fi.node.returns)
                    return None
                ft = self.type_of(e.func, depth + 1)
                if ft and ft[0] == 'method':
                    return parse_ann(ft[2].returns)
                if ft and ft[0] == 'dictmethod':
                    _, m, dt = ft
                    return {'values': ('seq', dt[2]), 'keys': ('seq', dt[1]), 'items': ('seq', None), 'get': dt[2]}[m]
                return None
            if isinstance(e, ast.Subscript):
                t = self.type_of(e.value, depth + 1)
                if t and t[0] == 'seq':
                    return t if isinstance(e.slice, ast.Slice) else t[1]
                if t and t[0] == 'dict':
                    return t[2]
                return None
            if isinstance(e, (ast.List, ast.Tuple, ast.Set)) and e.elts:
                return ('seq', self.type_of(e.elts[0], depth + 1))
            if isinstance(e, ast.BinOp):
                return self.type_of(e.left, depth + 1) or self.type_of(e.right, depth + 1)
            if isinstance(e, (ast.ListComp, ast.SetComp, ast.GeneratorExp)):
                return ('seq', self.type_of(e.elt, depth + 1))
            if isinstance(e, ast.IfExp):
                return self.type_of(e.body, depth + 1) or self.type_of(e.orelse, depth + 1)
            return None


    LAMBDA_PARAM_TYPES = {}

    # ---------------------------------------------------------------- qualifier flow graph
    edges = collections.defaultdict(set)     # src node -> dst nodes
    consts = collections.defaultdict(set)    # node -> qualifiers
    fnvals = collections.defaultdict(set)    # node -> function values (FuncInfo) that may be stored there
    sinks = []

    READ_CONST = {
        ('Teal', 'bbs'): {MO, SUB}, ('Teal', 'main'): {MO}, ('Teal', 'subroutines'): {SUB}, ('Teal', 'subroutines_list'): {SUB},
        ('Function', 'blocks'): {MC, SUB, ERR}, ('Function', 'entry'): {MC}, ('Function', 'main'): {MC}, ('Function', 'subroutines'): {SUB},
        ('BasicBlock', 'called_subroutine'): {SUB}, ('Callsub', 'called_subroutine'): {SUB},
    }
    READ_SAME = {('Subroutine', a) for a in ('blocks', 'entry', 'exit_blocks', 'retsub_blocks')} | \
                {('BasicBlock', a) for a in ('next', 'prev', 'sub_return_point', 'callsub_block', 'subroutine')}
    CALL_CONST = {'copy_main_cfg': {MC}}


    def V(fi, name):
        # resolve lexical scope: innermost function that binds the name
        f = fi
        while f is not None:
            node = f.node
            bound = set(a.arg for a in node.args.posonlyargs + node.args.args + node.args.kwonlyargs)
            body = node.body if isinstance(node.body, list) else [node.body]
            for st in body:
                for sub in ast.walk(st):
                    if isinstance(sub, ast.Name) and isinstance(sub.ctx, ast.Store):
                        bound.add(sub.id)
                    if isinstance(sub, ast.FunctionDef):
                        bound.add(sub.name)
            if name in bound:
                return ('var', f.id, name)
            f = f.parent
        return ('glob', name)


    def F(cname, attr):
        return ('field', cname, attr)


    class Flow:
        def __init__(self, fi):
            self.fi, self.te = fi, TypeEnv(fi)

        def src(self, e):
            """return list of nodes whose qualifiers flow into expression e"""
            if isinstance(e, ast.Name):
                return [V(self.fi, e.id)]
            if isinstance(e, ast.Attribute):
                rt = self.te.type_of(e.value)
                if rt and rt[0] == 'cls':
                    for k in mro(rt[1]):
                        if (k, e.attr) in READ_CONST:
                            n = ('const', k, e.attr)
                            consts[n] |= READ_CONST[(k, e.attr)]
                            return [n]
                        if (k, e.attr) in READ_SAME:
                            return self.src(e.value)
                    return [F(rt[1], e.attr)] + [F(k, e.attr) for k in bases(rt[1])]
                if e.attr in ('values', 'items', 'keys', 'copy'):
                    return self.src(e.value)
                return [('unknown-attr', e.attr)]
            if isinstance(e, ast.Call):
                out = []
                if isinstance(e.func, ast.Name) and e.func.id in CALL_CONST:
                    n = ('const', 'call', e.func.id)
                    consts[n] |= CALL_CONST[e.func.id]
                    return [n]
                if isinstance(e.func, ast.Name) and e.func.id in ('list', 'sorted', 'set', 'tuple', 'reversed', 'enumerate', 'zip', 'identify_subroutine_blocks', '_add_basic_blocks_idx'):
                    for a in e.args:
                        out += self.src(a)
                    return out
                for callee in self.callees(e):
                    if isinstance(callee, tuple):
                        dyn_rets.append((callee[1], e, self))
                        out.append(('dynret', id(e)))
                    else:
                        out.append(('ret', callee.id))
                if isinstance(e.func, ast.Attribute) and e.func.attr in ('values', 'items', 'keys', 'get', 'copy', 'pop'):
                    out += self.src(e.func.value)
                return out
            if isinstance(e, ast.Subscript):
                return self.src(e.value)
            if isinstance(e, (ast.List, ast.Tuple, ast.Set)):
                return [n for x in e.elts for n in self.src(x)]
            if isinstance(e, ast.Dict):
                return [n for x in e.values for n in self.src(x)]
            if isinstance(e, ast.BinOp):
                return self.src(e.left) + self.src(e.right)
            if isinstance(e, ast.IfExp):
                return self.src(e.body) + self.src(e.orelse)
            if isinstance(e, (ast.ListComp, ast.SetComp, ast.GeneratorExp)):
                return self.src(e.elt)
            if isinstance(e, ast.DictComp):
                return self.src(e.value)
            if isinstance(e, ast.Starred):
                return self.src(e.value)
            if isinstance(e, ast.Lambda):
                n = ('lambda', funcs[e].id)
                fnvals[n].add(funcs[e])
                return [n]
            return []

        def callees(self, call):
            f = call.func
            out = []
            if isinstance(f, ast.Name):
                if f.id in classes:
                    k, init = find_member(f.id, '__init__')
                    if init is not None and isinstance(init, ast.FunctionDef):
                        out.append(funcs[init])
                    return out
                # local nested function or variable holding a function
                for fi in funcs.values():
                    if isinstance(fi.node, ast.FunctionDef) and fi.node.name == f.id and (fi.parent is self.fi or fi in module_funcs.get(f.id, [])):
                        out.append(fi)
                out += [('dyn', V(self.fi, f.id))]
                return out
            if isinstance(f, ast.Attribute):
                rt = self.te.type_of(f.value)
                if rt and rt[0] == 'cls':
                    k, m = find_member(rt[1], f.attr)
                    if isinstance(m, ast.FunctionDef):
                        out.append(funcs[m])
                        # overriding implementations in subclasses
                        for c in classes:
                            if rt[1] in bases(c):
                                for mm in classes[c].body:
                                    if isinstance(mm, ast.FunctionDef) and mm.name == f.attr:
                                        out.append(funcs[mm])
                        return out
                    # callable stored in a field
                    out.append(('dyn', F(rt[1], f.attr)))
                    return out
            return out


    dyn_calls = []   # (holder node, [arg src lists], result placeholder)
    dyn_rets = []


    def bind(callee, call, flow, self_bound):
        params = callee.params[1:] if self_bound and callee.params and callee.params[0] in ('self', 'cls') else callee.params
        anns = {a.arg: parse_ann(a.annotation) for a in callee.node.args.posonlyargs + callee.node.args.args}
        for p, a in zip(params, call.args):
            for s in flow.src(a):
                edges[s].add(('var', callee.id, p))
                if anns.get(p) and anns[p][0] in ('seq', 'dict'):
                    edges[('var', callee.id, p)].add(s)   # mutable container: argument and parameter alias
        for kw in call.keywords:
            if kw.arg in callee.params:
                for s in flow.src(kw.value):
                    edges[s].add(('var', callee.id, kw.arg))


    def gen(fi):
        flow = Flow(fi)
        node = fi.node
        body = node.body if isinstance(node.body, list) else [ast.Return(value=node.body)]
        own = []

        def walk(n):
            for ch in ast.iter_child_nodes(n):
                if isinstance(ch, (ast.FunctionDef, ast.Lambda, ast.ClassDef)):
                    if isinstance(ch, ast.FunctionDef):
                        nn = ('var', fi.id, ch.name)
                        fnvals[nn].add(funcs[ch])
                    continue
                own.append(ch)
                walk(ch)
        for st in body:
            if isinstance(st, ast.FunctionDef):
                fnvals[('var', fi.id, st.name)].add(funcs[st])
                continue
            own.append(st)
            walk(st)
        for st in own:
            if isinstance(st, ast.Assign) or (isinstance(st, ast.AnnAssign) and st.value is not None):
                targets = st.targets if isinstance(st, ast.Assign) else [st.target]
                srcs = flow.src(st.value)
                for t in targets:
                    assign_to(t, srcs, flow)
            elif isinstance(st, ast.AugAssign):
                assign_to(st.target, flow.src(st.value), flow)
            elif isinstance(st, (ast.For, ast.comprehension)):
                assign_to(st.target, flow.src(st.iter), flow)
            elif isinstance(st, ast.Return) and st.value is not None:
                for s in flow.src(st.value):
                    edges[s].add(('ret', fi.id))
            elif isinstance(st, ast.Call):
                # argument binding
                self_bound = isinstance(st.func, ast.Attribute) or (isinstance(st.func, ast.Name) and st.func.id in classes)
                for callee in flow.callees(st):
                    if isinstance(callee, tuple):
                        dyn_calls.append((callee[1], st, flow))
                    else:
                        bind(callee, st, flow, self_bound)
                # container mutation: x.append(y) / x.extend(y) / x.add(y)
                if isinstance(st.func, ast.Attribute) and st.func.attr in ('append', 'extend', 'add', 'insert') and st.args:
                    for s in flow.src(st.args[-1]):
                        for d in flow.src(st.func.value):
                            edges[s].add(d)
                # sinks
                if isinstance(st.func, ast.Attribute) and st.func.attr == 'transaction_context' and st.args:
                    rt = flow.te.type_of(st.func.value)
                    sinks.append(('lookup', fi, st, flow.src(st.args[0]), rt))
            elif isinstance(st, ast.Compare):
                for op, right in zip(st.ops, st.comparators):
                    if isinstance(op, (ast.In, ast.NotIn, ast.Eq, ast.NotEq, ast.Is, ast.IsNot)):
                        sinks.append(('identity', fi, st, flow.src(st.left), flow.src(right)))


    def assign_to(t, srcs, flow):
        if isinstance(t, ast.Name):
            for s in srcs:
                edges[s].add(V(flow.fi, t.id))
        elif isinstance(t, (ast.Tuple, ast.List)):
            for x in t.elts:
                assign_to(x, srcs, flow)
        elif isinstance(t, ast.Attribute):
            rt = flow.te.type_of(t.value)
            dst = F(rt[1], t.attr) if rt and rt[0] == 'cls' else ('unknown-attr', t.attr)
            for s in srcs:
                edges[s].add(dst)
        elif isinstance(t, ast.Subscript):
            for d in flow.src(t.value):
                for s in srcs:
                    edges[s].add(d)
        elif isinstance(t, ast.Starred):
            assign_to(t.value, srcs, flow)


    for fi in list(funcs.values()):
        gen(fi)

    # propagate qualifiers and function values to a fixpoint, resolving dynamic calls on the way
    quals = collections.defaultdict(set)
    for n, q in consts.items():
        quals[n] |= q
    changed = True
    rounds = 0
    bound_dyn = set()
    while changed:
        changed = False
        rounds += 1
        work = list(set(list(quals.keys()) + list(fnvals.keys())))
        while work:
            n = work.pop()
            for d in edges.get(n, ()):
                if not quals[n] <= quals[d]:
                    quals[d] |= quals[n]
                    work.append(d)
                    changed = True
                if not fnvals[n] <= fnvals[d]:
                    fnvals[d] |= fnvals[n]
                    work.append(d)
                    changed = True
        for holder, call, flow in dyn_rets:
            for callee in list(fnvals.get(holder, ())):
                if ('dynret', id(call)) not in edges[('ret', callee.id)]:
                    edges[('ret', callee.id)].add(('dynret', id(call)))
                    changed = True
        for holder, call, flow in dyn_calls:
            for callee in list(fnvals.get(holder, ())):
                key = (id(call), callee.id)
                if key in bound_dyn:
                    continue
                bound_dyn.add(key)
                bind(callee, call, flow, False)
                changed = True

    def Q(srcs):
        out = set()
        for s in srcs:
            out |= quals.get(s, set())
        return out

    res = []
    for kind, fi, node, a, b in sinks:
        if kind == 'lookup':
            qa = Q(a)
            verdict = 'violation' if MO in qa else ('unknown' if not qa else 'ok')
            res.append({'kind': 'lookup', 'module': fi.mod, 'function': getattr(fi.node, 'name', '<lambda>'), 'line': node.lineno,
                        'expr': ast.unparse(node)[:80], 'a': sorted(qa), 'b': [], 'verdict': verdict})
        else:
            qa, qb = Q(a), Q(b)
            if not qa or not qb:
                continue
            bad = (MO in qa and MC not in qa and MC in qb and MO not in qb) or (MO in qb and MC not in qb and MC in qa and MO not in qa)
            res.append({'kind': 'identity', 'module': fi.mod, 'function': getattr(fi.node, 'name', '<lambda>'), 'line': node.lineno,
                        'expr': ast.unparse(node)[:80], 'a': sorted(qa), 'b': sorted(qb), 'verdict': 'violation' if bad else 'ok'})
    stats = {'modules': len(mods), 'functions': len(funcs), 'flow edges': sum(len(v) for v in edges.values()), 'rounds': rounds}
    return stats, res
