"""E2 - abstract evaluation of tealer's table-like functions from their syntax trees.

Nothing under the analysed root is imported or executed by Python: this module parses the
source files with `ast` and walks the trees over *abstract* inputs (objects that carry only a
class of the repository's hierarchy and the fields the code reads, symbolic integer terms,
marker sets).  The result of evaluating a function over the complete product of its finite
abstract input domains is its decision table; rules compare tables with oracles.

Anything outside the supported subset raises `Unsupported` (-> ANALYSIS-ERROR, never a verdict).
A Python-level exception the analysed code would raise on an abstract input is `PyRaise`
(-> a RAISES row of the table).
"""
import ast
import collections
import itertools
import operator
import pathlib


class Unsupported(Exception):
    pass


class PyRaise(Exception):
    def __init__(self, exc, where=None):
        super().__init__(exc)
        self.exc = exc
        self.where = where


class _Ret(Exception):
    def __init__(self, v):
        self.v = v


class _Break(Exception):
    pass


class _Continue(Exception):
    pass


class ClassV:
    def __init__(self, mod, node):
        self.mod, self.node, self.name = mod, node, node.name
        self._bases = None
        self._mro = None

    def bases(self):
        if self._bases is None:
            out = []
            for b in self.node.bases:
                try:
                    v = self.mod.ev(b, {})
                except (Unsupported, PyRaise):
                    v = None
                if isinstance(v, ClassV):
                    out.append(v)
                else:
                    out.append(("ext", ast.unparse(b)))
            self._bases = out
        return self._bases

    def mro(self):
        if self._mro is None:
            out = [self]
            for b in self.bases():
                if isinstance(b, ClassV):
                    for c in b.mro():
                        if c not in out:
                            out.append(c)
            self._mro = out
        return self._mro

    def ext_bases(self):
        s = set()
        for c in self.mro():
            for b in c.bases():
                if not isinstance(b, ClassV):
                    s.add(b[1])
        return s

    def is_sub(self, other):
        return other in self.mro()

    def members(self, name):
        """all definitions of `name` in this class body (getter and setter of a property are two)"""
        out = []
        for st in self.node.body:
            if isinstance(st, ast.FunctionDef) and st.name == name:
                out.append(st)
            elif isinstance(st, ast.Assign) and any(isinstance(t, ast.Name) and t.id == name for t in st.targets):
                out.append(st)
            elif isinstance(st, ast.AnnAssign) and isinstance(st.target, ast.Name) and st.target.id == name and st.value is not None:
                out.append(st)
        return out

    def find(self, name, after=None):
        """first definition along the MRO (optionally strictly after class `after`): (class, node)"""
        mro = self.mro()
        if after is not None:
            mro = mro[mro.index(after) + 1:]
        for c in mro:
            ms = c.members(name)
            if ms:
                # a property getter comes first; setters are found with find_setter
                for m in ms:
                    if not (isinstance(m, ast.FunctionDef) and _is_setter(m)):
                        return c, m
        return None, None

    def find_setter(self, name):
        for c in self.mro():
            for m in c.members(name):
                if isinstance(m, ast.FunctionDef) and _is_setter(m):
                    return c, m
        return None, None

    def is_dataclass(self):
        return any("dataclass" in ast.unparse(d) for c in self.mro() for d in c.node.decorator_list)

    def is_enum(self):
        return any("Enum" in e for e in self.ext_bases())

    def dataclass_fields(self):
        out = []
        for c in reversed(self.mro()):
            for st in c.node.body:
                if isinstance(st, ast.AnnAssign) and isinstance(st.target, ast.Name):
                    out = [x for x in out if x[0] != st.target.id]
                    out.append((st.target.id, st.value, c))
        return out

    def __repr__(self):
        return f"<class {self.name}>"


def _is_setter(fn):
    return any(isinstance(d, ast.Attribute) and d.attr == "setter" for d in fn.decorator_list)


def _decorators(fn):
    out = set()
    for d in fn.decorator_list:
        if isinstance(d, ast.Call):
            d = d.func
        if isinstance(d, ast.Name):
            out.add(d.id)
        elif isinstance(d, ast.Attribute):
            out.add(d.attr)
    return out


class EnumMember:
    def __init__(self, cls, name, value):
        self.cls, self.name, self.value = cls, name, value

    def __eq__(self, o):
        return isinstance(o, EnumMember) and self.value == o.value

    def __ne__(self, o):
        return not self.__eq__(o)

    def __lt__(self, o):
        return self.value < o.value

    def __hash__(self):
        return hash(self.value)

    def __repr__(self):
        return f"{self.cls.name}.{self.name}"


class Obj:
    """abstract instance of a repository class: the class plus the fields that were set"""
    _count = itertools.count()

    def __init__(self, cls, **fields):
        self.cls, self.fields = cls, dict(fields)
        self.oid = next(Obj._count)

    def __eq__(self, o):
        if self is o:
            return True
        if isinstance(o, Obj) and self.cls is o.cls and self.cls.is_dataclass():
            return self.fields == o.fields
        return False

    def __ne__(self, o):
        return not self.__eq__(o)

    def __hash__(self):
        return id(self)

    def __repr__(self):
        if self.cls.is_dataclass():
            return f'{self.cls.name}({", ".join(f"{k}={v!r}" for k, v in self.fields.items())})'
        tag = self.fields.get("__tag__")
        return f"<{self.cls.name}{' ' + str(tag) if tag is not None else ''}>"


class FuncV:
    def __init__(self, mod, node, closure=None, self_obj=None, owner=None):
        self.mod, self.node, self.closure, self.self_obj, self.owner = mod, node, closure, self_obj, owner

    def __repr__(self):
        return f'<func {getattr(self.node, "name", "lambda")}>'


class Term:
    """symbolic integer: an affine form  const + sum(coef * atom)  over named atoms.

    Atoms are symbolic constants (`c`, `idx`) or opaque compound terms (`max(0,c-1)`), so two
    terms are equal exactly when their normal forms are: `1 + idx` == `idx + 1`."""

    def __init__(self, s=None, coefs=None, const=0):
        if coefs is None:
            coefs = {s: 1}
        self.coefs = {k: v for k, v in coefs.items() if v != 0}
        self.const = const

    @staticmethod
    def lift(v):
        if isinstance(v, Term):
            return v
        if isinstance(v, bool) or not isinstance(v, int):
            raise Unsupported(f"symbolic arithmetic with {v!r}")
        return Term(coefs={}, const=v)

    def add(self, o, sign=1):
        o = Term.lift(o)
        coefs = dict(self.coefs)
        for k, v in o.coefs.items():
            coefs[k] = coefs.get(k, 0) + sign * v
        return Term(coefs=coefs, const=self.const + sign * o.const)

    def scale(self, k):
        return Term(coefs={a: c * k for a, c in self.coefs.items()}, const=self.const * k)

    def is_const(self):
        return not self.coefs

    @property
    def s(self):
        return repr(self)

    def __repr__(self):
        parts = []
        for a in sorted(self.coefs):
            c = self.coefs[a]
            if c == 1:
                parts.append(f"+{a}")
            elif c == -1:
                parts.append(f"-{a}")
            else:
                parts.append(f"{c:+d}*{a}")
        if self.const or not parts:
            parts.append(f"{self.const:+d}")
        out = "".join(parts)
        return out[1:] if out.startswith("+") else out

    def __eq__(self, o):
        if isinstance(o, int) and not isinstance(o, bool):
            o = Term.lift(o)
        return isinstance(o, Term) and o.coefs == self.coefs and o.const == self.const

    def __ne__(self, o):
        return not self.__eq__(o)

    def __hash__(self):
        return hash(repr(self))


class Opaque:
    """value of an external sink (logging, sys.stderr, ...): every attribute is opaque, every call returns None"""

    def __init__(self, name):
        self.name = name

    def __repr__(self):
        return f"<opaque {self.name}>"


class FakeFile:
    """what the analysed code writes to files is kept in World.files (nothing touches the file system)"""

    def __init__(self, world, name, reset=True):
        self.world, self.name = world, name
        if reset or name not in world.files:
            world.files[name] = ""

    def write(self, s):
        self.world.files[self.name] += s

    def read(self):
        return self.world.files[self.name]

    def close(self):
        pass


class SuperV:
    def __init__(self, owner, self_obj):
        self.owner, self.self_obj = owner, self_obj


BUILTIN_TYPES = {"int": int, "str": str, "bool": bool, "list": list, "set": set, "tuple": tuple, "dict": dict,
                 "frozenset": frozenset, "bytes": bytes}
BUILTIN_FUNCS = ("open", "dir", "isinstance", "len", "range", "max", "min", "sorted", "print", "any", "all", "map", "getattr", "enumerate",
                 "zip", "sum", "abs", "repr", "hasattr", "reversed", "issubclass", "filter", "hash", "id", "type")
OPAQUE_MODULES = ("logging", "sys", "os", "inspect")
# pure standard-library helpers the repository calls on concrete strings (literal decoding, regex matching):
# they are executed as the interpreter's own library, never as repository code
PURE_STDLIB = ("base64", "binascii", "re", "string", "html", "json", "pathlib", "posixpath")
TYPING_NAMES = ("typing", "abc", "dataclasses", "functools", "enum")


class Module:
    def __init__(self, world, name, tree, path):
        self.world, self.name, self.tree, self.path = world, name, tree, path
        self.defs = {}
        self.imports = {}
        self.values = {}
        self._evaluated = False
        for st in tree.body:
            self._scan(st)

    def _scan(self, st):
        if isinstance(st, (ast.FunctionDef, ast.ClassDef)):
            self.defs[st.name] = st
        elif isinstance(st, ast.Assign):
            for t in st.targets:
                if isinstance(t, ast.Name):
                    self.defs[t.id] = st
        elif isinstance(st, ast.AnnAssign) and isinstance(st.target, ast.Name) and st.value is not None:
            self.defs[st.target.id] = st
        elif isinstance(st, ast.ImportFrom):
            for a in st.names:
                self.imports[a.asname or a.name] = (st.module, a.name)
        elif isinstance(st, ast.Import):
            for a in st.names:
                self.imports[a.asname or a.name.split(".")[0]] = (a.name, None)
        elif isinstance(st, ast.If):  # TYPE_CHECKING blocks
            for s in st.body:
                self._scan(s)

    def lookup(self, name):
        if name in self.values:
            return self.values[name]
        if name in self.defs:
            st = self.defs[name]
            if isinstance(st, ast.FunctionDef):
                v = FuncV(self, st)
            elif isinstance(st, ast.ClassDef):
                v = ClassV(self, st)
            else:
                v = self._module_value(name)
            self.values[name] = v
            return v
        if name in self.imports:
            m, n = self.imports[name]
            mod = self.world.module(m)
            if mod is None:
                return self.world.external(m, n)
            if n is None:
                return ("module", mod)
            if n in mod.defs or n in mod.imports:
                return mod.lookup(n)
            sub = self.world.module(m + "." + n)
            if sub is not None:
                return ("module", sub)
            raise Unsupported(f"cannot resolve {m}.{n}")
        raise KeyError(name)

    def _module_value(self, name):
        # evaluate the module-level assignments in order (pure data: tables and constants)
        if not self._evaluated:
            self._evaluated = True
            env = {}
            it = Interp(self)
            for st in self.tree.body:
                if isinstance(st, (ast.Assign, ast.AnnAssign, ast.AugAssign)):
                    try:
                        it.exec_stmt(st, env)
                    except (Unsupported, PyRaise, KeyError):
                        pass
            for k, v in env.items():
                self.values.setdefault(k, v)
        if name not in self.values:
            raise Unsupported(f"module constant {self.name}.{name}")
        return self.values[name]

    def ev(self, node, env):
        return Interp(self).ev(node, env)


class World:
    """the parsed repository; one instance per analysed root"""

    def __init__(self, root="/repo"):
        self.root = pathlib.Path(root)
        self.cache = {}
        self.trace = None          # list of (module, lineno, taken) when branch tracing is on
        self.steps = 0
        self.max_steps = 5_000_000
        self.files = {}            # file name -> text written by the analysed code (abstract file system)
        self.stdout = None         # list of printed lines when capture is on
        self.stderr = None         # lines printed with file=... (diagnostics) when capture is on

    def module(self, dotted):
        if dotted not in self.cache:
            if not dotted.startswith("tealer"):
                self.cache[dotted] = None
                return None
            p = self.root / (dotted.replace(".", "/") + ".py")
            if not p.exists():
                p = self.root / dotted.replace(".", "/") / "__init__.py"
            if not p.exists():
                self.cache[dotted] = None
                return None
            self.cache[dotted] = Module(self, dotted, ast.parse(p.read_text()), str(p))
        return self.cache[dotted]

    def external(self, m, n):
        top = m.split(".")[0]
        if m == "collections" and n == "defaultdict":
            return collections.defaultdict
        if m == "collections" and n is None:
            return ("pymodule", collections)
        if top in PURE_STDLIB:
            import importlib
            pm = importlib.import_module(m)
            return ("pymodule", pm) if n is None else getattr(pm, n)
        if top in OPAQUE_MODULES:
            return Opaque(f"{m}.{n}" if n else m)
        if top in TYPING_NAMES:
            if n == "TYPE_CHECKING":
                return False
            return Opaque(f"{m}.{n}" if n else m)
        # any other third-party / standard-library module: an opaque sink (its results cannot be inspected)
        return Opaque(f"{m}.{n}" if n else m)

    def cls(self, dotted_module, name):
        mod = self.module(dotted_module)
        if mod is None:
            raise Unsupported(f"module {dotted_module} not found")
        try:
            v = mod.lookup(name)
        except KeyError:
            raise Unsupported(f"{dotted_module}.{name} not found")
        return v

    def func(self, dotted_module, name):
        return self.cls(dotted_module, name)

    # ---- entry points
    def call(self, f, *args, **kw):
        self.steps = 0
        return Interp(f.mod if isinstance(f, FuncV) else None).call(f, list(args), kw)

    def getattr(self, o, a):
        return Interp(None).getattr(o, a)

    def new(self, cls, *args, **kw):
        self.steps = 0
        return Interp(cls.mod).instantiate(cls, list(args), kw)

    def method(self, obj, name):
        return Interp(obj.cls.mod).getattr(obj, name)


class Interp:
    def __init__(self, mod):
        self.mod = mod
        self.world = mod.world if mod is not None else None

    # ---- statements
    def exec_block(self, body, env):
        for st in body:
            self.exec_stmt(st, env)

    def _tick(self, node):
        w = self.mod.world
        w.steps += 1
        if w.steps > w.max_steps:
            raise Unsupported(f"step budget exhausted at {self.mod.name}:{getattr(node, 'lineno', '?')}")

    def _branch(self, st, taken):
        w = self.mod.world
        if w.trace is not None:
            w.trace.append((self.mod.name, st.lineno, taken))

    def exec_stmt(self, st, env):
        self._tick(st)
        if isinstance(st, ast.Expr):
            if isinstance(st.value, ast.Constant):
                return
            self.ev(st.value, env)
        elif isinstance(st, ast.Return):
            raise _Ret(self.ev(st.value, env) if st.value else None)
        elif isinstance(st, ast.Assign):
            v = self.ev(st.value, env)
            for t in st.targets:
                self.assign(t, v, env)
        elif isinstance(st, ast.AnnAssign):
            if st.value is not None:
                self.assign(st.target, self.ev(st.value, env), env)
        elif isinstance(st, ast.AugAssign):
            cur = self.ev(_as_load(st.target), env)
            rhs = self.ev(st.value, env)
            if isinstance(st.op, ast.Add) and isinstance(cur, list):
                cur.extend(self.iterate(rhs))   # in-place, like list.__iadd__
                v = cur
            else:
                v = self.binop(st.op, cur, rhs)
            self.assign(st.target, v, env)
        elif isinstance(st, ast.If):
            t = self.truth(self.ev(st.test, env))
            self._branch(st, t)
            self.exec_block(st.body if t else st.orelse, env)
        elif isinstance(st, ast.For):
            broke = False
            for x in self.iterate_live(self.ev(st.iter, env)):
                self.assign(st.target, x, env)
                try:
                    self.exec_block(st.body, env)
                except _Break:
                    broke = True
                    break
                except _Continue:
                    continue
            if not broke:
                self.exec_block(st.orelse, env)
        elif isinstance(st, ast.While):
            broke = False
            while self.truth(self.ev(st.test, env)):
                self._tick(st)
                try:
                    self.exec_block(st.body, env)
                except _Break:
                    broke = True
                    break
                except _Continue:
                    continue
            if not broke:
                self.exec_block(st.orelse, env)
        elif isinstance(st, ast.Break):
            raise _Break()
        elif isinstance(st, ast.Continue):
            raise _Continue()
        elif isinstance(st, ast.Pass):
            pass
        elif isinstance(st, ast.Assert):
            if not self.truth(self.ev(st.test, env)):
                raise PyRaise("AssertionError", (self.mod.name, st.lineno))
        elif isinstance(st, ast.Raise):
            raise PyRaise(ast.unparse(st.exc).split("(")[0] if st.exc else "reraise", (self.mod.name, st.lineno))
        elif isinstance(st, ast.FunctionDef):
            env[st.name] = FuncV(self.mod, st, closure=env)
        elif isinstance(st, ast.Try):
            try:
                try:
                    self.exec_block(st.body, env)
                except PyRaise as e:
                    for h in st.handlers:
                        if self._handler_matches(h, e, env):
                            if h.name:
                                env[h.name] = Opaque(f"exception {e.exc}")
                            self.exec_block(h.body, env)
                            break
                    else:
                        raise
                else:
                    self.exec_block(st.orelse, env)
            finally:
                if st.finalbody:
                    self.exec_block(st.finalbody, env)
        elif isinstance(st, ast.With):
            for item in st.items:
                v = self.ev(item.context_expr, env)
                if item.optional_vars is not None:
                    self.assign(item.optional_vars, v, env)
            self.exec_block(st.body, env)
        elif isinstance(st, (ast.Import, ast.ImportFrom)):
            pass
        elif isinstance(st, ast.Delete):
            for t in st.targets:
                if isinstance(t, ast.Subscript):
                    o = self.ev(t.value, env)
                    k = self.ev(t.slice, env)
                    try:
                        del o[k]
                    except (KeyError, IndexError) as e:
                        raise PyRaise(type(e).__name__, (self.mod.name, st.lineno))
                else:
                    raise Unsupported(f"del target at {self.mod.name}:{st.lineno}")
        else:
            raise Unsupported(f"stmt {type(st).__name__} at {self.mod.name}:{st.lineno}")

    def assign(self, t, v, env):
        if isinstance(t, ast.Name):
            # nonlocal-free code base: a nested function assigning a name binds its own local
            env[t.id] = v
        elif isinstance(t, (ast.Tuple, ast.List)):
            vs = list(self.iterate(v))
            if len(vs) != len(t.elts):
                raise PyRaise("ValueError", (self.mod.name, t.lineno))
            for tt, vv in zip(t.elts, vs):
                self.assign(tt, vv, env)
        elif isinstance(t, ast.Attribute):
            o = self.ev(t.value, env)
            if isinstance(o, (Obj, Opaque)):
                self.assign_attr(o, t.attr, v)
            else:
                raise Unsupported(f"attr store on {o!r} at {self.mod.name}:{t.lineno}")
        elif isinstance(t, ast.Subscript):
            o = self.ev(t.value, env)
            k = self.ev(t.slice, env)
            try:
                o[k] = v
            except (IndexError, KeyError) as e:
                raise PyRaise(type(e).__name__, (self.mod.name, t.lineno))
            except TypeError as e:
                raise Unsupported(f"subscript store {e} at {self.mod.name}:{t.lineno}")
        else:
            raise Unsupported(f"assign target {type(t).__name__}")

    def _handler_matches(self, h, e, env):
        if h.type is None:
            return True
        names = [ast.unparse(t).split(".")[-1] for t in (h.type.elts if isinstance(h.type, ast.Tuple) else [h.type])]
        exc = str(e.exc).split(".")[-1]
        if exc in names or "Exception" in names or "BaseException" in names:
            return True
        # repository exception classes: match through the hierarchy
        for nm in names:
            try:
                c = self.mod.lookup(nm)
                x = self.mod.lookup(exc)
            except (KeyError, Unsupported):
                continue
            if isinstance(c, ClassV) and isinstance(x, ClassV) and x.is_sub(c):
                return True
        return False

    def assign_attr(self, o, attr, v):
        if isinstance(o, Opaque):
            return
        c, setter = o.cls.find_setter(attr)
        if setter is not None:
            self.call_func(FuncV(c.mod, setter, self_obj=o, owner=c), [v], {})
        else:
            o.fields[attr] = v

    # ---- expressions
    def truth(self, v):
        if isinstance(v, Term):
            raise Unsupported("truth of symbolic term")
        if isinstance(v, Opaque):
            raise Unsupported(f"truth of {v!r}")
        if isinstance(v, Obj):
            c, st = v.cls.find("__len__")
            if st is not None:
                return bool(self.call_func(FuncV(c.mod, st, self_obj=v, owner=c), [], {}))
            c, st = v.cls.find("__bool__")
            if st is not None:
                return bool(self.call_func(FuncV(c.mod, st, self_obj=v, owner=c), [], {}))
            return True
        if isinstance(v, (ClassV, FuncV, EnumMember)):
            return True
        return bool(v)

    def iterate_live(self, v):
        """iteration with CPython's semantics when the container is mutated by the loop body: a list is walked by index
        (removing the current element skips the next one), a dict or set whose size changes raises RuntimeError"""
        if isinstance(v, list):
            i = 0
            while i < len(v):
                yield v[i]
                i += 1
            return
        if isinstance(v, (dict, set)):
            n = len(v)
            for x in list(v):
                if len(v) != n:
                    raise PyRaise("RuntimeError", None)
                yield x
            return
        yield from self.iterate(v)

    def iterate(self, v):
        if isinstance(v, (list, tuple, set, frozenset, range, dict, str)):
            return list(v)
        if isinstance(v, (Obj, Term, Opaque, ClassV, FuncV)) or v is None:
            if isinstance(v, ClassV) and v.is_enum():
                return [self.getattr(v, st.targets[0].id) for st in v.node.body
                        if isinstance(st, ast.Assign) and isinstance(st.targets[0], ast.Name)]
            raise Unsupported(f"iterate {v!r}")
        if hasattr(v, "__iter__"):
            return list(v)
        raise Unsupported(f"iterate {v!r}")

    def ev(self, n, env):
        m = getattr(self, "ev_" + type(n).__name__, None)
        if m is None:
            raise Unsupported(f'expr {type(n).__name__} at {self.mod.name}:{getattr(n, "lineno", "?")}')
        self._tick(n)
        return m(n, env)

    def ev_Constant(self, n, env):
        return n.value

    def ev_Name(self, n, env):
        e = env
        while e is not None:
            if n.id in e:
                return e[n.id]
            e = e.get("__parent__")
        try:
            return self.mod.lookup(n.id)
        except KeyError:
            pass
        if n.id in BUILTIN_TYPES:
            return BUILTIN_TYPES[n.id]
        if n.id in BUILTIN_FUNCS:
            return ("builtin", n.id)
        if n.id == "super":
            return ("builtin", "super")
        if n.id in ("KeyError", "ValueError", "IndexError", "Exception", "TypeError", "AttributeError"):
            return ("exc", n.id)
        raise Unsupported(f"name {n.id} in {self.mod.name}:{n.lineno}")

    def ev_Tuple(self, n, env):
        return tuple(self._elts(n.elts, env))

    def ev_List(self, n, env):
        return list(self._elts(n.elts, env))

    def ev_Set(self, n, env):
        return set(self._elts(n.elts, env))

    def _elts(self, elts, env):
        out = []
        for e in elts:
            if isinstance(e, ast.Starred):
                out.extend(self.iterate(self.ev(e.value, env)))
            else:
                out.append(self.ev(e, env))
        return out

    def ev_Dict(self, n, env):
        out = {}
        for k, v in zip(n.keys, n.values):
            if k is None:
                out.update(self.ev(v, env))
            else:
                out[self.ev(k, env)] = self.ev(v, env)
        return out

    def ev_IfExp(self, n, env):
        t = self.truth(self.ev(n.test, env))
        self._branch(n, t)
        return self.ev(n.body, env) if t else self.ev(n.orelse, env)

    def ev_BoolOp(self, n, env):
        if isinstance(n.op, ast.And):
            v = True
            for e in n.values:
                v = self.ev(e, env)
                if not self.truth(v):
                    return v
            return v
        v = False
        for e in n.values:
            v = self.ev(e, env)
            if self.truth(v):
                return v
        return v

    def ev_UnaryOp(self, n, env):
        v = self.ev(n.operand, env)
        if isinstance(n.op, ast.Not):
            return not self.truth(v)
        if isinstance(n.op, ast.USub):
            if isinstance(v, Term):
                return v.scale(-1)
            return -v
        if isinstance(n.op, ast.Invert):
            return ~v
        raise Unsupported("unary")

    def binop(self, op, a, b):
        if isinstance(a, Term) or isinstance(b, Term):
            if isinstance(op, ast.Add):
                r = Term.lift(a).add(b)
            elif isinstance(op, ast.Sub):
                r = Term.lift(a).add(b, -1)
            elif isinstance(op, ast.Mult) and isinstance(a, int):
                r = b.scale(a)
            elif isinstance(op, ast.Mult) and isinstance(b, int):
                r = a.scale(b)
            elif isinstance(op, ast.LShift) and isinstance(b, int):
                r = a.scale(1 << b)
            else:
                r = Term(f"({a!r}{type(op).__name__}{b!r})")
            return r.const if r.is_const() else r
        f = {ast.Add: operator.add, ast.Sub: operator.sub, ast.Mult: operator.mul, ast.BitOr: operator.or_,
             ast.BitAnd: operator.and_, ast.LShift: operator.lshift, ast.RShift: operator.rshift,
             ast.FloorDiv: operator.floordiv, ast.Mod: operator.mod, ast.Pow: operator.pow,
             ast.BitXor: operator.xor}.get(type(op))
        if f is None:
            raise Unsupported(f"binop {type(op).__name__}")
        if isinstance(a, (Obj, Opaque)) or isinstance(b, (Obj, Opaque)):
            if isinstance(a, Obj) and isinstance(op, ast.Div):
                pass
            raise Unsupported(f"binop on {a!r}, {b!r}")
        try:
            return f(a, b)
        except TypeError as e:
            raise PyRaise("TypeError", None)
        except ZeroDivisionError:
            raise PyRaise("ZeroDivisionError", None)

    def ev_BinOp(self, n, env):
        a, b = self.ev(n.left, env), self.ev(n.right, env)
        if isinstance(n.op, ast.Div) and type(a).__module__ == "pathlib":
            return a / b
        if isinstance(n.op, ast.Div) and isinstance(a, Opaque):
            return Opaque("path")
        return self.binop(n.op, a, b)

    def compare(self, op, left, right, node=None):
        if isinstance(op, (ast.Is, ast.IsNot)):
            r = left is right
            if not r and isinstance(left, (int, str, bool, type(None), EnumMember)) and type(left) is type(right):
                r = left == right and isinstance(left, (bool, type(None), EnumMember))
            return r if isinstance(op, ast.Is) else not r
        if isinstance(op, (ast.In, ast.NotIn)):
            if isinstance(right, (Obj, Term, Opaque)) or right is None:
                raise Unsupported(f"membership in {right!r}")
            try:
                r = left in right
            except TypeError:
                raise PyRaise("TypeError", None)
            return r if isinstance(op, ast.In) else not r
        if isinstance(left, Term) or isinstance(right, Term):
            if isinstance(op, ast.Eq):
                return left == right
            if isinstance(op, ast.NotEq):
                return not (left == right)
            raise Unsupported("ordering on symbolic term")
        if isinstance(left, Obj) and not isinstance(op, (ast.Eq, ast.NotEq)):
            raise Unsupported("ordering on abstract object")
        f = {ast.Eq: operator.eq, ast.NotEq: operator.ne, ast.Lt: operator.lt, ast.LtE: operator.le,
             ast.Gt: operator.gt, ast.GtE: operator.ge}[type(op)]
        try:
            return f(left, right)
        except TypeError:
            raise PyRaise("TypeError", None)

    def ev_Compare(self, n, env):
        left = self.ev(n.left, env)
        for op, rn in zip(n.ops, n.comparators):
            right = self.ev(rn, env)
            if not self.compare(op, left, right, n):
                return False
            left = right
        return True

    def ev_Subscript(self, n, env):
        o = self.ev(n.value, env)
        if isinstance(o, Opaque):
            return o          # typing subscripts: List["X"]
        if isinstance(n.slice, ast.Slice):
            lo = self.ev(n.slice.lower, env) if n.slice.lower else None
            hi = self.ev(n.slice.upper, env) if n.slice.upper else None
            step = self.ev(n.slice.step, env) if n.slice.step else None
            return o[lo:hi:step]
        k = self.ev(n.slice, env)
        if isinstance(o, (Obj, Term)) or o is None:
            raise Unsupported(f"subscript of {o!r} at {self.mod.name}:{n.lineno}")
        try:
            return o[k]
        except (KeyError, IndexError) as e:
            raise PyRaise(type(e).__name__, (self.mod.name, n.lineno))
        except TypeError as e:
            raise Unsupported(f"subscript {e} at {self.mod.name}:{n.lineno}")

    def to_str(self, x, use_repr=False):
        if isinstance(x, Obj):
            for name in (("__repr__", "__str__") if use_repr else ("__str__", "__repr__")):
                c, st = x.cls.find(name)
                if st is not None:
                    return self.call_func(FuncV(c.mod, st, self_obj=x, owner=c), [], {})
            return repr(x)
        if isinstance(x, EnumMember):
            for name in (("__repr__", "__str__") if use_repr else ("__str__", "__repr__")):
                c, st = x.cls.find(name)
                if st is not None:
                    return self.call_func(FuncV(c.mod, st, self_obj=x, owner=c), [], {})
            return f"{x.cls.name}.{x.name}"
        if isinstance(x, Term):
            return "{" + x.s + "}"
        if isinstance(x, list) and any(isinstance(e, (Obj, EnumMember, Term)) for e in x):
            return "[" + ", ".join(self.to_str(e, True) for e in x) + "]"
        return repr(x) if use_repr else str(x)

    def ev_JoinedStr(self, n, env):
        out = ""
        for v in n.values:
            if isinstance(v, ast.Constant):
                out += v.value
            else:
                x = self.ev(v.value, env)
                spec = self.ev(v.format_spec, env) if v.format_spec else ""
                if isinstance(x, (Obj, Term, EnumMember, list)) or v.conversion == ord("r"):
                    x = self.to_str(x, v.conversion == ord("r"))
                try:
                    out += format(x, spec)
                except (TypeError, ValueError) as e:
                    raise Unsupported(f"format {e}")
        return out

    def ev_FormattedValue(self, n, env):
        return self.ev(n.value, env)

    def ev_ListComp(self, n, env):
        return list(self.comp(n, env))

    def ev_SetComp(self, n, env):
        return set(self.comp(n, env))

    def ev_GeneratorExp(self, n, env):
        return list(self.comp(n, env))

    def ev_DictComp(self, n, env):
        out = {}
        for e2 in self.comp_envs(n.generators, env):
            out[self.ev(n.key, e2)] = self.ev(n.value, e2)
        return out

    def comp_envs(self, generators, env):
        def rec(i, e):
            if i == len(generators):
                yield e
                return
            g = generators[i]
            for x in self.iterate_live(self.ev(g.iter, e)):
                e2 = {"__parent__": e}
                self.assign(g.target, x, e2)
                if all(self.truth(self.ev(c, e2)) for c in g.ifs):
                    yield from rec(i + 1, e2)
        return rec(0, {"__parent__": env})

    def comp(self, n, env):
        for e2 in self.comp_envs(n.generators, env):
            yield self.ev(n.elt, e2)

    def ev_Lambda(self, n, env):
        return FuncV(self.mod, n, closure=env)

    def ev_Attribute(self, n, env):
        o = self.ev(n.value, env)
        return self.getattr(o, n.attr, n)

    def getattr(self, o, a, node=None):
        if isinstance(o, tuple) and len(o) == 2 and o[0] == "module":
            try:
                return o[1].lookup(a)
            except KeyError:
                raise Unsupported(f"{o[1].name}.{a} not found")
        if isinstance(o, tuple) and len(o) == 2 and o[0] == "pymodule":
            return getattr(o[1], a)
        if isinstance(o, Opaque):
            if o.name == "sys" and a == "exit":
                return ("builtin", "sys.exit")
            if o.name == "os" and a == "getenv":
                return ("builtin", "os.getenv")
            if o.name == "inspect" and a == "isclass":
                return ("builtin", "inspect.isclass")
            return Opaque(o.name + "." + a)
        if isinstance(o, SuperV):
            c, st = o.self_obj.cls.find(a, after=o.owner)
            if st is None:
                if a == "__init__":
                    return ("builtin", "noop")
                raise PyRaise("AttributeError", None)
            return FuncV(c.mod, st, self_obj=o.self_obj, owner=c)
        if isinstance(o, Obj):
            if a in o.fields:
                return o.fields[a]
            c, st = o.cls.find(a)
            if st is None:
                if a == "__class__":
                    return o.cls
                raise PyRaise("AttributeError", (self.mod.name if self.mod else "?", getattr(node, "lineno", 0), f"{o.cls.name}.{a}"))
            if isinstance(st, ast.FunctionDef):
                decs = _decorators(st)
                if "staticmethod" in decs:
                    return FuncV(c.mod, st, owner=c)
                if "classmethod" in decs:
                    return FuncV(c.mod, st, self_obj=o.cls, owner=c)
                f = FuncV(c.mod, st, self_obj=o, owner=c)
                if "property" in decs:
                    return Interp(c.mod).call_func(f, [], {})
                return f
            return Interp(c.mod).ev(st.value, {})
        if isinstance(o, ClassV):
            if o.is_enum():
                for st in o.node.body:
                    if isinstance(st, ast.Assign) and isinstance(st.targets[0], ast.Name) and st.targets[0].id == a:
                        return EnumMember(o, a, Interp(o.mod).ev(st.value, {}))
            if a in ("__name__", "__qualname__"):
                return o.name
            c, st = o.find(a)
            if st is None:
                raise PyRaise("AttributeError", None)
            if isinstance(st, ast.FunctionDef):
                decs = _decorators(st)
                if "classmethod" in decs:
                    return FuncV(c.mod, st, self_obj=o, owner=c)
                return FuncV(c.mod, st, owner=c)
            return Interp(c.mod).ev(st.value, {})
        if isinstance(o, EnumMember):
            if a in ("value", "name"):
                return getattr(o, a)
            c, st = o.cls.find(a)
            if isinstance(st, ast.FunctionDef):
                return FuncV(c.mod, st, self_obj=o, owner=c)
            raise PyRaise("AttributeError", None)
        if isinstance(o, FuncV) and a in ("cache_clear",):
            return ("builtin", "noop")
        if isinstance(o, FuncV) and a == "__name__":
            return o.node.name
        if isinstance(o, (str, list, set, dict, tuple, frozenset, collections.defaultdict, int, bytes, FakeFile)):
            return ("pymethod", o, a)
        if type(o).__module__ in ("pathlib", "re"):
            v = getattr(o, a)
            return ("pymethod", o, a) if callable(v) else v
        if o is None:
            raise PyRaise("AttributeError", (self.mod.name if self.mod else "?", getattr(node, "lineno", 0), f"None.{a}"))
        if isinstance(o, type) and o in (dict, list, set, str, int, tuple, frozenset, bytes) and hasattr(o, a):
            return ("pymethod", o, a)
        raise Unsupported(f"getattr {o!r}.{a}")

    def ev_Call(self, n, env):
        if isinstance(n.func, ast.Name) and n.func.id == "super" and not n.args:
            e = env
            while e is not None:
                if "__owner__" in e:
                    return SuperV(e["__owner__"], e["__self__"])
                e = e.get("__parent__")
            raise Unsupported("super() outside a method")
        f = self.ev(n.func, env)
        args = self._elts(n.args, env)
        kw = {}
        for k in n.keywords:
            if k.arg is None:
                kw.update(self.ev(k.value, env))
            else:
                kw[k.arg] = self.ev(k.value, env)
        try:
            return self.call(f, args, kw)
        except TypeError as e:
            raise Unsupported(f"TypeError {e} calling {ast.unparse(n)[:80]} at {self.mod.name}:{n.lineno}")

    def isinstance_(self, v, c):
        if isinstance(c, tuple) and not (len(c) == 2 and c[0] in ("builtin", "exc", "module")):
            return any(self.isinstance_(v, x) for x in c)
        if isinstance(c, ClassV):
            if isinstance(v, Obj):
                return v.cls.is_sub(c)
            if isinstance(v, EnumMember):
                return v.cls.is_sub(c)
            return False
        if c is int:
            return isinstance(v, Term) or isinstance(v, int)
        if isinstance(c, type):
            return isinstance(v, c)
        if isinstance(c, Opaque):
            raise Unsupported(f"isinstance against {c!r}")
        raise Unsupported(f"isinstance against {c!r}")

    def call(self, f, args, kw):
        if isinstance(f, tuple) and f[0] == "host":
            # a probe placed by a rule in the position of a repository function: receives the abstract arguments
            return f[1](*args, **kw)
        if isinstance(f, tuple) and f[0] == "builtin":
            return self.call_builtin(f[1], args, kw)
        if isinstance(f, tuple) and f[0] == "pymethod":
            o, name = f[1], f[2]
            if name in ("sort",) and "key" in kw:
                key = kw["key"]
                o.sort(key=lambda x: self.call(key, [x], {}), reverse=kw.get("reverse", False))
                return None
            if name == "join":
                return o.join([self.to_str(x) if isinstance(x, (Obj, EnumMember, Term)) else x for x in self.iterate(args[0])])
            if name == "format":
                return o.format(*[self.to_str(x) if isinstance(x, (Obj, EnumMember, Term)) else x for x in args], **kw)
            try:
                return getattr(o, name)(*args, **kw)
            except (KeyError, IndexError, ValueError) as e:
                raise PyRaise(type(e).__name__, None)
            except AttributeError:
                raise PyRaise("AttributeError", None)
        if isinstance(f, tuple) and f[0] == "exc":
            return ("excv", f[1])
        if isinstance(f, type):
            if f is collections.defaultdict:
                fac = args[0] if args else None
                if isinstance(fac, (FuncV, ClassV)):
                    return collections.defaultdict(lambda: self.call(fac, [], {}), *args[1:])
                return collections.defaultdict(*args)
            if f is str and args and isinstance(args[0], (Obj, EnumMember, Term)):
                return self.to_str(args[0])
            if f is int and args and isinstance(args[0], Term):
                return args[0]
            if f in (list, set, tuple, frozenset, dict) and args:
                if f is dict and isinstance(args[0], dict):
                    return dict(args[0])
                return f(self.iterate(args[0]))
            try:
                return f(*args, **kw)
            except ValueError:
                raise PyRaise("ValueError", None)
        if isinstance(f, ClassV):
            return self.instantiate(f, args, kw)
        if isinstance(f, FuncV):
            return self.call_func(f, args, kw)
        if isinstance(f, Opaque):
            return Opaque(f.name + "()")
        if callable(f) and getattr(f, "__module__", None) in PURE_STDLIB + ("_binascii", "_sre"):
            if any(isinstance(x, (Obj, Term, Opaque, FuncV, ClassV)) for x in list(args) + list(kw.values())):
                raise Unsupported(f"library call {f!r} on abstract value")
            try:
                return f(*args, **kw)
            except Exception as e:  # the analysed code would see this exception
                raise PyRaise(type(e).__name__, None)
        raise Unsupported(f"call {f!r}")

    def call_builtin(self, name, args, kw):
        if name == "noop":
            return None
        if name == "isinstance":
            return self.isinstance_(args[0], args[1])
        if name == "issubclass":
            a, b = args
            if isinstance(a, ClassV) and isinstance(b, ClassV):
                return a.is_sub(b)
            return False
        if name in ("max", "min"):
            xs = list(args) if len(args) > 1 else self.iterate(args[0])
            if "key" in kw:
                key = kw["key"]
                if not xs and "default" in kw:
                    return kw["default"]
                return (max if name == "max" else min)(xs, key=lambda x: self.call(key, [x], {}))
            if any(isinstance(x, Term) for x in xs):
                return Term(f'{name}({",".join(sorted(map(repr, xs)))})')
            if not xs:
                if "default" in kw:
                    return kw["default"]
                raise PyRaise("ValueError", None)
            return (max if name == "max" else min)(xs)
        if name == "print":
            w = self.mod.world
            if "file" in kw:
                if w.stderr is not None:
                    w.stderr.append(" ".join(self.to_str(a) if isinstance(a, (Obj, EnumMember, Term, list)) else str(a) for a in args))
                return None
            if w.stdout is not None:
                w.stdout.append(" ".join(self.to_str(a) if isinstance(a, (Obj, EnumMember, Term, list)) else str(a) for a in args))
            return None
        if name == "sys.exit":
            raise PyRaise("SystemExit", None)
        if name == "os.getenv":
            return args[1] if len(args) > 1 else kw.get("default")
        if name == "inspect.isclass":
            return isinstance(args[0], ClassV)
        if name == "open":
            mode = args[1] if len(args) > 1 else kw.get("mode", "r")
            fname = str(args[0])
            if "w" in mode or "a" in mode:
                return FakeFile(self.mod.world, fname, reset="w" in mode)
            if fname not in self.mod.world.files:
                raise PyRaise("FileNotFoundError", None)
            return FakeFile(self.mod.world, fname, reset=False)
        if name == "dir":
            o = args[0]
            if isinstance(o, tuple) and o[0] == "module":
                return sorted(set(o[1].defs) | set(o[1].imports))
            raise Unsupported(f"dir of {o!r}")
        if name == "map":
            return [self.call(args[0], [x], {}) for x in self.iterate(args[1])]
        if name == "filter":
            return [x for x in self.iterate(args[1]) if self.truth(self.call(args[0], [x], {}))]
        if name == "getattr":
            try:
                return self.getattr(args[0], args[1])
            except PyRaise as e:
                if e.exc == "AttributeError" and len(args) > 2:
                    return args[2]
                raise
        if name == "hasattr":
            try:
                self.getattr(args[0], args[1])
                return True
            except PyRaise:
                return False
        if name == "repr":
            return self.to_str(args[0], True)
        if name == "sorted":
            xs = self.iterate(args[0])
            key = kw.get("key")
            rev = kw.get("reverse", False)
            try:
                if key is not None:
                    return sorted(xs, key=lambda x: self.call(key, [x], {}), reverse=rev)
                return sorted(xs, reverse=rev)
            except TypeError:
                raise Unsupported("sorted of unordered abstract values")
        if name == "len":
            v = args[0]
            if isinstance(v, Obj):
                c, st = v.cls.find("__len__")
                if st is None:
                    raise PyRaise("TypeError", None)
                return self.call_func(FuncV(c.mod, st, self_obj=v, owner=c), [], {})
            if isinstance(v, (Term, Opaque)) or v is None:
                raise Unsupported(f"len of {v!r}")
            return len(v)
        if name in ("hash", "id"):
            return id(args[0]) if name == "id" or isinstance(args[0], Obj) else hash(args[0])
        if name == "type":
            v = args[0]
            if isinstance(v, Obj):
                return v.cls
            return type(v)
        if name == "reversed":
            return list(reversed(self.iterate(args[0])))
        if name == "range":
            if any(isinstance(a, Term) for a in args):
                raise Unsupported("range over symbolic term")
            return range(*args)
        table = {"any": lambda x: any(self.truth(i) for i in self.iterate(x)),
                 "all": lambda x: all(self.truth(i) for i in self.iterate(x)),
                 "enumerate": lambda x, start=0: list(enumerate(self.iterate(x), start)),
                 "zip": lambda *a: list(zip(*[self.iterate(x) for x in a])),
                 "sum": lambda x, s=0: sum(self.iterate(x), s), "abs": abs}
        if name in table:
            return table[name](*args, **kw)
        raise Unsupported(f"builtin {name}")

    def instantiate(self, cls, args, kw):
        if cls.is_enum():
            # Enum lookup by value
            for st in cls.node.body:
                if isinstance(st, ast.Assign) and isinstance(st.targets[0], ast.Name):
                    m = self.getattr(cls, st.targets[0].id)
                    if isinstance(m, EnumMember) and m.value == args[0]:
                        return m
            raise PyRaise("ValueError", None)
        o = Obj(cls)
        c, init = cls.find("__init__")
        if init is not None and isinstance(init, ast.FunctionDef):
            self.call_func(FuncV(c.mod, init, self_obj=o, owner=c), args, kw)
            return o
        if cls.is_dataclass():
            fields = cls.dataclass_fields()
            if len(args) > len(fields):
                raise PyRaise("TypeError", None)
            for i, (nm, default, c) in enumerate(fields):
                if i < len(args):
                    o.fields[nm] = args[i]
                elif nm in kw:
                    o.fields[nm] = kw[nm]
                elif default is not None:
                    dv = default
                    if isinstance(dv, ast.Call) and ast.unparse(dv.func).endswith("field"):
                        kws = {k.arg: k.value for k in dv.keywords}
                        if "default_factory" in kws:
                            o.fields[nm] = Interp(c.mod).call(Interp(c.mod).ev(kws["default_factory"], {}), [], {})
                        elif "default" in kws:
                            o.fields[nm] = Interp(c.mod).ev(kws["default"], {})
                        else:
                            raise Unsupported("dataclass field()")
                    else:
                        o.fields[nm] = Interp(c.mod).ev(dv, {})
                else:
                    raise PyRaise("TypeError", None)
            return o
        if args or kw:
            ext = cls.ext_bases()
            if any("Exception" in e or "Error" in e for e in ext):
                o.fields["args"] = tuple(args)
                return o
            raise PyRaise("TypeError", None)
        return o

    def call_func(self, f, args, kw):
        node = f.node
        a = node.args
        env = {"__parent__": f.closure}
        if f.owner is not None and f.self_obj is not None:
            env["__owner__"] = f.owner
            env["__self__"] = f.self_obj
        params = [p.arg for p in a.posonlyargs + a.args]
        vals = list(args)
        if f.self_obj is not None:
            vals = [f.self_obj] + vals
        defaults = [None] * (len(params) - len(a.defaults)) + list(a.defaults)
        if len(vals) > len(params) and a.vararg is None:
            raise PyRaise("TypeError", None)
        kw = dict(kw)
        for i, p in enumerate(params):
            if i < len(vals):
                env[p] = vals[i]
            elif p in kw:
                env[p] = kw.pop(p)
            elif defaults[i] is not None:
                # default values are evaluated once, when the function is defined, and shared by all calls (CPython semantics)
                cache = f.mod.world.__dict__.setdefault("_defaults", {})
                ck = (id(node), i)
                if ck not in cache:
                    cache[ck] = Interp(f.mod).ev(defaults[i], {"__parent__": f.closure})
                env[p] = cache[ck]
            else:
                raise PyRaise("TypeError", (f.mod.name, node.lineno, f"missing argument {p}"))
        if a.vararg is not None:
            env[a.vararg.arg] = tuple(vals[len(params):])
        for p, d in zip(a.kwonlyargs, a.kw_defaults):
            if p.arg in kw:
                env[p.arg] = kw.pop(p.arg)
            elif d is not None:
                env[p.arg] = Interp(f.mod).ev(d, {"__parent__": f.closure})
            else:
                raise PyRaise("TypeError", None)
        if a.kwarg is not None:
            env[a.kwarg.arg] = kw
        elif kw:
            raise PyRaise("TypeError", (f.mod.name, node.lineno, f"unexpected keyword {sorted(kw)}"))
        it = Interp(f.mod)
        if isinstance(node, ast.Lambda):
            return it.ev(node.body, env)
        try:
            it.exec_block(node.body, env)
        except _Ret as r:
            return r.v
        return None


def _as_load(t):
    t2 = ast.parse(ast.unparse(t), mode="eval").body
    ast.copy_location(t2, t)
    for n in ast.walk(t2):
        ast.copy_location(n, t)
    return t2
