"""E2 - abstract evaluation of tealer's table-like functions from their syntax trees.

Nothing under the analysed root is imported or executed by Python: this module parses the
source files with `ast` and walks the trees over *abstract* inputs (objects that carry only a
class of the repository's hierarchy and the fields the code reads, symbolic integer terms,
marker sets).  The result of evaluating a function over the complete product of its finite
abstract input domains is its decision table; rules compare tables with oracles.

Anything outside the supported subset raises `Unsupported` (-> ANALYSIS-ERROR, never a verdict).
A Python-level exception the analysed code would raise on an abstract input is `PyRaise`
(-> a RAISES row of the table).
"""
import ast
import builtins as _builtins
import collections
import copy as _copy
import functools as _functools
import itertools
import math as _math
import operator
import pathlib
import string as _string
import textwrap as _textwrap


COVERAGE = None     # set of (module, function, line) evaluated; filled when tools/coverage.py asks for it
BRANCHES = None     # set of (module, line, outcome) of if-statements / conditional expressions evaluated


class Unsupported(Exception):
    pass


class PyRaise(Exception):
    """an exception the analysed code raises: `exc` is the class name, `value` the exception value the handler binds
    (an ExcV for built-in exceptions, an Obj for repository exception classes)"""

    def __init__(self, exc, where=None, value=None):
        super().__init__(exc)
        self.exc = exc
        self.where = where
        self.value = value


class ExcV:
    """instance of a built-in exception class"""

    def __init__(self, name, args=()):
        self.name, self.args = name, tuple(args)
        self.cause = None

    def __str__(self):
        if self.name == "KeyError" and len(self.args) == 1:
            return repr(self.args[0])
        return str(self.args[0]) if len(self.args) == 1 else (str(self.args) if self.args else "")

    def __repr__(self):
        return f"{self.name}({', '.join(map(repr, self.args))})"


def _exc_is_sub(name, handler):
    """built-in exception hierarchy by name"""
    a, b = getattr(_builtins, name, None), getattr(_builtins, handler, None)
    if isinstance(a, type) and isinstance(b, type):
        return issubclass(a, b)
    return name == handler


class _Ret(Exception):
    def __init__(self, v):
        self.v = v


class _Break(Exception):
    pass


class _Continue(Exception):
    pass


def _cached(fn):
    key = "_c_" + fn.__name__

    def wrapper(self):
        d = self.__dict__
        if key not in d:
            d[key] = fn(self)
        return d[key]
    return wrapper


class ClassV:
    runtime_assigned = set()     # names of class attributes rebound after class creation (rare; keeps lookups cheap)

    def __init__(self, mod, node, closure=None):
        self.mod, self.node, self.name = mod, node, node.name
        self.closure = closure      # enclosing function environment of a class defined inside a function
        self.attrs = {}             # class attributes, evaluated once (and rebindable) like CPython's class namespace
        self._bases = None
        self._mro = None
        self._dunder = {}

    def __deepcopy__(self, memo):
        return self

    def dunder(self, name):
        """(class, FunctionDef) of a special method, cached"""
        if name not in self._dunder:
            c, st = self.find(name)
            self._dunder[name] = (c, st) if isinstance(st, ast.FunctionDef) else (None, None)
        return self._dunder[name]

    def bases(self):
        if self._bases is None:
            out = []
            for b in self.node.bases:
                try:
                    v = self.mod.ev(b, {"__parent__": self.closure} if self.closure is not None else {})
                except (Unsupported, PyRaise):
                    v = None
                if isinstance(v, ClassV):
                    out.append(v)
                else:
                    out.append(("ext", ast.unparse(b)))
            self._bases = out
        return self._bases

    def mro(self):
        if self._mro is None:
            out = [self]
            for b in self.bases():
                if isinstance(b, ClassV):
                    for c in b.mro():
                        if c not in out:
                            out.append(c)
            self._mro = out
        return self._mro

    @_cached
    def ext_bases(self):
        s = set()
        for c in self.mro():
            for b in c.bases():
                if not isinstance(b, ClassV):
                    s.add(b[1])
        return s

    def is_sub(self, other):
        return other in self.mro()

    def members(self, name):
        """all definitions of `name` in this class body (getter and setter of a property are two)"""
        out = []
        for st in self.node.body:
            if isinstance(st, ast.FunctionDef) and st.name == name:
                out.append(st)
            elif isinstance(st, ast.Assign) and any(isinstance(t, ast.Name) and t.id == name for t in st.targets):
                out.append(st)
            elif isinstance(st, ast.AnnAssign) and isinstance(st.target, ast.Name) and st.target.id == name and st.value is not None:
                out.append(st)
        return out

    def find(self, name, after=None):
        """first definition along the MRO (optionally strictly after class `after`): (class, node)"""
        memo = self.__dict__.setdefault("_find_memo", {})
        key = (name, id(after) if after is not None else None)
        if key not in memo:
            memo[key] = self._find(name, after)
        return memo[key]

    def _find(self, name, after=None):
        mro = self.mro()
        if after is not None:
            mro = mro[mro.index(after) + 1:]
        for c in mro:
            ms = c.members(name)
            if ms:
                # a property getter comes first; setters are found with find_setter
                for m in ms:
                    if not (isinstance(m, ast.FunctionDef) and _is_setter(m)):
                        return c, m
        return None, None

    def find_setter(self, name):
        memo = self.__dict__.setdefault("_setter_memo", {})
        if name not in memo:
            memo[name] = self._find_setter(name)
        return memo[name]

    def _find_setter(self, name):
        for c in self.mro():
            for m in c.members(name):
                if isinstance(m, ast.FunctionDef) and _is_setter(m):
                    return c, m
        return None, None

    @_cached
    def is_dataclass(self):
        return any("dataclass" in ast.unparse(d) for c in self.mro() for d in c.node.decorator_list) or self.is_namedtuple()

    @_cached
    def is_namedtuple(self):
        return any(e.split(".")[-1] == "NamedTuple" for e in self.ext_bases())

    @_cached
    def is_frozen(self):
        if self.is_namedtuple():
            return True
        for c in self.mro():
            for d in c.node.decorator_list:
                if isinstance(d, ast.Call) and "dataclass" in ast.unparse(d.func):
                    for k in d.keywords:
                        if k.arg in ("frozen", "unsafe_hash") and isinstance(k.value, ast.Constant) and k.value.value:
                            return True
        return False

    @_cached
    def dataclass_order(self):
        for c in self.mro():
            for d in c.node.decorator_list:
                if isinstance(d, ast.Call) and "dataclass" in ast.unparse(d.func):
                    for k in d.keywords:
                        if k.arg == "order" and isinstance(k.value, ast.Constant) and k.value.value:
                            return True
        return False

    @_cached
    def total_ordering(self):
        return any("total_ordering" in ast.unparse(d) for c in self.mro() for d in c.node.decorator_list)

    @_cached
    def dataclass_eq(self):
        for c in self.mro():
            for d in c.node.decorator_list:
                if isinstance(d, ast.Call) and "dataclass" in ast.unparse(d.func):
                    for k in d.keywords:
                        if k.arg == "eq" and isinstance(k.value, ast.Constant) and not k.value.value:
                            return False
        return True

    @_cached
    def is_enum(self):
        return any("Enum" in e for e in self.ext_bases())

    @_cached
    def enum_member_names(self):
        out = []
        for c in reversed(self.mro()):
            for st in c.node.body:
                if isinstance(st, ast.Assign) and len(st.targets) == 1 and isinstance(st.targets[0], ast.Name) and not st.targets[0].id.startswith("_"):
                    out.append(st.targets[0].id)
        return out

    @_cached
    def dataclass_fields(self):
        out = []
        for c in reversed(self.mro()):
            for st in c.node.body:
                if isinstance(st, ast.AnnAssign) and isinstance(st.target, ast.Name):
                    out = [x for x in out if x[0] != st.target.id]
                    out.append((st.target.id, st.value, c))
        return out

    def __repr__(self):
        return f"<class {self.name}>"


def _is_setter(fn):
    return any(isinstance(d, ast.Attribute) and d.attr == "setter" for d in fn.decorator_list)


def _decorators(fn):
    out = set()
    for d in fn.decorator_list:
        if isinstance(d, ast.Call):
            d = d.func
        if isinstance(d, ast.Name):
            out.add(d.id)
        elif isinstance(d, ast.Attribute):
            out.add(d.attr)
    return out


class EnumMember:
    def __init__(self, cls, name, value):
        self.cls, self.name, self.value = cls, name, value

    def __deepcopy__(self, memo):
        return self

    def _call(self, name, *args):
        c, st = self.cls.dunder(name)
        if st is None:
            return NotImplemented
        return Interp(c.mod).call_func(FuncV(c.mod, st, self_obj=self, owner=c), list(args), {})

    def __eq__(self, o):
        if self is o:
            return True
        r = self._call("__eq__", o)
        if r is not NotImplemented:
            return bool(r)
        # enum.Enum: members are singletons; IntEnum members also equal their integer value
        if isinstance(o, EnumMember):
            return self.cls is o.cls and self.name == o.name
        if any(e.split(".")[-1] in ("IntEnum", "IntFlag") for e in self.cls.ext_bases()):
            return self.value == o
        return False

    def __ne__(self, o):
        r = self._call("__ne__", o)
        if r is not NotImplemented:
            return bool(r)
        return not self.__eq__(o)

    def __lt__(self, o):
        r = self._call("__lt__", o)
        if r is not NotImplemented:
            return bool(r)
        if any(e.split(".")[-1] in ("IntEnum", "IntFlag") for e in self.cls.ext_bases()):
            return self.value < (o.value if isinstance(o, EnumMember) else o)
        return NotImplemented

    def __hash__(self):
        h = self.__dict__.get("_hash")
        if h is None:
            r = self._call("__hash__")
            h = self._hash = r if r is not NotImplemented else hash(self.name)
        return h

    def __repr__(self):
        return f"{self.cls.name}.{self.name}"


class Obj:
    """abstract instance of a repository class: the class plus the fields that were set"""
    _count = itertools.count()

    def __init__(self, cls, **fields):
        self.cls, self.fields = cls, dict(fields)
        self.oid = next(Obj._count)

    def _call(self, name, *args):
        c, st = self.cls.dunder(name)
        if st is None:
            return NotImplemented
        it = Interp(c.mod)
        return it.call_func(FuncV(c.mod, st, self_obj=self, owner=c), list(args), {})

    def __eq__(self, o):
        if self is o:
            return True
        r = self._call("__eq__", o)
        if r is not NotImplemented:
            return Interp(self.cls.mod).truth(r) if not (isinstance(r, tuple) and r == ("builtin", "NotImplemented")) else False
        if isinstance(o, Obj) and self.cls is o.cls and self.cls.is_dataclass() and self.cls.dataclass_eq():
            return self.fields == o.fields
        return False

    def __ne__(self, o):
        r = self._call("__ne__", o)
        if r is not NotImplemented:
            return Interp(self.cls.mod).truth(r)
        return not self.__eq__(o)

    def __hash__(self):
        r = self._call("__hash__")
        if r is not NotImplemented:
            return r
        if self.cls.is_dataclass() and self.cls.is_frozen():
            return hash(tuple(self.fields.values()))
        return id(self)

    def _order(self, name, o):
        r = self._call(name, o)
        if r is NotImplemented or (isinstance(r, tuple) and r == ("builtin", "NotImplemented")):
            if isinstance(o, Obj) and o.cls is self.cls and self.cls.dataclass_order():
                a, b = tuple(self.fields.values()), tuple(o.fields.values())
                return {"__lt__": a < b, "__le__": a <= b, "__gt__": a > b, "__ge__": a >= b}[name]
            if name != "__lt__" and self.cls.total_ordering() and self.cls.dunder("__lt__")[1] is not None:
                lt = self._order("__lt__", o)
                if lt is NotImplemented:
                    return NotImplemented
                eq = self.__eq__(o)
                return {"__le__": lt or eq, "__gt__": not lt and not eq, "__ge__": not lt}[name]
            return NotImplemented
        return Interp(self.cls.mod).truth(r)

    def __lt__(self, o):
        return self._order("__lt__", o)

    def __le__(self, o):
        return self._order("__le__", o)

    def __gt__(self, o):
        return self._order("__gt__", o)

    def __ge__(self, o):
        return self._order("__ge__", o)

    def __copy__(self):
        n = Obj(self.cls)
        n.fields = dict(self.fields)
        return n

    def __deepcopy__(self, memo):
        n = Obj(self.cls)
        memo[id(self)] = n
        n.fields = {k: _copy.deepcopy(v, memo) for k, v in self.fields.items()}
        return n

    def __repr__(self):
        if self.cls.is_dataclass():
            return f'{self.cls.name}({", ".join(f"{k}={v!r}" for k, v in self.fields.items())})'
        tag = self.fields.get("__tag__")
        return f"<{self.cls.name}{' ' + str(tag) if tag is not None else ''}>"


class FuncV:
    def __init__(self, mod, node, closure=None, self_obj=None, owner=None):
        if closure is None and owner is not None and getattr(owner, "closure", None) is not None:
            closure = owner.closure
        self.mod, self.node, self.closure, self.self_obj, self.owner = mod, node, closure, self_obj, owner

    def __deepcopy__(self, memo):
        return self

    def __repr__(self):
        return f'<func {getattr(self.node, "name", "lambda")}>'


class GenV:
    """generator object: the body runs to completion at the first request for an element (stated limit of the evaluator:
    side effects of a generator interleave with its consumer only through the elements already produced)"""

    def __init__(self, run):
        self._run, self._items, self._pos = run, None, 0

    def items(self):
        if self._items is None:
            self._items = self._run()
        return self._items

    def __iter__(self):
        return self

    def __next__(self):
        xs = self.items()
        if self._pos >= len(xs):
            raise StopIteration
        self._pos += 1
        return xs[self._pos - 1]


class BoundHost:
    """functools.partial and friends over abstract callables"""

    def __init__(self, f, args, kw):
        self.f, self.args, self.kw = f, list(args), dict(kw)


class Term:
    """symbolic integer: an affine form  const + sum(coef * atom)  over named atoms.

    Atoms are symbolic constants (`c`, `idx`) or opaque compound terms (`max(0,c-1)`), so two
    terms are equal exactly when their normal forms are: `1 + idx` == `idx + 1`."""

    def __init__(self, s=None, coefs=None, const=0):
        if coefs is None:
            coefs = {s: 1}
        self.coefs = {k: v for k, v in coefs.items() if v != 0}
        self.const = const

    @staticmethod
    def lift(v):
        if isinstance(v, Term):
            return v
        if isinstance(v, bool) or not isinstance(v, int):
            raise Unsupported(f"symbolic arithmetic with {v!r}")
        return Term(coefs={}, const=v)

    def add(self, o, sign=1):
        o = Term.lift(o)
        coefs = dict(self.coefs)
        for k, v in o.coefs.items():
            coefs[k] = coefs.get(k, 0) + sign * v
        return Term(coefs=coefs, const=self.const + sign * o.const)

    def scale(self, k):
        return Term(coefs={a: c * k for a, c in self.coefs.items()}, const=self.const * k)

    def is_const(self):
        return not self.coefs

    @property
    def s(self):
        return repr(self)

    def __repr__(self):
        parts = []
        for a in sorted(self.coefs):
            c = self.coefs[a]
            if c == 1:
                parts.append(f"+{a}")
            elif c == -1:
                parts.append(f"-{a}")
            else:
                parts.append(f"{c:+d}*{a}")
        if self.const or not parts:
            parts.append(f"{self.const:+d}")
        out = "".join(parts)
        return out[1:] if out.startswith("+") else out

    def __eq__(self, o):
        if isinstance(o, int) and not isinstance(o, bool):
            o = Term.lift(o)
        return isinstance(o, Term) and o.coefs == self.coefs and o.const == self.const

    def __ne__(self, o):
        return not self.__eq__(o)

    def __hash__(self):
        return hash(repr(self))


class Opaque:
    """value of an external sink (logging, sys.stderr, ...): every attribute is opaque, every call returns None"""

    def __init__(self, name):
        self.name = name

    def __repr__(self):
        return f"<opaque {self.name}>"


class FakeFile:
    """what the analysed code writes to files is kept in World.files (nothing touches the file system)"""

    def __init__(self, world, name, reset=True):
        self.world, self.name = world, name
        if reset or name not in world.files:
            world.files[name] = ""

    def write(self, s):
        self.world.files[self.name] += s

    def read(self):
        return self.world.files[self.name]

    def close(self):
        pass


class SuperV:
    def __init__(self, owner, self_obj):
        self.owner, self.self_obj = owner, self_obj


BUILTIN_TYPES = {"int": int, "str": str, "bool": bool, "list": list, "set": set, "tuple": tuple, "dict": dict,
                 "frozenset": frozenset, "bytes": bytes, "bytearray": bytearray, "float": float, "slice": slice, "complex": complex}
BUILTIN_FUNCS = ("open", "dir", "isinstance", "len", "range", "max", "min", "sorted", "print", "any", "all", "map", "getattr", "enumerate",
                 "zip", "sum", "abs", "repr", "hasattr", "reversed", "issubclass", "filter", "hash", "id", "type", "iter", "next", "callable",
                 "divmod", "pow", "round", "ord", "chr", "hex", "oct", "bin", "setattr", "delattr", "format", "vars", "object", "ascii")
OPAQUE_MODULES = ("logging", "sys", "os", "inspect")
# pure standard-library helpers the repository calls on concrete strings (literal decoding, regex matching):
# they are executed as the interpreter's own library, never as repository code
PURE_STDLIB = ("base64", "binascii", "re", "string", "html", "json", "pathlib", "posixpath", "textwrap", "math", "copy", "operator", "itertools",
               "collections", "functools", "contextlib", "_collections", "_functools", "_operator", "_json", "builtins")
TYPING_NAMES = ("typing", "abc", "dataclasses", "functools", "enum")


class _TypingShim:
    """`typing.X`: only cast has a run-time meaning the analysed code can observe"""
    cast = ("builtin", "typing.cast")
    TYPE_CHECKING = False

    def __getattr__(self, a):
        return Opaque("typing." + a)


_TypingShim = _TypingShim()


class _DataclassesShim:
    replace = ("builtin", "dataclasses.replace")
    asdict = ("builtin", "dataclasses.asdict")
    astuple = ("builtin", "dataclasses.astuple")
    fields = ("builtin", "dataclasses.fields")
    is_dataclass = ("builtin", "dataclasses.is_dataclass")

    def __getattr__(self, a):
        return Opaque("dataclasses." + a)


_DataclassesShim = _DataclassesShim()


class _FunctoolsShim:
    reduce = _functools.reduce
    partial = _functools.partial
    cmp_to_key = _functools.cmp_to_key

    def __getattr__(self, a):
        return Opaque("functools." + a)


_FunctoolsShim = _FunctoolsShim()


class Module:
    def __init__(self, world, name, tree, path):
        self.world, self.name, self.tree, self.path = world, name, tree, path
        self.defs = {}
        self.imports = {}
        self.values = {}
        self._evaluated = False
        for st in tree.body:
            self._scan(st)

    def _scan(self, st):
        if isinstance(st, (ast.FunctionDef, ast.ClassDef)):
            self.defs[st.name] = st
        elif isinstance(st, ast.Assign):
            for t in st.targets:
                if isinstance(t, ast.Name):
                    self.defs[t.id] = st
        elif isinstance(st, ast.AnnAssign) and isinstance(st.target, ast.Name) and st.value is not None:
            self.defs[st.target.id] = st
        elif isinstance(st, ast.ImportFrom):
            for a in st.names:
                self.imports[a.asname or a.name] = (st.module, a.name)
        elif isinstance(st, ast.Import):
            for a in st.names:
                self.imports[a.asname or a.name.split(".")[0]] = (a.name, None)
        elif isinstance(st, ast.If):  # TYPE_CHECKING blocks
            for s in st.body:
                self._scan(s)

    def lookup(self, name):
        if name in self.values:
            return self.values[name]
        if name in self.defs:
            st = self.defs[name]
            if isinstance(st, ast.FunctionDef):
                v = Interp(self).decorate(st, FuncV(self, st), {})
            elif isinstance(st, ast.ClassDef):
                v = ClassV(self, st)
            else:
                v = self._module_value(name)
            self.values[name] = v
            return v
        if name in self.imports:
            return self.resolve_import(*self.imports[name])
        raise KeyError(name)

    def resolve_import(self, m, n):
        if True:
            mod = self.world.module(m)
            if mod is None:
                return self.world.external(m, n)
            if n is None:
                return ("module", mod)
            if n in mod.defs or n in mod.imports:
                return mod.lookup(n)
            sub = self.world.module(m + "." + n)
            if sub is not None:
                return ("module", sub)
            raise Unsupported(f"cannot resolve {m}.{n}")

    def _module_value(self, name):
        # evaluate the module-level assignments in order (pure data: tables and constants)
        if not self._evaluated:
            self._evaluated = True
            env = {}
            it = Interp(self)
            for st in self.tree.body:
                if isinstance(st, (ast.Assign, ast.AnnAssign, ast.AugAssign)):
                    try:
                        it.exec_stmt(st, env)
                    except (Unsupported, PyRaise, KeyError):
                        pass
            for k, v in env.items():
                self.values.setdefault(k, v)
        if name not in self.values:
            raise Unsupported(f"module constant {self.name}.{name}")
        return self.values[name]

    def ev(self, node, env):
        return Interp(self).ev(node, env)


class World:
    """the parsed repository; one instance per analysed root"""

    def __init__(self, root="/repo"):
        self.root = pathlib.Path(root)
        self.cache = {}
        self.trace = None          # list of (module, lineno, taken) when branch tracing is on
        self.steps = 0
        self.max_steps = 5_000_000
        self.files = {}            # file name -> text written by the analysed code (abstract file system)
        self.dirs = set()          # directories the analysed code created (the working directory exists; nothing else does)
        self.stdout = None         # list of printed lines when capture is on
        self.stderr = None         # lines printed with file=... (diagnostics) when capture is on

    def module(self, dotted):
        if dotted not in self.cache:
            if not dotted.startswith("tealer"):
                self.cache[dotted] = None
                return None
            p = self.root / (dotted.replace(".", "/") + ".py")
            if not p.exists():
                p = self.root / dotted.replace(".", "/") / "__init__.py"
            if not p.exists():
                self.cache[dotted] = None
                return None
            self.cache[dotted] = Module(self, dotted, ast.parse(p.read_text()), str(p))
        return self.cache[dotted]

    def external(self, m, n):
        top = m.split(".")[0]
        if m == "typing" and n == "cast":
            return ("builtin", "typing.cast")
        if m == "typing" and n is None:
            return ("pymodule", _TypingShim)
        if m == "enum" and n == "auto":
            return ("builtin", "enum.auto")
        if m == "functools" and n in ("lru_cache", "cache", "wraps", "total_ordering", "cached_property", "singledispatch"):
            return Opaque(f"{m}.{n}")         # decorators: honoured where functions are defined / called
        if m == "functools" and n is None:
            return ("pymodule", _FunctoolsShim)
        if m == "dataclasses" and n in ("replace", "asdict", "astuple", "fields", "is_dataclass"):
            return ("builtin", "dataclasses." + n)
        if m == "dataclasses" and n is None:
            return ("pymodule", _DataclassesShim)
        if m == "contextlib" and n == "contextmanager":
            return Opaque("contextlib.contextmanager")
        if m == "contextlib" and n == "suppress":
            return ("builtin", "contextlib.suppress")
        if m == "copy" and n in ("copy", "deepcopy"):
            return ("builtin", "copy." + n)
        if m == "functools" and n == "partial":
            return ("builtin", "functools.partial")
        if m == "operator" and n in ("attrgetter", "methodcaller"):
            return ("builtin", "operator." + n)
        if top in PURE_STDLIB:
            import importlib
            pm = importlib.import_module(m)
            return ("pymodule", pm) if n is None else getattr(pm, n)
        if top in OPAQUE_MODULES:
            return Opaque(f"{m}.{n}" if n else m)
        if top in TYPING_NAMES:
            if n == "TYPE_CHECKING":
                return False
            return Opaque(f"{m}.{n}" if n else m)
        # any other third-party / standard-library module: an opaque sink (its results cannot be inspected)
        return Opaque(f"{m}.{n}" if n else m)

    def cls(self, dotted_module, name):
        mod = self.module(dotted_module)
        if mod is None:
            raise Unsupported(f"module {dotted_module} not found")
        try:
            v = mod.lookup(name)
        except KeyError:
            raise Unsupported(f"{dotted_module}.{name} not found")
        return v

    def func(self, dotted_module, name):
        return self.cls(dotted_module, name)

    # ---- entry points
    def call(self, f, *args, **kw):
        self.steps = 0
        return Interp(f.mod if isinstance(f, FuncV) else None).call(f, list(args), kw)

    def getattr(self, o, a):
        return Interp(None).getattr(o, a)

    def new(self, cls, *args, **kw):
        self.steps = 0
        return Interp(cls.mod).instantiate(cls, list(args), kw)

    def method(self, obj, name):
        return Interp(obj.cls.mod).getattr(obj, name)


class CtxMgrV:
    """result of calling a @contextmanager generator function: run(at_yield) executes the body, calling at_yield(value) at the yield"""

    def __init__(self, run):
        self.run = run


class SuppressV:
    def __init__(self, handlers):
        self.handlers = handlers


def _norm_dir(d):
    d = d.replace("\\", "/")
    while d.startswith("./"):
        d = d[2:]
    return d.rstrip("/") if d not in ("/",) else d


PATH_IO = {"exists", "is_dir", "is_file", "mkdir", "open", "read_text", "write_text", "read_bytes", "write_bytes", "unlink", "rmdir", "iterdir", "glob", "rglob", "stat", "touch",
           "resolve", "absolute", "cwd", "home", "expanduser", "samefile", "rename", "replace", "chmod", "lstat", "owner", "group", "symlink_to", "readlink"}


def _object_class(world):
    c = world.__dict__.get("_object_class")
    if c is None:
        dummy = Module(world, "builtins", ast.parse("class object:\n    pass\n"), "<builtins>")
        c = world._object_class = ClassV(dummy, dummy.tree.body[0])
    return c


def _host_exc(e, where=None):
    return PyRaise(type(e).__name__, where, ExcV(type(e).__name__, e.args))


def _has_yield(fn):
    """does this function body contain a yield of its own (not of a nested function)?"""
    cached = getattr(fn, "_has_yield", None)
    if cached is None:
        cached = False
        stack = list(fn.body) if not isinstance(fn, ast.Lambda) else []
        while stack:
            n = stack.pop()
            if isinstance(n, (ast.Yield, ast.YieldFrom)):
                cached = True
                break
            if isinstance(n, (ast.FunctionDef, ast.Lambda, ast.ClassDef, ast.AsyncFunctionDef)):
                continue
            stack.extend(ast.iter_child_nodes(n))
        fn._has_yield = cached
    return cached


ABSTRACT = ()   # filled below


class Interp:
    def __init__(self, mod):
        self.mod = mod
        self.world = mod.world if mod is not None else None

    # ---- statements
    def exec_block(self, body, env):
        for st in body:
            self.exec_stmt(st, env)

    def _tick(self, node):
        w = self.mod.world
        w.steps += 1
        if w.steps > w.max_steps:
            raise Unsupported(f"step budget exhausted at {self.mod.name}:{getattr(node, 'lineno', '?')}")

    def _branch(self, st, taken):
        w = self.mod.world
        if w.trace is not None:
            w.trace.append((self.mod.name, st.lineno, taken))
        if BRANCHES is not None:
            BRANCHES.add((self.mod.name, st.lineno, bool(taken)))

    def exec_stmt(self, st, env):
        self._tick(st)
        if isinstance(st, ast.Expr):
            if isinstance(st.value, ast.Constant):
                return
            self.ev(st.value, env)
        elif isinstance(st, ast.Return):
            raise _Ret(self.ev(st.value, env) if st.value else None)
        elif isinstance(st, ast.Assign):
            v = self.ev(st.value, env)
            for t in st.targets:
                self.assign(t, v, env)
        elif isinstance(st, ast.AnnAssign):
            if st.value is not None:
                self.assign(st.target, self.ev(st.value, env), env)
        elif isinstance(st, ast.AugAssign):
            cur = self.ev(_as_load(st.target), env)
            rhs = self.ev(st.value, env)
            if isinstance(st.op, ast.Add) and isinstance(cur, list):
                cur.extend(self.iterate(rhs))   # in-place, like list.__iadd__
                v = cur
            else:
                v = self.binop(st.op, cur, rhs)
            self.assign(st.target, v, env)
        elif isinstance(st, ast.If):
            t = self.truth(self.ev(st.test, env))
            self._branch(st, t)
            self.exec_block(st.body if t else st.orelse, env)
        elif isinstance(st, ast.For):
            broke = False
            for x in self.iterate_live(self.ev(st.iter, env)):
                self.assign(st.target, x, env)
                try:
                    self.exec_block(st.body, env)
                except _Break:
                    broke = True
                    break
                except _Continue:
                    continue
            if not broke:
                self.exec_block(st.orelse, env)
        elif isinstance(st, ast.While):
            broke = False
            while self.truth(self.ev(st.test, env)):
                self._tick(st)
                try:
                    self.exec_block(st.body, env)
                except _Break:
                    broke = True
                    break
                except _Continue:
                    continue
            if not broke:
                self.exec_block(st.orelse, env)
        elif isinstance(st, ast.Break):
            raise _Break()
        elif isinstance(st, ast.Continue):
            raise _Continue()
        elif isinstance(st, ast.Pass):
            pass
        elif isinstance(st, ast.Assert):
            if not self.truth(self.ev(st.test, env)):
                msg = ()
                if st.msg is not None:
                    try:
                        msg = (self.ev(st.msg, env),)
                    except (Unsupported, PyRaise):
                        msg = ()
                raise PyRaise("AssertionError", (self.mod.name, st.lineno), ExcV("AssertionError", msg))
        elif isinstance(st, ast.Raise):
            self.exec_raise(st, env)
        elif isinstance(st, ast.FunctionDef):
            self.assign(ast.Name(id=st.name, ctx=ast.Store()), self.decorate(st, self._bind_defaults(FuncV(self.mod, st, closure=env), env), env), env)
        elif isinstance(st, ast.ClassDef):
            env[st.name] = ClassV(self.mod, st, closure=env)
        elif isinstance(st, ast.Try):
            try:
                try:
                    self.exec_block(st.body, env)
                except PyRaise as e:
                    for h in st.handlers:
                        if self._handler_matches(h, e, env):
                            if h.name:
                                env[h.name] = e.value if e.value is not None else ExcV(str(e.exc).split(".")[-1], ())
                            saved = env.get("__cur_exc__")
                            env["__cur_exc__"] = e
                            try:
                                self.exec_block(h.body, env)
                            finally:
                                env["__cur_exc__"] = saved
                            break
                    else:
                        raise
                else:
                    self.exec_block(st.orelse, env)
            finally:
                if st.finalbody:
                    self.exec_block(st.finalbody, env)
        elif isinstance(st, ast.With):
            self.exec_with(st, 0, env)
        elif isinstance(st, ast.Import):
            for a in st.names:
                env[a.asname or a.name.split(".")[0]] = self.mod.resolve_import(a.name if a.asname else a.name.split(".")[0], None)
        elif isinstance(st, ast.ImportFrom):
            for a in st.names:
                env[a.asname or a.name] = self.mod.resolve_import(st.module, a.name)
        elif isinstance(st, ast.Match):
            subject = self.ev(st.subject, env)
            for case in st.cases:
                binds = {}
                if self.match_pattern(case.pattern, subject, binds, env):
                    saved_env = {k: env[k] for k in binds if k in env}
                    env.update(binds)
                    if case.guard is not None and not self.truth(self.ev(case.guard, env)):
                        continue
                    self.exec_block(case.body, env)
                    break
        elif isinstance(st, ast.Nonlocal):
            env.setdefault("__nonlocal__", set()).update(st.names)
        elif isinstance(st, ast.Global):
            env.setdefault("__global__", set()).update(st.names)
        elif isinstance(st, ast.Delete):
            for t in st.targets:
                if isinstance(t, ast.Subscript):
                    o = self.ev(t.value, env)
                    k = self.ev(t.slice, env)
                    if isinstance(o, Obj):
                        self.call_dunder(o, "__delitem__", [k], st)
                        continue
                    try:
                        del o[k]
                    except (KeyError, IndexError) as e:
                        raise _host_exc(e, (self.mod.name, st.lineno))
                elif isinstance(t, ast.Name):
                    if t.id in env:
                        del env[t.id]
                    else:
                        raise PyRaise("NameError", (self.mod.name, st.lineno))
                elif isinstance(t, ast.Attribute):
                    o = self.ev(t.value, env)
                    if isinstance(o, Obj) and t.attr in o.fields:
                        del o.fields[t.attr]
                    else:
                        raise PyRaise("AttributeError", (self.mod.name, st.lineno))
                else:
                    raise Unsupported(f"del target at {self.mod.name}:{st.lineno}")
        else:
            raise Unsupported(f"stmt {type(st).__name__} at {self.mod.name}:{st.lineno}")

    def _func_env(self, env):
        """the environment of the enclosing function (comprehension scopes are transparent)"""
        e = env
        while e is not None and e.get("__comp__"):
            e = e.get("__parent__")
        return e if e is not None else env

    def assign(self, t, v, env):
        if isinstance(t, ast.Name):
            fe = self._func_env(env)
            if t.id in fe.get("__global__", ()):
                self.mod.values[t.id] = v
                return
            if t.id in fe.get("__nonlocal__", ()):
                e = fe.get("__parent__")
                while e is not None:
                    if t.id in e:
                        e[t.id] = v
                        return
                    e = e.get("__parent__")
                raise Unsupported(f"nonlocal {t.id} has no binding")
            env[t.id] = v
        elif isinstance(t, (ast.Tuple, ast.List)):
            vs = list(self.iterate(v))
            stars = [i for i, e in enumerate(t.elts) if isinstance(e, ast.Starred)]
            if stars:
                i = stars[0]
                after = len(t.elts) - i - 1
                if len(vs) < len(t.elts) - 1:
                    raise PyRaise("ValueError", (self.mod.name, t.lineno))
                for tt, vv in zip(t.elts[:i], vs[:i]):
                    self.assign(tt, vv, env)
                self.assign(t.elts[i].value, list(vs[i:len(vs) - after]), env)
                for tt, vv in zip(t.elts[i + 1:], vs[len(vs) - after:] if after else []):
                    self.assign(tt, vv, env)
                return
            if len(vs) != len(t.elts):
                raise PyRaise("ValueError", (self.mod.name, t.lineno))
            for tt, vv in zip(t.elts, vs):
                self.assign(tt, vv, env)
        elif isinstance(t, ast.Attribute):
            o = self.ev(t.value, env)
            if isinstance(o, (Obj, Opaque)):
                self.assign_attr(o, t.attr, v)
            elif isinstance(o, ClassV):
                o.attrs[t.attr] = v
                ClassV.runtime_assigned.add(t.attr)
            else:
                raise Unsupported(f"attr store on {o!r} at {self.mod.name}:{t.lineno}")
        elif isinstance(t, ast.Subscript):
            o = self.ev(t.value, env)
            k = self.ev(t.slice, env)
            if isinstance(o, Obj):
                self.call_dunder(o, "__setitem__", [k, v], t)
                return
            try:
                o[k] = v
            except (IndexError, KeyError) as e:
                raise _host_exc(e, (self.mod.name, t.lineno))
            except TypeError as e:
                if isinstance(o, (Opaque, Term, ClassV, FuncV)) or o is None:
                    raise Unsupported(f"subscript store {e} at {self.mod.name}:{t.lineno}")
                raise PyRaise("TypeError", (self.mod.name, t.lineno), ExcV("TypeError", e.args))
        else:
            raise Unsupported(f"assign target {type(t).__name__}")

    def match_pattern(self, p, v, binds, env):
        if isinstance(p, ast.MatchValue):
            return self.compare(ast.Eq(), v, self.ev(p.value, env))
        if isinstance(p, ast.MatchSingleton):
            return v is p.value
        if isinstance(p, ast.MatchAs):
            if p.pattern is not None and not self.match_pattern(p.pattern, v, binds, env):
                return False
            if p.name is not None:
                binds[p.name] = v
            return True
        if isinstance(p, ast.MatchOr):
            for alt in p.patterns:
                b2 = {}
                if self.match_pattern(alt, v, b2, env):
                    binds.update(b2)
                    return True
            return False
        if isinstance(p, ast.MatchSequence):
            if not isinstance(v, (list, tuple, collections.deque)):
                return False
            vs = list(v)
            stars = [i for i, q in enumerate(p.patterns) if isinstance(q, ast.MatchStar)]
            if not stars:
                return len(vs) == len(p.patterns) and all(self.match_pattern(q, x, binds, env) for q, x in zip(p.patterns, vs))
            i = stars[0]
            after = len(p.patterns) - i - 1
            if len(vs) < len(p.patterns) - 1:
                return False
            if not all(self.match_pattern(q, x, binds, env) for q, x in zip(p.patterns[:i], vs[:i])):
                return False
            if p.patterns[i].name is not None:
                binds[p.patterns[i].name] = vs[i:len(vs) - after]
            return all(self.match_pattern(q, x, binds, env) for q, x in zip(p.patterns[i + 1:], vs[len(vs) - after:] if after else []))
        if isinstance(p, ast.MatchMapping):
            if not isinstance(v, dict):
                return False
            for k, q in zip(p.keys, p.patterns):
                kv = self.ev(k, env)
                if kv not in v or not self.match_pattern(q, v[kv], binds, env):
                    return False
            if p.rest is not None:
                used = [self.ev(k, env) for k in p.keys]
                binds[p.rest] = {k: x for k, x in v.items() if k not in used}
            return True
        if isinstance(p, ast.MatchClass):
            c = self.ev(p.cls, env)
            if not self.isinstance_(v, c):
                return False
            if p.patterns:
                if isinstance(c, type) and len(p.patterns) == 1:
                    return self.match_pattern(p.patterns[0], v, binds, env)
                if isinstance(c, ClassV) and c.is_dataclass():
                    names = [f[0] for f in c.dataclass_fields()]
                    for nm, q in zip(names, p.patterns):
                        if not self.match_pattern(q, self.getattr(v, nm), binds, env):
                            return False
                else:
                    raise Unsupported("positional class pattern")
            for nm, q in zip(p.kwd_attrs, p.kwd_patterns):
                try:
                    x = self.getattr(v, nm)
                except PyRaise:
                    return False
                if not self.match_pattern(q, x, binds, env):
                    return False
            return True
        raise Unsupported(f"pattern {type(p).__name__}")

    def call_dunder(self, o, name, args, node=None):
        c, st = o.cls.dunder(name)
        if st is None:
            raise PyRaise("TypeError", (self.mod.name if self.mod else "?", getattr(node, "lineno", 0), f"{o.cls.name} has no {name}"))
        return Interp(c.mod).call_func(FuncV(c.mod, st, self_obj=o, owner=c), list(args), {})

    def exec_raise(self, st, env):
        where = (self.mod.name, st.lineno)
        if st.exc is None:
            cur = None
            e = env
            while e is not None and cur is None:
                cur = e.get("__cur_exc__")
                e = e.get("__parent__")
            if cur is None:
                raise PyRaise("RuntimeError", where)
            raise cur
        name = ast.unparse(st.exc).split("(")[0]
        try:
            v = self.ev(st.exc, env)
        except Unsupported:
            raise PyRaise(name, where)
        if isinstance(v, tuple) and len(v) == 2 and v[0] == "exc":
            v = ExcV(v[1], ())
        if isinstance(v, ClassV):
            v = self.instantiate(v, [], {})
        if st.cause is not None and isinstance(v, (ExcV, Obj)):
            try:
                cause = self.ev(st.cause, env)
            except Unsupported:
                cause = None
            if isinstance(v, ExcV):
                v.cause = cause
            else:
                v.fields["__cause__"] = cause
        if isinstance(v, ExcV):
            raise PyRaise(v.name, where, v)
        if isinstance(v, Obj):
            raise PyRaise(v.cls.name, where, v)
        raise PyRaise(name, where)

    def exec_with(self, st, i, env):
        if i == len(st.items):
            self.exec_block(st.body, env)
            return
        item = st.items[i]
        v = self.ev(item.context_expr, env)
        if isinstance(v, CtxMgrV):
            # contextlib.contextmanager: the body of the with statement runs where the generator yields
            done = []

            def at_yield(x):
                if done:
                    raise PyRaise("RuntimeError", (self.mod.name, st.lineno), ExcV("RuntimeError", ("generator didn't stop",)))
                done.append(1)
                if item.optional_vars is not None:
                    self.assign(item.optional_vars, x, env)
                self.exec_with(st, i + 1, env)
            v.run(at_yield)
            if not done:
                raise PyRaise("RuntimeError", (self.mod.name, st.lineno), ExcV("RuntimeError", ("generator didn't yield",)))
            return
        if isinstance(v, SuppressV):
            try:
                self.exec_with(st, i + 1, env)
            except PyRaise as e:
                if not any(self._exc_matches(e, h) for h in v.handlers):
                    raise
            return
        if isinstance(v, Obj) and v.cls.dunder("__enter__")[1] is not None:
            x = self.call_dunder(v, "__enter__", [])
            if item.optional_vars is not None:
                self.assign(item.optional_vars, x, env)
            try:
                self.exec_with(st, i + 1, env)
            except PyRaise as e:
                r = self.call_dunder(v, "__exit__", [("exc", e.exc), e.value, None])
                if not self.truth(r):
                    raise
            else:
                # control-flow signals of the evaluator (return/break/continue) pass through; __exit__ still runs
                self.call_dunder(v, "__exit__", [None, None, None])
            return
        if item.optional_vars is not None:
            self.assign(item.optional_vars, v, env)
        self.exec_with(st, i + 1, env)

    def decorate(self, st, fv, env):
        """apply the decorators of a function definition that are repository functions (others are honoured by name where
        they matter: property, staticmethod, classmethod, lru_cache, contextmanager)"""
        known = {"property", "staticmethod", "classmethod", "setter", "abstractmethod", "lru_cache", "cache", "contextmanager", "wraps",
                 "overload", "dataclass", "cached_property", "total_ordering"}
        for d in reversed(st.decorator_list):
            nm = d.func if isinstance(d, ast.Call) else d
            nm = nm.id if isinstance(nm, ast.Name) else nm.attr if isinstance(nm, ast.Attribute) else None
            if nm in known:
                continue
            try:
                dv = self.ev(d, env)
            except (Unsupported, PyRaise, KeyError):
                continue
            if isinstance(dv, (FuncV, BoundHost)):
                fv = self.call(dv, [fv], {})
        return fv

    def _exc_matches(self, e, handler):
        """handler: ("exc", name) | ClassV | tuple of those"""
        exc = str(e.exc).split(".")[-1]
        if isinstance(handler, tuple) and not (len(handler) == 2 and handler[0] == "exc"):
            return any(self._exc_matches(e, h) for h in handler)
        raised_cls = e.value.cls if isinstance(e.value, Obj) else None
        if isinstance(handler, ClassV):
            if raised_cls is not None:
                return raised_cls.is_sub(handler)
            return exc == handler.name
        if isinstance(handler, tuple) and handler[0] == "exc":
            hn = handler[1]
            if raised_cls is not None:
                # a repository exception class: through its built-in bases
                bases = {b.split(".")[-1] for b in raised_cls.ext_bases()}
                return any(_exc_is_sub(b, hn) for b in bases if isinstance(getattr(_builtins, b, None), type)) or hn in ("Exception", "BaseException")
            if isinstance(getattr(_builtins, exc, None), type):
                return _exc_is_sub(exc, hn)
            # an exception known by name only (raised by a library the evaluator does not see into)
            return exc == hn or hn in ("Exception", "BaseException")
        return False

    def _handler_matches(self, h, e, env):
        if h.type is None:
            return True
        types = h.type.elts if isinstance(h.type, ast.Tuple) else [h.type]
        exc = str(e.exc).split(".")[-1]
        for t in types:
            nm = ast.unparse(t).split(".")[-1]
            if nm == exc:
                return True
            try:
                hv = self.ev(t, env)
            except (Unsupported, PyRaise, KeyError):
                hv = ("exc", nm)
            if isinstance(hv, Opaque):
                hv = ("exc", nm)
            if self._exc_matches(e, hv):
                return True
        return False

    def assign_attr(self, o, attr, v):
        if isinstance(o, Opaque):
            return
        c, setter = o.cls.find_setter(attr)
        if setter is not None:
            self.call_func(FuncV(c.mod, setter, self_obj=o, owner=c), [v], {})
        else:
            o.fields[attr] = v

    # ---- expressions
    def truth(self, v):
        if isinstance(v, Term):
            raise Unsupported("truth of symbolic term")
        if isinstance(v, Opaque):
            raise Unsupported(f"truth of {v!r}")
        if isinstance(v, Obj):
            c, st = v.cls.find("__len__")
            if st is not None:
                return bool(self.call_func(FuncV(c.mod, st, self_obj=v, owner=c), [], {}))
            c, st = v.cls.find("__bool__")
            if st is not None:
                return bool(self.call_func(FuncV(c.mod, st, self_obj=v, owner=c), [], {}))
            return True
        if isinstance(v, (ClassV, FuncV, EnumMember, ExcV, BoundHost)):
            return True
        if isinstance(v, GenV):
            return True
        return bool(v)

    def iterate_live(self, v):
        """iteration with CPython's semantics when the container is mutated by the loop body: a list is walked by index
        (removing the current element skips the next one), a dict or set whose size changes raises RuntimeError"""
        if isinstance(v, list):
            i = 0
            while i < len(v):
                yield v[i]
                i += 1
            return
        if isinstance(v, (dict, set)):
            n = len(v)
            for x in list(v):
                if len(v) != n:
                    raise PyRaise("RuntimeError", None)
                yield x
            return
        if isinstance(v, collections.deque):
            n = len(v)
            for x in list(v):
                if len(v) != n:
                    raise PyRaise("RuntimeError", None)
                yield x
            return
        if hasattr(v, "__next__") and not isinstance(v, ABSTRACT):
            # a host iterator (itertools object, generator object of the evaluator): consumed on demand
            yield from v
            return
        yield from self.iterate(v)

    def iterate(self, v):
        if isinstance(v, (list, tuple, set, frozenset, range, dict, str)):
            return list(v)
        if isinstance(v, GenV):
            out = []
            try:
                while True:
                    out.append(next(v))
            except StopIteration:
                return out
        if isinstance(v, Obj):
            if v.cls.dunder("__iter__")[1] is not None:
                return self.iterate(self.call_dunder(v, "__iter__", []))
            if v.cls.is_namedtuple():
                return list(v.fields.values())
            if v.cls.dunder("__getitem__")[1] is not None:
                out, i = [], 0
                while True:
                    try:
                        out.append(self.call_dunder(v, "__getitem__", [i]))
                    except PyRaise as e:
                        if e.exc == "IndexError":
                            return out
                        raise
                    i += 1
            raise PyRaise("TypeError", None, ExcV("TypeError", (f"'{v.cls.name}' object is not iterable",)))
        if isinstance(v, (Term, Opaque, ClassV, FuncV)) or v is None:
            if isinstance(v, ClassV) and v.is_enum():
                return [self.getattr(v, nm) for nm in v.enum_member_names()]
            if v is None or isinstance(v, (FuncV, ClassV)):
                raise PyRaise("TypeError", None, ExcV("TypeError", ("object is not iterable",)))
            raise Unsupported(f"iterate {v!r}")
        if hasattr(v, "__iter__"):
            out = []
            for x in v:
                out.append(x)
                if len(out) > 2_000_000:
                    raise Unsupported("unbounded iteration")
            return out
        raise PyRaise("TypeError", None, ExcV("TypeError", ("object is not iterable",)))

    _EV = {}

    def ev(self, n, env):
        t = type(n)
        m = Interp._EV.get(t)
        if m is None:
            m = getattr(Interp, "ev_" + t.__name__, None)
            if m is None:
                raise Unsupported(f'expr {t.__name__} at {self.mod.name}:{getattr(n, "lineno", "?")}')
            Interp._EV[t] = m
        w = self.mod.world
        w.steps += 1
        if w.steps > w.max_steps:
            raise Unsupported(f"step budget exhausted at {self.mod.name}:{getattr(n, 'lineno', '?')}")
        return m(self, n, env)

    def ev_Constant(self, n, env):
        return n.value

    def ev_Name(self, n, env):
        e = env
        while e is not None:
            if n.id in e:
                return e[n.id]
            e = e.get("__parent__")
        try:
            return self.mod.lookup(n.id)
        except KeyError:
            pass
        if n.id in BUILTIN_TYPES:
            return BUILTIN_TYPES[n.id]
        if n.id in BUILTIN_FUNCS:
            return ("builtin", n.id)
        if n.id == "super":
            return ("builtin", "super")
        b = getattr(_builtins, n.id, None)
        if isinstance(b, type) and issubclass(b, BaseException):
            return ("exc", n.id)
        if n.id == "NotImplemented":
            return ("builtin", "NotImplemented")
        if n.id == "Ellipsis":
            return Ellipsis
        if n.id == "__name__":
            return self.mod.name
        if n.id == "__file__":
            return self.mod.path
        e = env
        while e is not None:
            fn = e.get("__fnnode__")
            if fn is not None:
                # a local of the enclosing function (bound somewhere in its body) read on a path that never bound it
                if any(isinstance(x, ast.Name) and x.id == n.id and isinstance(x.ctx, ast.Store) for x in ast.walk(fn)):
                    raise PyRaise("UnboundLocalError", (self.mod.name, n.lineno, f"local variable '{n.id}' read before assignment"))
                break
            e = e.get("__parent__")
        raise Unsupported(f"name {n.id} in {self.mod.name}:{n.lineno}")

    def ev_NamedExpr(self, n, env):
        v = self.ev(n.value, env)
        self.assign(n.target, v, self._func_env(env))
        return v

    def ev_Slice(self, n, env):
        return slice(self.ev(n.lower, env) if n.lower else None, self.ev(n.upper, env) if n.upper else None, self.ev(n.step, env) if n.step else None)

    def _yield(self, v, env):
        e = env
        while e is not None:
            if "__yield_cb__" in e:
                e["__yield_cb__"](v)
                return None
            if "__yield__" in e:
                e["__yield__"].append(v)
                return None
            e = e.get("__parent__") if e.get("__comp__") else None
        raise Unsupported(f"yield outside a generator at {self.mod.name}")

    def ev_Yield(self, n, env):
        return self._yield(self.ev(n.value, env) if n.value else None, env)

    def ev_YieldFrom(self, n, env):
        for x in self.iterate(self.ev(n.value, env)):
            self._yield(x, env)
        return None

    def ev_Tuple(self, n, env):
        return tuple(self._elts(n.elts, env))

    def ev_List(self, n, env):
        return list(self._elts(n.elts, env))

    def ev_Set(self, n, env):
        return set(self._elts(n.elts, env))

    def _elts(self, elts, env):
        out = []
        for e in elts:
            if isinstance(e, ast.Starred):
                out.extend(self.iterate(self.ev(e.value, env)))
            else:
                out.append(self.ev(e, env))
        return out

    def ev_Dict(self, n, env):
        out = {}
        for k, v in zip(n.keys, n.values):
            if k is None:
                out.update(self.ev(v, env))
            else:
                out[self.ev(k, env)] = self.ev(v, env)
        return out

    def ev_IfExp(self, n, env):
        t = self.truth(self.ev(n.test, env))
        self._branch(n, t)
        return self.ev(n.body, env) if t else self.ev(n.orelse, env)

    def ev_BoolOp(self, n, env):
        if isinstance(n.op, ast.And):
            v = True
            for e in n.values:
                v = self.ev(e, env)
                if not self.truth(v):
                    return v
            return v
        v = False
        for e in n.values:
            v = self.ev(e, env)
            if self.truth(v):
                return v
        return v

    def ev_UnaryOp(self, n, env):
        v = self.ev(n.operand, env)
        if isinstance(n.op, ast.Not):
            return not self.truth(v)
        if isinstance(n.op, ast.USub):
            if isinstance(v, Term):
                return v.scale(-1)
            return -v
        if isinstance(n.op, ast.Invert):
            return ~v
        if isinstance(n.op, ast.UAdd):
            return v if isinstance(v, Term) else +v
        raise Unsupported("unary")

    def binop(self, op, a, b):
        if isinstance(a, Term) or isinstance(b, Term):
            if isinstance(op, ast.Add):
                r = Term.lift(a).add(b)
            elif isinstance(op, ast.Sub):
                r = Term.lift(a).add(b, -1)
            elif isinstance(op, ast.Mult) and isinstance(a, int):
                r = b.scale(a)
            elif isinstance(op, ast.Mult) and isinstance(b, int):
                r = a.scale(b)
            elif isinstance(op, ast.LShift) and isinstance(b, int):
                r = a.scale(1 << b)
            else:
                r = Term(f"({a!r}{type(op).__name__}{b!r})")
            return r.const if r.is_const() else r
        f = {ast.Add: operator.add, ast.Sub: operator.sub, ast.Mult: operator.mul, ast.BitOr: operator.or_,
             ast.BitAnd: operator.and_, ast.LShift: operator.lshift, ast.RShift: operator.rshift,
             ast.FloorDiv: operator.floordiv, ast.Mod: operator.mod, ast.Pow: operator.pow,
             ast.BitXor: operator.xor, ast.Div: operator.truediv}.get(type(op))
        if isinstance(op, ast.Mod) and isinstance(a, str):
            bb = tuple(self.to_str(x) if isinstance(x, (Obj, EnumMember, Term)) else x for x in b) if isinstance(b, tuple) else (self.to_str(b) if isinstance(b, (Obj, EnumMember, Term)) else b)
            try:
                return a % bb
            except (TypeError, ValueError) as e:
                raise _host_exc(e)
        if f is None:
            raise Unsupported(f"binop {type(op).__name__}")
        if isinstance(a, Obj) or isinstance(b, Obj):
            dn = {ast.Add: "add", ast.Sub: "sub", ast.Mult: "mul", ast.BitOr: "or", ast.BitAnd: "and", ast.BitXor: "xor", ast.FloorDiv: "floordiv",
                  ast.Mod: "mod", ast.LShift: "lshift", ast.RShift: "rshift", ast.Pow: "pow", ast.Div: "truediv"}.get(type(op))
            if isinstance(a, Obj) and a.cls.dunder(f"__{dn}__")[1] is not None:
                r = self.call_dunder(a, f"__{dn}__", [b])
                if not (isinstance(r, tuple) and r == ("builtin", "NotImplemented")):
                    return r
            if isinstance(b, Obj) and b.cls.dunder(f"__r{dn}__")[1] is not None:
                return self.call_dunder(b, f"__r{dn}__", [a])
            raise PyRaise("TypeError", None, ExcV("TypeError", (f"unsupported operand type(s) for {type(op).__name__}",)))
        if isinstance(a, Opaque) or isinstance(b, Opaque):
            raise Unsupported(f"binop on {a!r}, {b!r}")
        try:
            return f(a, b)
        except TypeError as e:
            raise _host_exc(e)
        except (ZeroDivisionError, ValueError, OverflowError) as e:
            raise _host_exc(e)

    def ev_BinOp(self, n, env):
        a, b = self.ev(n.left, env), self.ev(n.right, env)
        if isinstance(n.op, ast.Div) and type(a).__module__ == "pathlib":
            return a / b
        if isinstance(n.op, ast.Div) and isinstance(a, Opaque):
            return Opaque("path")
        return self.binop(n.op, a, b)

    def compare(self, op, left, right, node=None):
        if isinstance(op, (ast.Is, ast.IsNot)):
            r = left is right
            if not r and isinstance(left, (int, str, bool, type(None), EnumMember)) and type(left) is type(right):
                r = left == right and isinstance(left, (bool, type(None), EnumMember))
            return r if isinstance(op, ast.Is) else not r
        if isinstance(op, (ast.In, ast.NotIn)):
            if isinstance(right, Obj):
                if right.cls.dunder("__contains__")[1] is not None:
                    r = self.truth(self.call_dunder(right, "__contains__", [left]))
                else:
                    r = any(x is left or x == left for x in self.iterate(right))
                return r if isinstance(op, ast.In) else not r
            if isinstance(right, GenV):
                right = self.iterate(right)
            if isinstance(right, ClassV) and right.is_enum():
                right = self.iterate(right)
            if isinstance(right, (Term, Opaque)):
                raise Unsupported(f"membership in {right!r}")
            if right is None:
                raise PyRaise("TypeError", None, ExcV("TypeError", ("argument of type 'NoneType' is not iterable",)))
            try:
                r = left in right
            except TypeError as e:
                raise _host_exc(e)
            return r if isinstance(op, ast.In) else not r
        if isinstance(left, Term) or isinstance(right, Term):
            if isinstance(op, ast.Eq):
                return left == right
            if isinstance(op, ast.NotEq):
                return not (left == right)
            raise Unsupported("ordering on symbolic term")
        f = {ast.Eq: operator.eq, ast.NotEq: operator.ne, ast.Lt: operator.lt, ast.LtE: operator.le,
             ast.Gt: operator.gt, ast.GtE: operator.ge}[type(op)]
        try:
            return f(left, right)
        except TypeError as e:
            raise _host_exc(e)

    def ev_Compare(self, n, env):
        left = self.ev(n.left, env)
        for op, rn in zip(n.ops, n.comparators):
            right = self.ev(rn, env)
            if not self.compare(op, left, right, n):
                return False
            left = right
        return True

    def ev_Subscript(self, n, env):
        o = self.ev(n.value, env)
        if isinstance(o, Opaque):
            return o          # typing subscripts: List["X"]
        if isinstance(n.slice, ast.Slice) and not isinstance(o, Obj):
            lo = self.ev(n.slice.lower, env) if n.slice.lower else None
            hi = self.ev(n.slice.upper, env) if n.slice.upper else None
            step = self.ev(n.slice.step, env) if n.slice.step else None
            if isinstance(o, GenV) or o is None or isinstance(o, (Term, ClassV, FuncV)):
                raise PyRaise("TypeError", (self.mod.name, n.lineno), ExcV("TypeError", ("object is not subscriptable",)))
            try:
                return o[lo:hi:step]
            except (TypeError, ValueError) as e:
                raise _host_exc(e, (self.mod.name, n.lineno))
        k = self.ev(n.slice, env)
        if isinstance(o, Obj):
            if o.cls.dunder("__getitem__")[1] is not None:
                return self.call_dunder(o, "__getitem__", [k], n)
            if o.cls.is_namedtuple():
                try:
                    return list(o.fields.values())[k]
                except IndexError as e:
                    raise _host_exc(e, (self.mod.name, n.lineno))
            raise PyRaise("TypeError", (self.mod.name, n.lineno), ExcV("TypeError", (f"'{o.cls.name}' object is not subscriptable",)))
        if isinstance(o, ClassV):
            if o.is_enum():
                if k in o.enum_member_names():
                    return self.getattr(o, k)
                raise PyRaise("KeyError", (self.mod.name, n.lineno), ExcV("KeyError", (k,)))
            return o          # generic alias of a repository class: Foo[int]
        if isinstance(o, Term):
            raise Unsupported(f"subscript of {o!r} at {self.mod.name}:{n.lineno}")
        if o is None:
            raise PyRaise("TypeError", (self.mod.name, n.lineno), ExcV("TypeError", ("'NoneType' object is not subscriptable",)))
        if isinstance(o, GenV):
            raise PyRaise("TypeError", (self.mod.name, n.lineno), ExcV("TypeError", ("'generator' object is not subscriptable",)))
        try:
            return o[k]
        except (KeyError, IndexError) as e:
            raise _host_exc(e, (self.mod.name, n.lineno))
        except TypeError as e:
            if isinstance(o, (list, tuple, dict, str, bytes, set, frozenset, range, int, collections.deque)):
                raise PyRaise("TypeError", (self.mod.name, n.lineno), ExcV("TypeError", e.args))
            raise Unsupported(f"subscript {e} at {self.mod.name}:{n.lineno}")

    def to_str(self, x, use_repr=False):
        if isinstance(x, Obj):
            for name in (("__repr__", "__str__") if use_repr else ("__str__", "__repr__")):
                c, st = x.cls.find(name)
                if st is not None:
                    return self.call_func(FuncV(c.mod, st, self_obj=x, owner=c), [], {})
            if "args" in x.fields and any("Exception" in e or "Error" in e for e in x.cls.ext_bases()):
                a = x.fields["args"]
                body = str(a[0]) if len(a) == 1 else (str(tuple(a)) if a else "")
                return f"{x.cls.name}({', '.join(map(repr, a))})" if use_repr else body
            return repr(x)
        if isinstance(x, ExcV):
            return repr(x) if use_repr else str(x)
        if isinstance(x, EnumMember):
            for name in (("__repr__", "__str__") if use_repr else ("__str__", "__repr__")):
                c, st = x.cls.find(name)
                if st is not None:
                    return self.call_func(FuncV(c.mod, st, self_obj=x, owner=c), [], {})
            return f"{x.cls.name}.{x.name}"
        if isinstance(x, Term):
            return "{" + x.s + "}"
        if isinstance(x, list) and any(isinstance(e, (Obj, EnumMember, Term)) for e in x):
            return "[" + ", ".join(self.to_str(e, True) for e in x) + "]"
        return repr(x) if use_repr else str(x)

    def ev_JoinedStr(self, n, env):
        out = ""
        for v in n.values:
            if isinstance(v, ast.Constant):
                out += v.value
            else:
                x = self.ev(v.value, env)
                spec = self.ev(v.format_spec, env) if v.format_spec else ""
                if v.conversion == ord("s"):
                    x = self.to_str(x) if isinstance(x, (Obj, Term, EnumMember, list, ExcV)) else str(x)
                if isinstance(x, (Obj, Term, EnumMember, list, ExcV)) or v.conversion == ord("r"):
                    x = self.to_str(x, v.conversion == ord("r"))
                try:
                    out += format(x, spec)
                except (TypeError, ValueError) as e:
                    raise Unsupported(f"format {e}")
        return out

    def ev_FormattedValue(self, n, env):
        return self.ev(n.value, env)

    def ev_ListComp(self, n, env):
        return list(self.comp(n, env))

    def ev_SetComp(self, n, env):
        return set(self.comp(n, env))

    def ev_GeneratorExp(self, n, env):
        # a generator expression evaluates its first iterable at once and the rest on demand
        return GenV(lambda: list(self.comp(n, env)))

    def ev_DictComp(self, n, env):
        out = {}
        for e2 in self.comp_envs(n.generators, env):
            out[self.ev(n.key, e2)] = self.ev(n.value, e2)
        return out

    def comp_envs(self, generators, env):
        def rec(i, e):
            if i == len(generators):
                yield e
                return
            g = generators[i]
            for x in self.iterate_live(self.ev(g.iter, e)):
                e2 = {"__parent__": e, "__comp__": True}
                self.assign(g.target, x, e2)
                if all(self.truth(self.ev(c, e2)) for c in g.ifs):
                    yield from rec(i + 1, e2)
        return rec(0, {"__parent__": env, "__comp__": True})

    def comp(self, n, env):
        for e2 in self.comp_envs(n.generators, env):
            yield self.ev(n.elt, e2)

    def ev_Lambda(self, n, env):
        return self._bind_defaults(FuncV(self.mod, n, closure=env), env)

    def _bind_defaults(self, fv, env):
        """default values of a nested function / lambda are evaluated when the definition is executed"""
        a = fv.node.args
        if a.defaults or any(d is not None for d in a.kw_defaults):
            fv.defvals = [self.ev(d, env) for d in a.defaults]
            fv.kwdefvals = {p.arg: self.ev(d, env) for p, d in zip(a.kwonlyargs, a.kw_defaults) if d is not None}
        return fv

    def ev_Attribute(self, n, env):
        o = self.ev(n.value, env)
        return self.getattr(o, n.attr, n)

    def getattr(self, o, a, node=None):
        if isinstance(o, tuple) and len(o) == 2 and o[0] == "module":
            try:
                return o[1].lookup(a)
            except KeyError:
                raise Unsupported(f"{o[1].name}.{a} not found")
        if isinstance(o, tuple) and len(o) == 2 and o[0] == "pymodule":
            if o[1] is _DataclassesShim or o[1] is _TypingShim or o[1] is _FunctoolsShim:
                return getattr(o[1], a)
            if o[1] is _copy or getattr(o[1], "__name__", "") == "copy":
                return ("builtin", "copy." + a)
            if getattr(o[1], "__name__", "") == "operator" and a in ("attrgetter", "methodcaller"):
                return ("builtin", "operator." + a)
            if getattr(o[1], "__name__", "") == "contextlib":
                return self.mod.world.external("contextlib", a) if self.mod else Opaque("contextlib." + a)
            if getattr(o[1], "__name__", "") == "functools" and a in ("lru_cache", "cache", "wraps", "total_ordering", "cached_property"):
                return Opaque("functools." + a)
            if getattr(o[1], "__name__", "") == "functools" and a == "partial":
                return ("builtin", "functools.partial")
            try:
                return getattr(o[1], a)
            except AttributeError:
                raise PyRaise("AttributeError", None)
        if isinstance(o, tuple) and len(o) == 2 and o[0] == "exc":
            if a in ("__name__", "__qualname__"):
                return o[1]
            raise Unsupported(f"getattr {o!r}.{a}")
        if isinstance(o, ExcV):
            if a == "args":
                return o.args
            if a == "__class__":
                return ("exc", o.name)
            if a in ("__cause__", "__context__"):
                return o.cause
            if a in ("errno", "strerror", "filename", "code", "__traceback__"):
                return None
            raise PyRaise("AttributeError", None)
        if isinstance(o, BoundHost):
            if a == "func":
                return o.f
            if a == "args":
                return tuple(o.args)
            if a == "keywords":
                return dict(o.kw)
            raise PyRaise("AttributeError", None)
        if isinstance(o, Opaque):
            if o.name == "sys" and a == "exit":
                return ("builtin", "sys.exit")
            if o.name == "os" and a == "getenv":
                return ("builtin", "os.getenv")
            if o.name == "os" and a in ("makedirs", "mkdir"):
                return ("builtin", "os." + a)
            if o.name == "os.path" and a in ("exists", "isdir", "isfile"):
                return ("builtin", "os.path." + a)
            if o.name == "inspect" and a == "isclass":
                return ("builtin", "inspect.isclass")
            return Opaque(o.name + "." + a)
        if isinstance(o, SuperV):
            c, st = o.self_obj.cls.find(a, after=o.owner)
            if st is None:
                if a == "__init__":
                    so = o.self_obj
                    if isinstance(so, Obj) and any("Exception" in e or "Error" in e for e in so.cls.ext_bases()):
                        def exc_init(*args, **kw):
                            so.fields["args"] = tuple(args)
                        return ("host", exc_init)
                    return ("builtin", "noop")
                if a in ("__eq__", "__hash__", "__ne__", "__repr__", "__str__", "__init_subclass__", "__post_init__", "__setattr__", "__enter__", "__exit__"):
                    so = o.self_obj
                    table = {"__eq__": lambda other: so is other, "__ne__": lambda other: so is not other, "__hash__": lambda: id(so),
                             "__repr__": lambda: repr(so), "__str__": lambda: repr(so), "__setattr__": lambda k, v: so.fields.__setitem__(k, v)}
                    return ("host", table.get(a, lambda *x, **k: None))
                raise PyRaise("AttributeError", None)
            if isinstance(st, ast.FunctionDef):
                decs = _decorators(st)
                if "staticmethod" in decs:
                    return FuncV(c.mod, st, owner=c)
                if "classmethod" in decs:
                    return FuncV(c.mod, st, self_obj=o.self_obj if isinstance(o.self_obj, ClassV) else o.self_obj.cls, owner=c)
                f = FuncV(c.mod, st, self_obj=o.self_obj, owner=c)
                if "property" in decs:
                    return Interp(c.mod).call_func(f, [], {})
                return f
            return self._class_attr(c, a, st)
        if isinstance(o, Obj):
            if a in o.fields:
                return o.fields[a]
            c, st = o.cls.find(a)
            if a in ClassV.runtime_assigned:
                for k in o.cls.mro():
                    if a in k.attrs:
                        return k.attrs[a]
                    if k is c:
                        break
            if st is None:
                if a == "__class__":
                    return o.cls
                if a == "__dict__":
                    return o.fields
                if a == "_replace" and o.cls.is_namedtuple():
                    def _replace(**kw):
                        n = Obj(o.cls)
                        n.fields = dict(o.fields)
                        n.fields.update(kw)
                        return n
                    return ("host", _replace)
                if a == "args" and any("Exception" in e or "Error" in e for e in o.cls.ext_bases()):
                    return ()
                c2, ga = o.cls.dunder("__getattr__")
                if ga is not None:
                    return Interp(c2.mod).call_func(FuncV(c2.mod, ga, self_obj=o, owner=c2), [a], {})
                raise PyRaise("AttributeError", (self.mod.name if self.mod else "?", getattr(node, "lineno", 0), f"{o.cls.name}.{a}"),
                              ExcV("AttributeError", (f"'{o.cls.name}' object has no attribute '{a}'",)))
            if isinstance(st, ast.FunctionDef):
                decs = _decorators(st)
                if "staticmethod" in decs:
                    return Interp(c.mod).decorate(st, FuncV(c.mod, st, owner=c), {})
                if "classmethod" in decs:
                    return FuncV(c.mod, st, self_obj=o.cls, owner=c)
                f = FuncV(c.mod, st, self_obj=o, owner=c)
                if "property" in decs:
                    return Interp(c.mod).call_func(f, [], {})
                if "cached_property" in decs:
                    v = Interp(c.mod).call_func(f, [], {})
                    o.fields[a] = v
                    return v
                return self._method_decorated(c, st, f)
            return self._class_attr(c, a, st)
        if isinstance(o, ClassV):
            if a in ClassV.runtime_assigned or o.is_enum():
                for k in o.mro():
                    if a in k.attrs:
                        return k.attrs[a]
            if o.is_enum():
                names = o.enum_member_names()
                if a in names:
                    for k in o.mro():
                        for st in k.node.body:
                            if isinstance(st, ast.Assign) and isinstance(st.targets[0], ast.Name) and st.targets[0].id == a:
                                if isinstance(st.value, ast.Call) and ast.unparse(st.value.func).split(".")[-1] == "auto":
                                    val = names.index(a) + 1
                                else:
                                    val = Interp(k.mod).ev(st.value, {"__parent__": k.closure} if k.closure is not None else {})
                                m = EnumMember(o, a, val)
                                o.attrs[a] = m
                                return m
                if a == "__members__":
                    return {nm: self.getattr(o, nm) for nm in names}
            if a in ("__name__", "__qualname__"):
                return o.name
            if a == "__mro__":
                return tuple(o.mro())
            if a == "__module__":
                return o.mod.name
            c, st = o.find(a)
            if st is None:
                if a == "__subclasses__":
                    raise Unsupported("__subclasses__")
                raise PyRaise("AttributeError", None, ExcV("AttributeError", (f"type object '{o.name}' has no attribute '{a}'",)))
            if isinstance(st, ast.FunctionDef):
                decs = _decorators(st)
                if "classmethod" in decs:
                    return FuncV(c.mod, st, self_obj=o, owner=c)
                return Interp(c.mod).decorate(st, FuncV(c.mod, st, owner=c), {}) if "staticmethod" in decs else FuncV(c.mod, st, owner=c)
            return self._class_attr(c, a, st)
        if isinstance(o, EnumMember):
            if a in ("value", "name"):
                return getattr(o, a)
            if a in ("_value_", "_name_"):
                return getattr(o, a.strip("_"))
            if a == "__class__":
                return o.cls
            c, st = o.cls.find(a)
            if isinstance(st, ast.FunctionDef):
                decs = _decorators(st)
                if "staticmethod" in decs:
                    return FuncV(c.mod, st, owner=c)
                if "classmethod" in decs:
                    return FuncV(c.mod, st, self_obj=o.cls, owner=c)
                f = FuncV(c.mod, st, self_obj=o, owner=c)
                if "property" in decs:
                    return Interp(c.mod).call_func(f, [], {})
                return f
            if st is not None and a not in o.cls.enum_member_names():
                return self._class_attr(c, a, st)
            if a in o.cls.enum_member_names():
                return self.getattr(o.cls, a)
            raise PyRaise("AttributeError", None)
        if isinstance(o, FuncV) and a in ("cache_clear",):
            def clear(_n=o.node):
                self._memo_table().pop(id(_n), None)
            return ("host", clear)
        if isinstance(o, FuncV) and a in ("__name__", "__qualname__"):
            return getattr(o.node, "name", "<lambda>")
        if isinstance(o, FuncV) and a == "__doc__":
            return ast.get_docstring(o.node) if not isinstance(o.node, ast.Lambda) else None
        if isinstance(o, FuncV) and a == "__wrapped__":
            return o
        if isinstance(o, FuncV) and a == "__self__":
            return o.self_obj
        if isinstance(o, GenV):
            if a == "close":
                return ("builtin", "noop")
            raise Unsupported(f"getattr generator.{a}")
        if isinstance(o, FakeFile) and a in ("name", "closed", "mode"):
            return {"name": o.name, "closed": False, "mode": "w"}[a]
        if isinstance(o, (str, list, set, dict, tuple, frozenset, collections.defaultdict, int, bytes, FakeFile)):
            if type(o) not in (str, list, set, dict, tuple, frozenset, int, bytes, bool, FakeFile, collections.defaultdict):
                try:
                    v = getattr(o, a)
                except AttributeError as e:
                    raise _host_exc(e)
                if not callable(v):
                    return v
            return ("pymethod", o, a)
        if type(o).__module__ == "pathlib" and a in PATH_IO:
            # file-system access through a path object goes to the abstract file system, never to the host's
            w = self.mod.world
            if a in ("exists", "is_dir", "is_file"):
                return ("host", lambda: self.call_builtin({"exists": "os.path.exists", "is_dir": "os.path.isdir", "is_file": "os.path.isfile"}[a], [str(o)], {}))
            if a == "mkdir":
                return ("host", lambda mode=0o777, parents=False, exist_ok=False: self.call_builtin("os.makedirs" if parents else "os.mkdir", [str(o)], {"exist_ok": exist_ok}))
            if a == "open":
                return ("host", lambda mode="r", *x, **k: self.call_builtin("open", [str(o), mode], {}))
            if a == "write_text":
                return ("host", lambda data, *x, **k: self.call_builtin("open", [str(o), "w"], {}).write(data))
            if a == "read_text":
                return ("host", lambda *x, **k: self.call_builtin("open", [str(o), "r"], {}).read())
            raise Unsupported(f"file-system access {type(o).__name__}.{a}")
        if type(o).__module__ in ("pathlib", "re"):
            v = getattr(o, a)
            return ("pymethod", o, a) if callable(v) else v
        if o is None:
            raise PyRaise("AttributeError", (self.mod.name if self.mod else "?", getattr(node, "lineno", 0), f"None.{a}"),
                          ExcV("AttributeError", (f"'NoneType' object has no attribute '{a}'",)))
        if isinstance(o, type):
            if a in ("__name__", "__qualname__"):
                return o.__name__
            if hasattr(o, a):
                return ("pymethod", o, a)
            raise PyRaise("AttributeError", None)
        if isinstance(o, (Term, CtxMgrV, SuppressV)) or (isinstance(o, tuple) and len(o) in (2, 3) and isinstance(o[0], str) and o[0] in ("builtin", "pymethod", "host", "module")):
            raise Unsupported(f"getattr {o!r}.{a}")
        # any other concrete host value (deque, Counter, OrderedDict, namedtuple instance, float, bytearray, range, iterator ...)
        try:
            v = getattr(o, a)
        except AttributeError as e:
            raise _host_exc(e, (self.mod.name if self.mod else "?", getattr(node, "lineno", 0)))
        return ("pymethod", o, a) if callable(v) else v

    def _memo_table(self):
        w = self.mod.world if self.mod is not None else None
        if w is None:
            raise Unsupported("no world")
        return w.__dict__.setdefault("_memo", {})

    def _class_attr(self, c, a, st):
        """class-level attribute: evaluated once per class, like CPython's class namespace"""
        if a not in c.attrs:
            c.attrs[a] = Interp(c.mod).ev(st.value, {"__parent__": c.closure} if c.closure is not None else {})
        return c.attrs[a]

    def _method_decorated(self, c, st, f):
        if not st.decorator_list:
            return f
        unbound = Interp(c.mod).decorate(st, FuncV(c.mod, st, owner=c), {})
        if isinstance(unbound, FuncV) and unbound.node is st:
            return f
        return BoundHost(unbound, [f.self_obj], {})

    def ev_Call(self, n, env):
        if isinstance(n.func, ast.Name) and n.func.id == "super" and not n.args:
            e = env
            while e is not None:
                if "__owner__" in e:
                    return SuperV(e["__owner__"], e["__self__"])
                e = e.get("__parent__")
            raise Unsupported("super() outside a method")
        f = self.ev(n.func, env)
        args = self._elts(n.args, env)
        kw = {}
        for k in n.keywords:
            if k.arg is None:
                kw.update(self.ev(k.value, env))
            else:
                kw[k.arg] = self.ev(k.value, env)
        try:
            return self.call(f, args, kw)
        except TypeError as e:
            raise Unsupported(f"TypeError {e} calling {ast.unparse(n)[:80]} at {self.mod.name}:{n.lineno}")

    def isinstance_(self, v, c):
        if isinstance(c, tuple) and not (len(c) == 2 and c[0] in ("builtin", "exc", "module")):
            return any(self.isinstance_(v, x) for x in c)
        if isinstance(c, ClassV):
            if isinstance(v, Obj):
                return v.cls.is_sub(c)
            if isinstance(v, EnumMember):
                return v.cls.is_sub(c)
            return False
        if c is int:
            return isinstance(v, Term) or isinstance(v, int)
        if isinstance(c, type):
            return isinstance(v, c)
        if isinstance(c, Opaque):
            raise Unsupported(f"isinstance against {c!r}")
        raise Unsupported(f"isinstance against {c!r}")

    def call(self, f, args, kw):
        if isinstance(f, tuple) and f[0] == "host":
            # a probe placed by a rule in the position of a repository function: receives the abstract arguments
            return f[1](*args, **kw)
        if isinstance(f, tuple) and f[0] == "builtin":
            return self.call_builtin(f[1], args, kw)
        if isinstance(f, BoundHost):
            return self.call(f.f, f.args + list(args), {**f.kw, **kw})
        if isinstance(f, tuple) and f[0] == "pymethod":
            o, name = f[1], f[2]
            if name in ("sort",) and "key" in kw and kw["key"] is not None:
                key = kw["key"]
                try:
                    o.sort(key=lambda x: self.call(key, [x], {}), reverse=kw.get("reverse", False))
                except TypeError as e:
                    raise _host_exc(e)
                return None
            if isinstance(o, type) and o is dict and name == "fromkeys":
                return dict.fromkeys(self.iterate(args[0]), *args[1:])
            if name in ("extend", "update", "union", "intersection", "difference", "symmetric_difference", "issubset", "issuperset", "isdisjoint",
                        "intersection_update", "difference_update", "symmetric_difference_update", "extendleft") and args:
                args = [self.iterate(a) if isinstance(a, (GenV, Obj)) or (isinstance(a, ClassV) and a.is_enum()) else a for a in args]
            if name == "join":
                return o.join([self.to_str(x) if isinstance(x, (Obj, EnumMember, Term)) else x for x in self.iterate(args[0])])
            if name == "format":
                return o.format(*[self.to_str(x) if isinstance(x, (Obj, EnumMember, Term)) else x for x in args], **kw)
            try:
                return getattr(o, name)(*args, **kw)
            except (KeyError, IndexError, ValueError, AttributeError, StopIteration, ZeroDivisionError, OverflowError, UnicodeError) as e:
                raise _host_exc(e)
            except TypeError as e:
                if any(isinstance(x, (Term, Opaque)) for x in list(args) + list(kw.values())):
                    raise Unsupported(f"{type(o).__name__}.{name} on abstract value: {e}")
                raise _host_exc(e)
        if isinstance(f, tuple) and f[0] == "exc":
            return ExcV(f[1], args)
        if isinstance(f, type):
            if f is collections.defaultdict:
                fac = args[0] if args else None
                if isinstance(fac, (FuncV, ClassV)):
                    return collections.defaultdict(lambda: self.call(fac, [], {}), *args[1:])
                return collections.defaultdict(*args)
            if f is str and args and isinstance(args[0], (Obj, EnumMember, Term, ExcV)):
                return self.to_str(args[0])
            if f is bool and args:
                return self.truth(args[0])
            if f in (collections.deque, collections.Counter, collections.OrderedDict) and args and isinstance(args[0], (GenV, Obj)):
                args = [self.iterate(args[0])] + list(args[1:])
            if f is int and args and isinstance(args[0], Term):
                return args[0]
            if f in (list, set, tuple, frozenset, dict) and args:
                if f is dict and isinstance(args[0], dict):
                    return dict(args[0])
                return f(self.iterate(args[0]))
            if any(isinstance(x, (FuncV, ClassV, BoundHost)) for x in list(args) + list(kw.values())):
                args = [self.host_callable(x) if isinstance(x, (FuncV, ClassV, BoundHost)) else x for x in args]
                kw = {k: self.host_callable(x) if isinstance(x, (FuncV, ClassV, BoundHost)) else x for k, x in kw.items()}
            try:
                return f(*args, **kw)
            except (ValueError, KeyError, IndexError, OverflowError, UnicodeError, ZeroDivisionError) as e:
                raise _host_exc(e)
            except TypeError as e:
                if any(isinstance(x, (Term, Opaque)) for x in list(args) + list(kw.values())):
                    raise Unsupported(f"{f.__name__}() on abstract value: {e}")
                raise _host_exc(e)
        if isinstance(f, Obj):
            return self.call_dunder(f, "__call__", args) if not kw else Interp(f.cls.mod).call_func(
                FuncV(f.cls.dunder("__call__")[0].mod, f.cls.dunder("__call__")[1], self_obj=f, owner=f.cls.dunder("__call__")[0]), list(args), kw)
        if isinstance(f, ClassV):
            return self.instantiate(f, args, kw)
        if isinstance(f, FuncV):
            return self.call_func(f, args, kw)
        if isinstance(f, Opaque):
            return Opaque(f.name + "()")
        fmod = getattr(f, "__module__", None) or getattr(type(f), "__module__", None)
        if callable(f) and fmod in PURE_STDLIB + ("_binascii", "_sre"):
            containerish = fmod in ("itertools", "collections", "_collections", "functools", "_functools", "operator", "_operator", "copy", "builtins")
            if f in (operator.add, operator.sub, operator.mul, operator.or_, operator.and_, operator.xor, operator.floordiv, operator.mod,
                     operator.lshift, operator.rshift, operator.pow) and len(args) == 2:
                opn = {operator.add: ast.Add, operator.sub: ast.Sub, operator.mul: ast.Mult, operator.or_: ast.BitOr, operator.and_: ast.BitAnd,
                       operator.xor: ast.BitXor, operator.floordiv: ast.FloorDiv, operator.mod: ast.Mod, operator.lshift: ast.LShift,
                       operator.rshift: ast.RShift, operator.pow: ast.Pow}[f]
                return self.binop(opn(), args[0], args[1])
            if f in (operator.eq, operator.ne, operator.lt, operator.le, operator.gt, operator.ge) and len(args) == 2:
                opn = {operator.eq: ast.Eq, operator.ne: ast.NotEq, operator.lt: ast.Lt, operator.le: ast.LtE, operator.gt: ast.Gt, operator.ge: ast.GtE}[f]
                return self.compare(opn(), args[0], args[1])
            if f is operator.not_:
                return not self.truth(args[0])
            if f is operator.truth:
                return self.truth(args[0])
            if f is operator.contains:
                return self.compare(ast.In(), args[1], args[0])
            if f is operator.getitem and isinstance(args[0], (Obj, ClassV)):
                return self.call_dunder(args[0], "__getitem__", [args[1]])
            if not containerish and any(isinstance(x, (Obj, Term, Opaque, FuncV, ClassV)) for x in list(args) + list(kw.values())):
                raise Unsupported(f"library call {f!r} on abstract value")
            if containerish:
                args = [self.host_arg(x) for x in args]
                kw = {k: self.host_arg(x) for k, x in kw.items()}
            try:
                return f(*args, **kw)
            except (PyRaise, Unsupported, _Ret, _Break, _Continue):
                raise
            except Exception as e:  # the analysed code would see this exception
                if containerish and any(isinstance(x, (Term, Opaque)) for x in list(args) + list(kw.values())):
                    raise Unsupported(f"library call {f!r} on abstract value: {e}")
                raise _host_exc(e)
        raise Unsupported(f"call {f!r}")

    def host_callable(self, v):
        """a Python callable that evaluates the abstract callable `v` (handed to container / iteration helpers of the standard library)"""
        return lambda *a, **k: self.call(v, list(a), k)

    def host_arg(self, x):
        if isinstance(x, ClassV) and x.is_enum():
            return self.iterate(x)
        if isinstance(x, (FuncV, ClassV, BoundHost)):
            return self.host_callable(x)
        if isinstance(x, tuple) and len(x) in (2, 3) and isinstance(x[0], str) and x[0] in ("builtin", "pymethod", "host", "exc"):
            return self.host_callable(x)
        if isinstance(x, Obj) and x.cls.dunder("__iter__")[1] is not None:
            return self.iterate(x)
        if isinstance(x, ClassV) and x.is_enum():
            return self.iterate(x)
        return x

    def call_builtin(self, name, args, kw):
        if name == "noop":
            return None
        if name == "isinstance":
            return self.isinstance_(args[0], args[1])
        if name == "issubclass":
            a, b = args
            if isinstance(a, ClassV) and isinstance(b, ClassV):
                return a.is_sub(b)
            return False
        if name in ("max", "min"):
            xs = list(args) if len(args) > 1 else self.iterate(args[0])
            if kw.get("key") is not None:
                key = kw["key"]
                if not xs and "default" in kw:
                    return kw["default"]
                if not xs:
                    raise PyRaise("ValueError", None, ExcV("ValueError", (f"{name}() arg is an empty sequence",)))
                try:
                    return (max if name == "max" else min)(xs, key=lambda x: self.call(key, [x], {}))
                except TypeError as e:
                    raise _host_exc(e)
            if any(isinstance(x, Term) for x in xs):
                return Term(f'{name}({",".join(sorted(map(repr, xs)))})')
            if not xs:
                if "default" in kw:
                    return kw["default"]
                raise PyRaise("ValueError", None, ExcV("ValueError", (f"{name}() arg is an empty sequence",)))
            try:
                return (max if name == "max" else min)(xs)
            except TypeError as e:
                raise _host_exc(e)
        if name == "print":
            w = self.mod.world
            if "file" in kw:
                if w.stderr is not None:
                    w.stderr.append(" ".join(self.to_str(a) if isinstance(a, (Obj, EnumMember, Term, list)) else str(a) for a in args))
                return None
            if w.stdout is not None:
                w.stdout.append(" ".join(self.to_str(a) if isinstance(a, (Obj, EnumMember, Term, list)) else str(a) for a in args))
            return None
        if name == "sys.exit":
            raise PyRaise("SystemExit", None)
        if name == "os.getenv":
            return args[1] if len(args) > 1 else kw.get("default")
        if name in ("os.makedirs", "os.mkdir"):
            w = self.mod.world
            d = _norm_dir(str(args[0]))
            exist_ok = kw.get("exist_ok", args[2] if len(args) > 2 else False)
            if name == "os.mkdir":
                parent = _norm_dir(d.rsplit("/", 1)[0]) if "/" in d else ""
                if parent and parent not in w.dirs:
                    raise PyRaise("FileNotFoundError", None, ExcV("FileNotFoundError", (2, "No such file or directory")))
            if d in w.dirs and not exist_ok and name == "os.makedirs" or (d in w.dirs and name == "os.mkdir"):
                raise PyRaise("FileExistsError", None, ExcV("FileExistsError", (17, "File exists")))
            parts = d.split("/")
            for k in range(1, len(parts) + 1):
                w.dirs.add("/".join(parts[:k]))
            return None
        if name.startswith("os.path."):
            w = self.mod.world
            d = _norm_dir(str(args[0]))
            if name == "os.path.isfile":
                return str(args[0]) in w.files
            if name == "os.path.isdir":
                return d in w.dirs or d in ("", ".")
            return d in w.dirs or d in ("", ".") or str(args[0]) in w.files
        if name == "inspect.isclass":
            return isinstance(args[0], ClassV)
        if name == "open":
            mode = args[1] if len(args) > 1 else kw.get("mode", "r")
            fname = str(args[0])
            if "w" in mode or "a" in mode:
                parent = _norm_dir(fname.rsplit("/", 1)[0]) if "/" in fname else ""
                if parent and parent not in self.mod.world.dirs:
                    # the directory was never created by the analysed code
                    raise PyRaise("FileNotFoundError", None, ExcV("FileNotFoundError", (2, "No such file or directory", fname)))
                return FakeFile(self.mod.world, fname, reset="w" in mode)
            if fname not in self.mod.world.files:
                raise PyRaise("FileNotFoundError", None)
            return FakeFile(self.mod.world, fname, reset=False)
        if name == "dir":
            o = args[0]
            if isinstance(o, tuple) and o[0] == "module":
                return sorted(set(o[1].defs) | set(o[1].imports))
            raise Unsupported(f"dir of {o!r}")
        if name == "NotImplemented":
            raise PyRaise("TypeError", None, ExcV("TypeError", ("'NotImplementedType' object is not callable",)))
        if name == "typing.cast":
            return args[1] if len(args) > 1 else kw.get("val")
        if name == "enum.auto":
            raise Unsupported("enum.auto() outside an Enum body")
        if name == "functools.partial":
            return BoundHost(args[0], args[1:], kw)
        if name == "contextlib.suppress":
            return SuppressV(list(args))
        if name.startswith("dataclasses."):
            o = args[0]
            what = name.split(".")[1]
            if what == "is_dataclass":
                return (isinstance(o, Obj) and o.cls.is_dataclass()) or (isinstance(o, ClassV) and o.is_dataclass())
            cls = o.cls if isinstance(o, Obj) else o
            if not (isinstance(cls, ClassV) and cls.is_dataclass()):
                raise PyRaise("TypeError", None, ExcV("TypeError", ("not a dataclass",)))
            names = [f[0] for f in cls.dataclass_fields()]
            if what == "fields":
                return tuple(Obj(_object_class(self.mod.world), name=nm) for nm in names)
            if what == "replace":
                n2 = Obj(o.cls)
                n2.fields = dict(o.fields)
                for k, v in kw.items():
                    if k not in names:
                        raise PyRaise("TypeError", None, ExcV("TypeError", (f"unexpected field {k}",)))
                    n2.fields[k] = v
                return n2

            def conv(v):
                if isinstance(v, Obj) and v.cls.is_dataclass():
                    return {k: conv(x) for k, x in v.fields.items()} if what == "asdict" else tuple(conv(x) for x in v.fields.values())
                if isinstance(v, list):
                    return [conv(x) for x in v]
                if isinstance(v, tuple):
                    return tuple(conv(x) for x in v)
                if isinstance(v, dict):
                    return {k: conv(x) for k, x in v.items()}
                return _copy.deepcopy(v)
            return conv(o)
        if name == "operator.attrgetter":
            names = list(args)

            def ag(o, _names=names):
                def one(o, nm):
                    for part in nm.split("."):
                        o = self.getattr(o, part)
                    return o
                r = tuple(one(o, nm) for nm in _names)
                return r[0] if len(r) == 1 else r
            return ("host", ag)
        if name == "operator.methodcaller":
            nm, margs, mkw = args[0], list(args[1:]), dict(kw)
            return ("host", lambda o: self.call(self.getattr(o, nm), margs, mkw))
        if name == "copy.copy":
            v = args[0]
            if isinstance(v, Obj) and v.cls.dunder("__copy__")[1] is not None:
                return self.call_dunder(v, "__copy__", [])
            return _copy.copy(v)
        if name == "copy.deepcopy":
            v = args[0]
            if isinstance(v, Obj) and v.cls.dunder("__deepcopy__")[1] is not None:
                return self.call_dunder(v, "__deepcopy__", [{}])
            try:
                return _copy.deepcopy(v)
            except TypeError as e:
                raise Unsupported(f"deepcopy: {e}")
        if name == "iter":
            if len(args) == 2:
                raise Unsupported("iter(callable, sentinel)")
            v = args[0]
            return v if isinstance(v, GenV) or (hasattr(v, "__next__") and not isinstance(v, ABSTRACT)) else iter(self.iterate(v))
        if name == "next":
            try:
                return next(args[0])
            except StopIteration:
                if len(args) > 1:
                    return args[1]
                raise PyRaise("StopIteration", None, ExcV("StopIteration", ()))
            except TypeError as e:
                raise _host_exc(e)
        if name == "callable":
            v = args[0]
            if isinstance(v, Obj):
                return v.cls.dunder("__call__")[1] is not None
            return isinstance(v, (FuncV, ClassV, BoundHost)) or (isinstance(v, tuple) and len(v) in (2, 3) and v[0] in ("builtin", "pymethod", "host", "exc")) or (callable(v) and not isinstance(v, (Term, Opaque)))
        if name in ("divmod", "pow", "round", "ord", "chr", "hex", "oct", "bin", "format", "ascii"):
            if any(isinstance(a, (Term, Opaque, Obj)) for a in args):
                raise Unsupported(f"{name} on abstract value")
            try:
                return getattr(_builtins, name)(*args, **kw)
            except (TypeError, ValueError, ZeroDivisionError, OverflowError) as e:
                raise _host_exc(e)
        if name == "setattr":
            o, a, v = args
            if isinstance(o, ClassV):
                o.attrs[a] = v
                ClassV.runtime_assigned.add(a)
            elif isinstance(o, (Obj, Opaque)):
                self.assign_attr(o, a, v)
            else:
                raise Unsupported(f"setattr on {o!r}")
            return None
        if name == "delattr":
            o, a = args
            if isinstance(o, Obj) and a in o.fields:
                del o.fields[a]
                return None
            raise PyRaise("AttributeError", None)
        if name == "vars":
            if args and isinstance(args[0], Obj):
                return args[0].fields
            raise Unsupported("vars()")
        if name == "object":
            return Obj(_object_class(self.mod.world))
        if name == "map":
            if len(args) > 2:
                return [self.call(args[0], list(xs), {}) for xs in zip(*[self.iterate(a) for a in args[1:]])]
            return [self.call(args[0], [x], {}) for x in self.iterate(args[1])]
        if name == "filter":
            if args[0] is None:
                return [x for x in self.iterate(args[1]) if self.truth(x)]
            return [x for x in self.iterate(args[1]) if self.truth(self.call(args[0], [x], {}))]
        if name == "getattr":
            try:
                return self.getattr(args[0], args[1])
            except PyRaise as e:
                if e.exc == "AttributeError" and len(args) > 2:
                    return args[2]
                raise
        if name == "hasattr":
            try:
                self.getattr(args[0], args[1])
                return True
            except PyRaise:
                return False
        if name == "repr":
            return self.to_str(args[0], True)
        if name == "sorted":
            xs = self.iterate(args[0])
            key = kw.get("key")
            rev = kw.get("reverse", False)
            try:
                if key is not None:
                    return sorted(xs, key=lambda x: self.call(key, [x], {}), reverse=rev)
                return sorted(xs, reverse=rev)
            except TypeError as e:
                if any(isinstance(x, (Term, Opaque)) for x in xs):
                    raise Unsupported("sorted of unordered abstract values")
                raise _host_exc(e)
        if name == "len":
            v = args[0]
            if isinstance(v, Obj):
                c, st = v.cls.find("__len__")
                if st is None:
                    raise PyRaise("TypeError", None)
                return self.call_func(FuncV(c.mod, st, self_obj=v, owner=c), [], {})
            if isinstance(v, (Term, Opaque)):
                raise Unsupported(f"len of {v!r}")
            if isinstance(v, ClassV) and v.is_enum():
                return len(v.enum_member_names())
            try:
                return len(v)
            except TypeError as e:
                raise _host_exc(e)
        if name in ("hash", "id"):
            probe = self.mod.world.__dict__.get("hash_probe")
            if name == "hash" and probe is not None:
                probe.append(type(args[0]).__name__)
            return id(args[0]) if name == "id" or isinstance(args[0], Obj) else hash(args[0])
        if name == "type":
            v = args[0]
            if len(args) == 3:
                raise Unsupported("type(name, bases, dict)")
            if isinstance(v, (Obj, EnumMember)):
                return v.cls
            if isinstance(v, ExcV):
                return ("exc", v.name)
            if isinstance(v, Term):
                return int
            if isinstance(v, (FuncV, ClassV, Opaque, GenV, BoundHost)) or (isinstance(v, tuple) and len(v) in (2, 3) and isinstance(v[0], str) and v[0] in ("builtin", "pymethod", "host", "exc", "module", "pymodule")):
                raise Unsupported(f"type of {v!r}")
            return type(v)
        if name == "reversed":
            return list(reversed(self.iterate(args[0])))
        if name == "range":
            if any(isinstance(a, Term) for a in args):
                raise Unsupported("range over symbolic term")
            return range(*args)
        def _sum(x, start=0):
            acc = start
            for i in self.iterate(x):
                acc = self.binop(ast.Add(), acc, i)
            return acc

        def _zip(*a, strict=False):
            cols = [self.iterate(x) for x in a]
            if strict and len({len(c) for c in cols}) > 1:
                raise PyRaise("ValueError", None, ExcV("ValueError", ("zip() arguments have different lengths",)))
            return list(zip(*cols))
        table = {"any": lambda x: any(self.truth(i) for i in self.iterate(x)),
                 "all": lambda x: all(self.truth(i) for i in self.iterate(x)),
                 "enumerate": lambda x, start=0: list(enumerate(self.iterate(x), start)),
                 "zip": _zip,
                 "sum": _sum, "abs": abs}
        if name in table:
            return table[name](*args, **kw)
        raise Unsupported(f"builtin {name}")

    def instantiate(self, cls, args, kw):
        if cls.is_enum():
            # Enum lookup by value
            if len(args) != 1:
                raise PyRaise("TypeError", None)
            for nm in cls.enum_member_names():
                m = self.getattr(cls, nm)
                if isinstance(m, EnumMember) and (m is args[0] or (not isinstance(args[0], EnumMember) and m.value == args[0])):
                    return m
            raise PyRaise("ValueError", None, ExcV("ValueError", (f"{args[0]!r} is not a valid {cls.name}",)))
        if any(isinstance(b, tuple) and b[1].split(".")[-1] in ("ABC",) for b in cls.bases()) or True:
            abstract = cls.__dict__.get("_c_abstract")
            if abstract is None:
                abstract = []
                seen = set()
                for k in cls.mro():
                    for st in k.node.body:
                        if isinstance(st, ast.FunctionDef) and st.name not in seen:
                            seen.add(st.name)
                            if "abstractmethod" in _decorators(st):
                                abstract.append(st.name)
                cls.__dict__["_c_abstract"] = abstract
            if abstract and any("ABC" in e for e in cls.ext_bases()):
                raise PyRaise("TypeError", None, ExcV("TypeError", (f"Can't instantiate abstract class {cls.name} with abstract methods {', '.join(sorted(abstract))}",)))
        o = Obj(cls)
        c, init = cls.find("__init__")
        if init is not None and isinstance(init, ast.FunctionDef):
            self.call_func(FuncV(c.mod, init, self_obj=o, owner=c), args, kw)
            return o
        if cls.is_dataclass():
            fields = cls.dataclass_fields()
            if len(args) > len(fields):
                raise PyRaise("TypeError", None)
            for i, (nm, default, c) in enumerate(fields):
                if i < len(args):
                    o.fields[nm] = args[i]
                elif nm in kw:
                    o.fields[nm] = kw[nm]
                elif default is not None:
                    dv = default
                    if isinstance(dv, ast.Call) and ast.unparse(dv.func).endswith("field"):
                        kws = {k.arg: k.value for k in dv.keywords}
                        if "default_factory" in kws:
                            o.fields[nm] = Interp(c.mod).call(Interp(c.mod).ev(kws["default_factory"], {}), [], {})
                        elif "default" in kws:
                            o.fields[nm] = Interp(c.mod).ev(kws["default"], {})
                        else:
                            raise Unsupported("dataclass field()")
                    else:
                        o.fields[nm] = Interp(c.mod).ev(dv, {})
                else:
                    raise PyRaise("TypeError", None)
            unknown = [k for k in kw if k not in [f[0] for f in fields]]
            if unknown:
                raise PyRaise("TypeError", None, ExcV("TypeError", (f"unexpected keyword argument {unknown[0]!r}",)))
            if cls.dunder("__post_init__")[1] is not None:
                self.call_dunder(o, "__post_init__", [])
            return o
        if any("Exception" in e or "Error" in e for e in cls.ext_bases()) and not kw:
            o.fields["args"] = tuple(args)       # also for no arguments: str(E()) is the empty string
            return o
        if args or kw:
            raise PyRaise("TypeError", None)
        return o

    def call_func(self, f, args, kw):
        node = f.node
        if COVERAGE is not None:
            COVERAGE.add((f.mod.name, getattr(node, "name", "<lambda>"), node.lineno))
        a = node.args
        env = {"__parent__": f.closure, "__fnnode__": node}
        if f.owner is not None and f.self_obj is not None:
            env["__owner__"] = f.owner
            env["__self__"] = f.self_obj
        params = [p.arg for p in a.posonlyargs + a.args]
        vals = list(args)
        if f.self_obj is not None:
            vals = [f.self_obj] + vals
        defaults = [None] * (len(params) - len(a.defaults)) + list(a.defaults)
        if len(vals) > len(params) and a.vararg is None:
            raise PyRaise("TypeError", None)
        kw = dict(kw)
        kw0 = dict(kw)
        for i, p in enumerate(params):
            if i < len(vals):
                if p in kw:
                    raise PyRaise("TypeError", (f.mod.name, node.lineno, f"multiple values for argument {p}"))
                env[p] = vals[i]
            elif p in kw:
                env[p] = kw.pop(p)
            elif defaults[i] is not None and hasattr(f, "defvals"):
                env[p] = f.defvals[i - (len(params) - len(a.defaults))]
            elif defaults[i] is not None:
                # default values are evaluated once, when the function is defined, and shared by all calls (CPython semantics)
                cache = f.mod.world.__dict__.setdefault("_defaults", {})
                ck = (id(node), i)
                if ck not in cache:
                    cache[ck] = Interp(f.mod).ev(defaults[i], {"__parent__": f.closure})
                env[p] = cache[ck]
            else:
                raise PyRaise("TypeError", (f.mod.name, node.lineno, f"missing argument {p}"))
        if a.vararg is not None:
            env[a.vararg.arg] = tuple(vals[len(params):])
        for p, d in zip(a.kwonlyargs, a.kw_defaults):
            if p.arg in kw:
                env[p.arg] = kw.pop(p.arg)
            elif d is not None and hasattr(f, "kwdefvals"):
                env[p.arg] = f.kwdefvals[p.arg]
            elif d is not None:
                cache = f.mod.world.__dict__.setdefault("_defaults", {})
                ck = (id(node), "kw", p.arg)
                if ck not in cache:
                    cache[ck] = Interp(f.mod).ev(d, {"__parent__": f.closure})
                env[p.arg] = cache[ck]
            else:
                raise PyRaise("TypeError", None)
        if a.kwarg is not None:
            env[a.kwarg.arg] = kw
        elif kw:
            raise PyRaise("TypeError", (f.mod.name, node.lineno, f"unexpected keyword {sorted(kw)}"))
        it = Interp(f.mod)
        if isinstance(node, ast.Lambda):
            return it.ev(node.body, env)
        decs = _decorators(node) if node.decorator_list else ()
        if _has_yield(node):
            if "contextmanager" in decs:
                def run_cm(at_yield):
                    env["__yield_cb__"] = at_yield
                    try:
                        it.exec_block(node.body, env)
                    except _Ret:
                        pass
                return CtxMgrV(run_cm)

            def run_gen():
                out = env["__yield__"] = []
                try:
                    it.exec_block(node.body, env)
                except _Ret:
                    pass
                return out
            return GenV(run_gen)
        if decs and ("lru_cache" in decs or "cache" in decs):
            memo = it._memo_table().setdefault(id(node), {})
            try:
                key = (id(f.closure) if f.closure is not None else None, tuple(vals), tuple(sorted(kw0.items())))
                hash(key)
            except TypeError as e:
                raise _host_exc(e)
            if key in memo:
                return memo[key]
            try:
                it.exec_block(node.body, env)
                r = None
            except _Ret as rr:
                r = rr.v
            memo[key] = r
            return r
        try:
            it.exec_block(node.body, env)
        except _Ret as r:
            return r.v
        return None


ABSTRACT = (Obj, Term, Opaque, FuncV, ClassV, EnumMember)


def _as_load(t):
    t2 = ast.parse(ast.unparse(t), mode="eval").body
    ast.copy_location(t2, t)
    for n in ast.walk(t2):
        ast.copy_location(n, t)
    return t2
