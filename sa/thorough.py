"""Thorough tier, part 1: bounded-exhaustive sweeps over enumerated program skeletons (sa/gen.py), in parallel."""
import concurrent.futures
import os
import multiprocessing

# fresh interpreters for the workers: forking the parent (which holds the evaluated repository) makes every worker copy the
# parent's heap page by page as reference counts change
_SPAWN = multiprocessing.get_context("spawn")

from .report import AnalysisError

JOBS = int(os.environ.get("VERIF_JOBS", "14"))


def _cfg_worker(args):
    root, shard, nshards, kmain, ksub = args
    import sys
    sys.setrecursionlimit(20000)
    from .context import Ctx
    from .absint import PyRaise, Unsupported
    from .rules.cfg_rules import tealer_cfg, reference_cfg, by_line
    from . import gen
    ctx = Ctx(root)
    out, n = [], 0
    for k, (name, src) in enumerate(gen.programs(kmain, ksub)):
        if k % nshards != shard:
            continue
        n += 1
        try:
            got, _ = tealer_cfg(ctx, src)
        except PyRaise as e:
            out.append((name, src, "builds", f"RAISES {e.exc} {e.where}", "a graph"))
            continue
        except Unsupported as e:
            out.append((name, src, "ANALYSIS", str(e), ""))
            continue
        ref = reference_cfg(ctx, src)
        problems = got["problems"]
        got, ref = by_line(got), by_line(ref)
        gb, rb = got["blocks"], ref["blocks"]
        if gb != rb:
            out.append((name, src, "blocks and edges", gb, rb))
        elif problems:
            out.append((name, src, "well-formed", problems[:3], []))
        elif got["subs"] != ref["subs"]:
            out.append((name, src, "subroutines", got["subs"], ref["subs"]))
        elif got["retained_lines"] != ref["retained_lines"]:
            out.append((name, src, "retained instructions", got["retained_lines"], ref["retained_lines"]))
    return n, out


def sweep_cfg(ctx, rep, rule="T-CFG(sweep)", kmain=3, ksub=2, subs_only=False):
    rep.rule(rule, f"every control skeleton with <= {kmain} main blocks and <= {ksub} subroutine blocks over the full terminator alphabet "
                   "(fall-through, b, bz, bnz, callsub, retsub, return, err; every jump target): parse_teal equals the reference construction "
                   "(blocks, ordered successors, predecessors, well-formedness, subroutines, callers, return points)")
    nshards = JOBS
    with concurrent.futures.ProcessPoolExecutor(max_workers=JOBS, mp_context=_SPAWN) as ex:
        results = list(ex.map(_cfg_worker, [(str(ctx.root), s, nshards, kmain, ksub) for s in range(nshards)]))
    total = sum(n for n, _ in results)
    bad = [x for _, o in results for x in o]
    for name, src, what, got, want in bad:
        if what == "ANALYSIS":
            raise AnalysisError(f"skeleton {name}: {got}")
    seen = set()
    for name, src, what, got, want in bad[:200]:
        key = what
        if subs_only and what not in ("subroutines", "builds"):
            continue
        if key in seen and len(seen) > 3:
            continue
        seen.add(key)
        rep.violation(rule, f"{what}: {name}", ctx.path("tealer.teal.parse_teal"), {"program": src, "got": got}, want,
                      why="graph construction differs from the control flow of the program on an enumerated skeleton")
    for _ in range(total - len(bad)):
        rep.obligations += 1
        rep.discharged += 1
    rep.rules[rule]["obligations"] += total - len(bad)
    rep.count("skeletons enumerated", total)
    rep.samples.append({"rule": rule, "case": {"skeletons": total, "bounds": {"main blocks": kmain, "subroutine blocks": ksub}}, "verdict": "ok" if not bad else "violations"})
    if total < 1000:
        raise AnalysisError(f"only {total} skeletons enumerated")


# ---------------------------------------------------------------------------------------------- fixpoint vs reference semantics

def fix_env(ctx):
    """what the per-program comparison needs from the analysed repository"""
    import ast as _ast
    from .absint import FuncV
    from .rules.cfg_rules import PT, PF
    from .rules.cmptables import _find_analyses, _addr_consts
    w = ctx.world
    w.module(PF).values["_apply_transaction_context_analysis"] = ("builtin", "noop")
    an = _find_analyses(ctx)
    ANY, NO = _addr_consts(ctx, an["addr_fields"])
    DU = "tealer.detectors.utils"
    return {"pt": w.func(PT, "parse_teal"), "cf": w.func(PF, "construct_function"), "an": an, "ANY": ANY,
            "detect": w.func(DU, "detect_missing_tx_field_validations"),
            "pred": FuncV(w.module(DU), _ast.parse("lambda block_ctx: not block_ctx.rekeyto.any_addr", mode="eval").body, closure=None)}


def fix_compare(ctx, env, name, src):
    """the complete context analysis of one program of the direct-check fragment against the reference semantics: list of
    (name, src, what, got, want) disagreements"""
    from .absint import Interp
    from .rules.cfg_rules import reference_cfg
    from . import refsem
    w = ctx.world
    pt, cf, an, ANY, detect, pred = env["pt"], env["cf"], env["an"], env["ANY"], env["detect"], env["pred"]
    out = []
    ref = reference_cfg(ctx, src)
    teal = w.call(pt, src, "c")
    fn = w.call(cf, teal, ["B0"])
    fblocks = {w.getattr(b, "idx"): b for b in w.getattr(fn, "blocks")}
    multi = set()
    for sname, sinfo in ref["subs"].items():
        if sname != "__main__" and len(sinfo["callers"]) > 1:
            multi |= set(sinfo["blocks"])
    results = {}
    for modname, keys in (("int_fields", None), ("addr_fields", ["RekeyTo"]), ("fee_field", ["Fee"])):
        me = w.new(an[modname], fn)
        if keys is not None:
            me.fields["BASE_KEYS"] = list(keys)
        me.fields["KEYS_WITH_GTXN"] = []
        me.fields["_store_results"] = ("builtin", "noop")
        w.call(w.method(me, "run_analysis"))
        results[modname] = w.getattr(me, "_block_contexts")
    for field, modname, key in (("size", "int_fields", "GroupSize"), ("index", "int_fields", "GroupIndex"), ("rekey", "addr_fields", "RekeyTo"), ("fee", "fee_field", "Fee")):
        adm, paths = refsem.admitted(ref, field)
        for b, want in adm.items():
            if b not in fblocks:
                if want:
                    out.append((name, src, f"{key}: block B{b} missing from the function", None, sorted(map(str, want))))
                continue
            got = results[modname][key][fblocks[b]]
            if field in ("size", "index"):
                g = set(got)
                if not (g >= want):
                    out.append((name, src, f"{key} sound at B{b}", sorted(g), sorted(want)))
                elif g != want and b not in multi:
                    out.append((name, src, f"{key} exact at B{b}", sorted(g), sorted(want)))
            elif field == "rekey":
                any_addr = ANY in got
                if "other" in want and not any_addr:
                    out.append((name, src, f"RekeyTo sound at B{b}", sorted(map(str, got)), "any address (an accepting path admits an arbitrary address)"))
                elif "other" not in want and any_addr and b not in multi:
                    out.append((name, src, f"RekeyTo exact at B{b}", sorted(map(str, got)), "not 'any address' (every accepting path through the block excludes it)"))
            else:
                unknown, value = w.getattr(got, "is_unknown"), w.getattr(got, "value")
                mx = max(want) if want else None
                if mx is not None and not unknown and value < mx:
                    out.append((name, src, f"Fee sound at B{b}", value, f">= {mx}"))
                elif mx is not None and not unknown and b not in multi and value != mx:
                    out.append((name, src, f"Fee exact at B{b}", value, mx))
                elif mx is None and not unknown and value != 0 and b not in multi:
                    out.append((name, src, f"Fee empty at B{b}", value, 0))
        if field == "rekey":
            # verdict of the path search with the rekey-to predicate
            for b, blk in fblocks.items():
                c = w.call(w.method(fn, "transaction_context"), blk)
                Interp(c.cls.mod).assign_attr(w.getattr(c, "rekeyto"), "any_addr", ANY in results["addr_fields"]["RekeyTo"][blk])
            reported = w.call(detect, fn, pred)
            dangerous = any("other" in ok for _, ok in paths)
            if dangerous and not reported:
                out.append((name, src, "rekey-to verdict: missed", "no path reported", "at least one path (an accepting execution admits an arbitrary RekeyTo)"))
            if not dangerous and reported and not multi:
                out.append((name, src, "rekey-to verdict: spurious", [[w.getattr(x, "idx") for x in p] for p in reported][:3], "no path (every accepting path excludes it)"))
    return out


def _fix_worker(args):
    root, shard, nshards, cfg = args
    import sys
    sys.setrecursionlimit(20000)
    from .context import Ctx
    from .absint import PyRaise, Unsupported
    from . import gen
    ctx = Ctx(root)
    env = fix_env(ctx)
    out, n = [], 0
    for k, (name, src) in enumerate(gen.checked_programs(**cfg)):
        if k % nshards != shard:
            continue
        n += 1
        try:
            out += fix_compare(ctx, env, name, src)
        except PyRaise as e:
            out.append((name, src, "runs", f"RAISES {e.exc} {e.where}", "completes"))
        except Unsupported as e:
            out.append((name, src, "ANALYSIS", str(e), ""))
        except RuntimeError as e:
            out.append((name, src, "ANALYSIS", str(e), ""))
    return n, out


def sweep_fixpoint(ctx, rep, rule="T-FIXPOINT", cfg=None, only=None):
    cfg = cfg or {"kmain": 3, "ksub": 2, "check_names": ("none", "size==2", "index>=1", "rekey==zero", "fee<=1000"), "cond_names": ("free", "size==2", "rekey==zero"), "stride": 97, "offset": 0}
    rep.rule(rule, "the complete context analysis (block/edge constraints, forward and backward worklist passes) evaluated abstractly on enumerated "
                   "programs of the direct-check fragment, per governed field, against an independent reference semantics (accepting paths of the "
                   "reference CFG with call/return matching): per block the computed set contains every admitted value (sound) and nothing else "
                   "(exact; blocks of subroutines with several call sites: sound only); the rekey-to verdict is 'some path' iff some accepting "
                   "path admits an arbitrary address")
    nshards = JOBS
    with concurrent.futures.ProcessPoolExecutor(max_workers=JOBS, mp_context=_SPAWN) as ex:
        results = list(ex.map(_fix_worker, [(str(ctx.root), s, nshards, cfg) for s in range(nshards)]))
    total = sum(n for n, _ in results)
    bad = [x for _, o in results for x in o]
    for name, src, what, got, want in bad:
        if what == "ANALYSIS":
            raise AnalysisError(f"program {name}: {got}")
    seen = {}
    for name, src, what, got, want in bad:
        kind = what.split(" at ")[0]
        if only and not any(kind.startswith(o) for o in only):
            continue
        seen.setdefault(kind, 0)
        seen[kind] += 1
        if seen[kind] <= 3:
            rep.violation(rule, f"{what}: {name}", ctx.path("tealer.analyses.dataflow.transaction_context.generic"), {"program": src, "got": got}, want,
                          why="the computed per-block information differs from the reference semantics of the program")
    good = total - len({n for n, *_ in bad})
    rep.obligations += good
    rep.discharged += good
    rep.rules[rule]["obligations"] += good
    rep.count("programs evaluated against the reference semantics", total)
    rep.counts["fixpoint disagreements by kind"] = seen
    rep.samples.append({"rule": rule, "case": {"programs": total, "generator": {k: (list(v) if isinstance(v, tuple) else v) for k, v in cfg.items()}}, "verdict": "ok" if not bad else "disagreements"})
    if total < 50:
        raise AnalysisError(f"only {total} programs evaluated")


# ---------------------------------------------------------------------------------------------- whole-tool evaluation (C17)

def _full_worker(args):
    root, name, src = args
    import sys
    sys.setrecursionlimit(30000)
    from .context import Ctx
    from .absint import PyRaise, Unsupported, Obj
    from .rules import output_rules as O
    ctx = Ctx(root)
    w = ctx.world
    w.max_steps = 60_000_000
    w.files, w.stdout = {}, []
    out = []
    try:
        tl = O.build_tealer(ctx, src, stub=False)
        teal = list(w.getattr(tl, "contracts").values())[0]
        for pname, pc in sorted(O.printer_classes(ctx).items()):
            try:
                w.call(w.method(w.new(pc, teal), "print"))
            except PyRaise as e:
                out.append((name, f"print {pname}", f"RAISES {e.exc} at {e.where}"))
        for dname, dc in sorted(O.detector_classes(ctx).items()):
            w.call(w.method(tl, "register_detector"), dc)
        try:
            results = w.call(w.method(tl, "run_detectors"))
            handle = w.func(O.MAIN, "handle_output")
            for mode in (None, "-"):
                a = Obj(w.cls("tealer.exceptions", "TealerException"))
                a.fields["json"] = mode
                w.call(handle, a, results, teal, None)
        except PyRaise as e:
            out.append((name, "detect", f"RAISES {e.exc} at {e.where}"))
    except PyRaise as e:
        out.append((name, "load and analyse", f"RAISES {e.exc} at {e.where}"))
    except Unsupported as e:
        out.append((name, "ANALYSIS", str(e)))
    return name, out


def full_tool(ctx, rep, rule="T-COMPLETE(full)"):
    from .rules.output_rules import programs
    rep.rule(rule, "the whole tool - parsing, function construction, all four context analyses with every gtxn key, every detector, text and "
                   "JSON output, every printer - evaluated abstractly (nothing abstracted away) on the program shape classes: completes "
                   "without an exception of the analysed code")
    items = list(programs().items())
    with concurrent.futures.ProcessPoolExecutor(max_workers=JOBS, mp_context=_SPAWN) as ex:
        results = list(ex.map(_full_worker, [(str(ctx.root), n, s) for n, s in items]))
    for name, out in results:
        for _, what, obs in out:
            if what == "ANALYSIS":
                raise AnalysisError(f"{name}: {obs}")
        if out:
            for _, what, obs in out:
                rep.violation(rule, f"{what}: {name}", ctx.path("tealer.__main__"), obs, "completes", why="internal error on a valid program")
        else:
            rep.ok(rule, {"program": name})


SWEEPS = {
    "fix-a": {"kmain": 3, "ksub": 2, "check_names": ("none", "size==2", "index>=1", "rekey==zero", "fee<=1000"), "cond_names": ("free", "size==2", "rekey==zero"), "stride": 120011, "offset": 7},
    "fix-b": {"kmain": 2, "ksub": 3, "check_names": ("none", "size==2", "rekey==zero", "fee<=1000"), "cond_names": ("free", "rekey==zero"), "stride": 14011, "offset": 5},
}
ONLY = {"C06": ("GroupSize", "GroupIndex", "runs"), "C08": ("RekeyTo", "runs"), "C09": ("Fee", "runs"),
        "C01": ("rekey-to verdict: missed", "RekeyTo sound", "GroupSize sound", "GroupIndex sound", "Fee sound", "runs"),
        "C03": ("rekey-to verdict: spurious", "RekeyTo exact", "GroupSize exact", "GroupIndex exact", "Fee exact", "Fee empty", "runs")}


def run(pid, ctx, rep):
    if pid in ("C04", "C02"):
        sweep_cfg(ctx, rep)
        if pid == "C02":
            sweep_search(ctx, rep)
    elif pid == "C05":
        sweep_cfg(ctx, rep, rule="T-CFG(sweep, subroutines)")
    elif pid in ONLY:
        for name, cfg in SWEEPS.items():
            sweep_fixpoint(ctx, rep, rule=f"T-FIXPOINT({name})", cfg=cfg, only=ONLY[pid])
    elif pid == "C17":
        full_tool(ctx, rep)
    elif pid == "C12":
        sweep_cfg(ctx, rep, kmain=3, ksub=1)
    elif pid == "C10":
        sweep_gtxn(ctx, rep)
    elif pid == "C20":
        sweep_regex(ctx, rep)
    elif pid == "C15":
        sweep_meta(ctx, rep)
    elif pid == "C14":
        from .rules.output_rules import rule_history_runs
        rule_history_runs(ctx, rep)


# ---------------------------------------------------------------------------------------------- gtxn keys through the fixpoint (C10)

def gtxn_env(ctx):
    from .rules.cfg_rules import PT, PF
    from .rules.cmptables import _find_analyses, _addr_consts, TC
    w = ctx.world
    w.module(PF).values["_apply_transaction_context_analysis"] = ("builtin", "noop")
    an = _find_analyses(ctx)
    ANY, NO = _addr_consts(ctx, an["addr_fields"])
    KH = TC + ".utils.key_helpers"
    return {"pt": w.func(PT, "parse_teal"), "cf": w.func(PF, "construct_function"), "an": an, "ANY": ANY,
            "abs_key": w.func(KH, "get_absolute_index_key"), "rel_key": w.func(KH, "get_relative_index_key"), "at_key": w.func(KH, "get_gtxn_at_index_key")}


def gtxn_compare(ctx, env, name, src):
    """the address analysis with all its gtxn keys on one program against the reference semantics: (name, src, what, got, want) disagreements"""
    from .rules.cfg_rules import reference_cfg
    from . import refsem
    w = ctx.world
    pt, cf, an, ANY = env["pt"], env["cf"], env["an"], env["ANY"]
    abs_key, rel_key, at_key = env["abs_key"], env["rel_key"], env["at_key"]
    out = []
    ref = reference_cfg(ctx, src)
    teal = w.call(pt, src, "c")
    fn = w.call(cf, teal, ["B0"])
    fblocks = {w.getattr(b, "idx"): b for b in w.getattr(fn, "blocks")}
    # group indices first (the address analysis reads them), then the address analysis with the gtxn keys of RekeyTo
    gi = w.new(an["int_fields"], fn)
    w.call(w.method(gi, "run_analysis"))
    me = w.new(an["addr_fields"], fn)
    me.fields["BASE_KEYS"] = ["RekeyTo"]
    me.fields["KEYS_WITH_GTXN"] = ["RekeyTo"]
    me.fields["_store_results"] = ("builtin", "noop")
    w.call(w.method(me, "run_analysis"))
    bc = w.getattr(me, "_block_contexts")
    for fld, key in (("abs1.rekey", w.call(abs_key, 1, "RekeyTo")), ("abs2.rekey", w.call(abs_key, 2, "RekeyTo")),
                     ("rel+1.rekey", w.call(rel_key, 1, "RekeyTo")), ("rel-1.rekey", w.call(rel_key, -1, "RekeyTo")), ("rekey", "RekeyTo")):
        adm, paths = refsem.admitted(ref, fld)
        for b, want in adm.items():
            if b not in fblocks:
                continue
            got = bc[key][fblocks[b]]
            if "other" in want and ANY not in got:
                out.append((name, src, f"{key} sound at B{b}", sorted(map(str, got)), "any address"))
    # at-index key: this transaction when it sits at index 1 - admitted iff the own field and index 1 are admitted on a common path
    adm_own, paths_own = refsem.admitted(ref, "rekey")
    adm_idx, paths_idx = refsem.admitted(ref, "index")
    own_paths = {p for p, ok in paths_own if "other" in ok}
    idx_paths = {p for p, ok in paths_idx if 1 in ok}
    adm_g1, paths_g1 = refsem.admitted(ref, "abs1.rekey")
    g1_paths = {p for p, ok in paths_g1 if "other" in ok}
    both = own_paths & idx_paths & g1_paths
    key = w.call(at_key, 1, "RekeyTo")
    for b in fblocks:
        if any(b in p for p in both) and ANY not in bc[key][fblocks[b]]:
            out.append((name, src, f"{key} sound at B{b}", sorted(map(str, bc[key][fblocks[b]])), "any address (the transaction can sit at index 1 with an arbitrary RekeyTo)"))
    return out


def _gtxn_worker(args):
    root, shard, nshards, cfg = args
    import sys
    sys.setrecursionlimit(20000)
    from .context import Ctx
    from .absint import PyRaise, Unsupported
    from . import gen
    ctx = Ctx(root)
    env = gtxn_env(ctx)
    out, n = [], 0
    for k, (name, src) in enumerate(gen.checked_programs(**cfg)):
        if k % nshards != shard:
            continue
        n += 1
        try:
            out += gtxn_compare(ctx, env, name, src)
        except PyRaise as e:
            out.append((name, src, "runs", f"RAISES {e.exc} {e.where}", "completes"))
        except (Unsupported, RuntimeError) as e:
            out.append((name, src, "ANALYSIS", str(e), ""))
    return n, out


GTXN_SWEEP = {"kmain": 3, "ksub": 2, "check_names": ("none", "gtxn1.rekey==zero", "rel+1.rekey==zero", "rel-1.rekey==zero", "rekey==zero", "index==1", "gtxns(1).rekey==zero"),
              "cond_names": ("free", "gtxn1.rekey==zero", "index==1"), "stride": 2500009, "offset": 11}


def sweep_gtxn(ctx, rep, rule="T-FIXPOINT(gtxn)", cfg=None, minimum=50):
    cfg = cfg or GTXN_SWEEP
    rep.rule(rule, "the address analysis with all its gtxn keys (absolute, relative, at-index) evaluated abstractly on enumerated programs that "
                   "check other group members through gtxn i / int i; gtxns / GroupIndex+-1; gtxns, against the reference semantics: the "
                   "information recorded for Gtxn[i], Gtxn[GroupIndex+k] and 'this transaction at index i' admits an arbitrary address "
                   "whenever some accepting path through the block does")
    nshards = JOBS
    with concurrent.futures.ProcessPoolExecutor(max_workers=JOBS, mp_context=_SPAWN) as ex:
        results = list(ex.map(_gtxn_worker, [(str(ctx.root), s, nshards, cfg) for s in range(nshards)]))
    total = sum(n for n, _ in results)
    bad = [x for _, o in results for x in o]
    for name, src, what, got, want in bad:
        if what == "ANALYSIS":
            raise AnalysisError(f"program {name}: {got}")
    seen = {}
    for name, src, what, got, want in bad:
        kind = what.split(" at ")[0]
        seen[kind] = seen.get(kind, 0) + 1
        if seen[kind] <= 3:
            rep.violation(rule, f"{what}: {name}", ctx.path("tealer.analyses.dataflow.transaction_context.generic"), {"program": src, "got": got}, want,
                          why="information about another group member excludes a value that an accepted group carries")
    good = total - len({n for n, *_ in bad})
    rep.obligations += good
    rep.discharged += good
    rep.rules[rule]["obligations"] += good
    rep.count("programs with gtxn checks evaluated", total)
    rep.samples.append({"rule": rule, "case": {"programs": total}, "verdict": "ok" if not bad else "disagreements"})
    if total < minimum:
        raise AnalysisError(f"only {total} programs evaluated")


# ---------------------------------------------------------------------------------------------- regex sweep (C20)

def _regex_worker(args):
    root, shard, nshards, kmain, ksub = args
    import sys
    sys.setrecursionlimit(20000)
    from .context import Ctx
    from .absint import PyRaise, Unsupported
    from .rules.cfg_rules import PT
    from .rules import regex_rules as R
    from . import gen
    ctx = Ctx(root)
    w = ctx.world
    pt = w.func(PT, "parse_teal")
    parse_rx, match = w.func(R.RX, "parse_regex"), w.func(R.RX, "match_regex")
    pats = {"int 9 / pop": "int 9\npop", "int 1 / return": "int 1\nreturn", "retsub": "retsub", "pop / m1:": "pop\nm1:"}
    rxs = {(lbl, pn): w.call(parse_rx, f"{lbl} =>\n{p}\n") for lbl in ("*", "m1", "f") for pn, p in pats.items()}
    out, n = [], 0
    for k, (name, src) in enumerate(gen.programs(kmain, ksub)):
        if k % nshards != shard:
            continue
        try:
            teal = w.call(pt, src, "c")
            for (lbl, pn), rx in rxs.items():
                w.stdout = []
                r = w.call(match, teal, rx)
                w.stdout = None
                want_m, want_c = R.reference(ctx, teal, lbl, pats[pn].splitlines())
                n += 1
                if want_m is None:
                    if list(r[0]) or len(r[1]):
                        out.append((name, src, f"{lbl} => {pn}: label absent", "matches reported", "none"))
                    continue
                got_m = sorted([w.getattr(i, "line") for i in m] for m in r[0])
                got_c = sorted(w.getattr(i, "line") for i in r[1])
                if got_m != want_m:
                    out.append((name, src, f"matches {lbl} => {pn}", got_m, want_m))
                elif got_c != want_c:
                    out.append((name, src, f"covered {lbl} => {pn}", got_c, want_c))
        except PyRaise as e:
            out.append((name, src, "runs", f"RAISES {e.exc} {e.where}", "completes"))
        except Unsupported as e:
            out.append((name, src, "ANALYSIS", str(e), ""))
    return n, out


def sweep_regex(ctx, rep, rule="T-REGEX(sweep)", kmain=3, ksub=2):
    rep.rule(rule, f"match_regex on every control skeleton with <= {kmain} main and <= {ksub} subroutine blocks x 4 patterns x 3 labels against "
                   "the two-pass reference: matches and covered sets")
    with concurrent.futures.ProcessPoolExecutor(max_workers=JOBS, mp_context=_SPAWN) as ex:
        results = list(ex.map(_regex_worker, [(str(ctx.root), s, JOBS, kmain, ksub) for s in range(JOBS)]))
    total = sum(n for n, _ in results)
    bad = [x for _, o in results for x in o]
    for name, src, what, got, want in bad:
        if what == "ANALYSIS":
            raise AnalysisError(f"skeleton {name}: {got}")
    seen = {}
    for name, src, what, got, want in bad:
        kind = what.split()[0]
        seen[kind] = seen.get(kind, 0) + 1
        if seen[kind] <= 3:
            rep.violation(rule, f"{what}: {name}", ctx.path("tealer.utils.regex.regex"), {"program": src, "got": got}, want,
                          why="regex result differs from the reachable straight-line occurrences / the instructions leading to them")
    good = total - len(bad)
    rep.obligations += good
    rep.discharged += good
    rep.rules[rule]["obligations"] += good
    rep.count("regex evaluations on skeletons", total)
    rep.samples.append({"rule": rule, "case": {"evaluations": total}, "verdict": "ok" if not bad else "disagreements"})
    if total < 1000:
        raise AnalysisError(f"only {total} regex evaluations")


# ---------------------------------------------------------------------------------------------- metamorphic sweep (C15)

META_VARIANTS = ("layout", "hex", "octal", "pushint", "intc", "padding", "all")


def _meta_summary(ctx, w, pt, cf, an, ANY, detect, pred, src):
    """per-block contexts of the governed fields and the rekey-to verdict of one program, keyed by block index"""
    from .absint import Interp
    teal = w.call(pt, src, "c")
    fn = w.call(cf, teal, ["B0"])
    fblocks = {w.getattr(b, "idx"): b for b in w.getattr(fn, "blocks")}
    out = {}
    results = {}
    for modname, keys in (("int_fields", None), ("addr_fields", ["RekeyTo"]), ("fee_field", ["Fee"])):
        me = w.new(an[modname], fn)
        if keys is not None:
            me.fields["BASE_KEYS"] = list(keys)
        me.fields["KEYS_WITH_GTXN"] = []
        me.fields["_store_results"] = ("builtin", "noop")
        w.call(w.method(me, "run_analysis"))
        results[modname] = w.getattr(me, "_block_contexts")
    for i, b in sorted(fblocks.items()):
        fee = results["fee_field"]["Fee"][b]
        out[f"B{i}"] = {"GroupSize": sorted(results["int_fields"]["GroupSize"][b]), "GroupIndex": sorted(results["int_fields"]["GroupIndex"][b]),
                        "RekeyTo": sorted(map(str, results["addr_fields"]["RekeyTo"][b])), "Fee": [w.getattr(fee, "is_unknown"), w.getattr(fee, "value")]}
        c = w.call(w.method(fn, "transaction_context"), b)
        Interp(c.cls.mod).assign_attr(w.getattr(c, "rekeyto"), "any_addr", ANY in results["addr_fields"]["RekeyTo"][b])
    reported = w.call(detect, fn, pred)
    out["rekey-to paths"] = [[w.getattr(x, "idx") for x in p] for p in reported]
    return out


def _meta_worker(args):
    root, shard, nshards, cfg = args
    import sys
    sys.setrecursionlimit(20000)
    import ast as _ast
    from .context import Ctx
    from .absint import PyRaise, Unsupported, FuncV
    from .rules.cfg_rules import PT, PF
    from .rules.cmptables import _find_analyses, _addr_consts
    from . import gen
    ctx = Ctx(root)
    w = ctx.world
    w.module(PF).values["_apply_transaction_context_analysis"] = ("builtin", "noop")
    pt, cf = w.func(PT, "parse_teal"), w.func(PF, "construct_function")
    an = _find_analyses(ctx)
    ANY, NO = _addr_consts(ctx, an["addr_fields"])
    DU = "tealer.detectors.utils"
    detect = w.func(DU, "detect_missing_tx_field_validations")
    pred = FuncV(w.module(DU), _ast.parse("lambda block_ctx: not block_ctx.rekeyto.any_addr", mode="eval").body, closure=None)
    out, n = [], 0
    for k, (name, src) in enumerate(gen.checked_programs(**cfg)):
        if k % nshards != shard:
            continue
        n += 1
        try:
            base = _meta_summary(ctx, w, pt, cf, an, ANY, detect, pred, src)
        except PyRaise as e:
            out.append((name, src, "original", "runs", f"RAISES {e.exc} {e.where}", "completes"))
            continue
        except (Unsupported, RuntimeError) as e:
            out.append((name, src, "original", "ANALYSIS", str(e), ""))
            continue
        for v in META_VARIANTS:
            src2 = gen.rewrite(src, v)
            try:
                got = _meta_summary(ctx, w, pt, cf, an, ANY, detect, pred, src2)
            except PyRaise as e:
                out.append((name, src2, v, "runs", f"RAISES {e.exc} {e.where}", "completes"))
                continue
            except (Unsupported, RuntimeError) as e:
                out.append((name, src2, v, "ANALYSIS", str(e), ""))
                continue
            if got != base:
                diff = {kk: (got.get(kk), base.get(kk)) for kk in sorted(set(got) | set(base)) if got.get(kk) != base.get(kk)}
                first = sorted(diff)[0]
                out.append((name, src2, v, f"{first}", diff[first][0], diff[first][1]))
    return n, out


META_SWEEP = {"kmain": 3, "ksub": 2, "check_names": ("none", "size==2", "index>=1", "rekey==zero", "fee<=1000", "size<3"), "cond_names": ("free", "size==2", "rekey==zero", "index==0"),
              "stride": 1400033, "offset": 17}


def sweep_meta(ctx, rep, rule="T-META(sweep)", cfg=None, minimum=50):
    cfg = cfg or META_SWEEP
    rep.rule(rule, "metamorphic relation of C15 at bounded scale: enumerated programs of the direct-check fragment are rewritten without changing "
                   "their meaning (labels renamed, comments / blank lines / indentation, integers in hex or octal, int -> pushint, int -> "
                   "entry-block intcblock + intc_k, stack-neutral padding at statement boundaries, all of them together); the per-block "
                   "GroupSize / GroupIndex / RekeyTo / Fee contexts and the rekey-to paths of the rewritten program, block by block, equal "
                   "those of the original (abstract evaluation of parse_teal, construct_function and the three analyses)")
    nshards = JOBS
    with concurrent.futures.ProcessPoolExecutor(max_workers=JOBS, mp_context=_SPAWN) as ex:
        results = list(ex.map(_meta_worker, [(str(ctx.root), s, nshards, cfg) for s in range(nshards)]))
    total = sum(n for n, _ in results)
    bad = [x for _, o in results for x in o]
    for name, src, v, what, got, want in bad:
        if what == "ANALYSIS":
            raise AnalysisError(f"program {name} ({v}): {got}")
    seen = {}
    for name, src, v, what, got, want in bad:
        seen[v] = seen.get(v, 0) + 1
        if seen[v] <= 2:
            rep.violation(rule, f"{v}: {what}: {name}", ctx.path("tealer.teal.parse_teal"), {"rewritten program": src, "got": got}, want,
                          why="a meaning-preserving rewriting of the source changes a block context or the reported paths")
    good = total * len(META_VARIANTS) - len(bad)
    rep.obligations += good
    rep.discharged += good
    rep.rules[rule]["obligations"] += good
    rep.count("programs rewritten and compared", total)
    rep.counts["rewritings per program"] = len(META_VARIANTS)
    rep.samples.append({"rule": rule, "case": {"programs": total, "variants": list(META_VARIANTS)}, "verdict": "ok" if not bad else "disagreements"})
    if total < minimum:
        raise AnalysisError(f"only {total} programs evaluated")


# ---------------------------------------------------------------------------------------------- path search sweep (C01, C02)

def reference_search(ref, validated):
    """the paths C02 describes, computed on the reference graph: from the entry along the global successor relation (callsub -> callee
    entry, retsub -> the block after its own callsub), cut at a validated block, at a block already executed in the same subroutine
    activation and at a call of a subroutine that is already active; a path is reported when it reaches a block with no successor that is
    neither a callsub nor a retsub"""
    blocks = ref["blocks"]
    callee_of, sub_of = {}, {}
    for name, s in ref["subs"].items():
        for b in s["blocks"]:
            sub_of[b] = name
        if name != "__main__":
            for c in s["callers"]:
                callee_of[c] = name
    out = []
    budget = [400000]

    def kind(b):
        return blocks[b]["text"][-1].split()[0]

    def rec(b, path, stack, executed):
        budget[0] -= 1
        if budget[0] < 0:
            raise RuntimeError("reference search budget exhausted")
        if b in executed[-1] or b in validated:
            return
        path = path + [b]
        k = kind(b)
        nxt = blocks[b]["next"]
        if not nxt and k not in ("retsub", "callsub"):
            out.append(tuple(path))
            return
        executed = executed[:-1] + [executed[-1] | {b}]
        if k == "callsub":
            callee = callee_of.get(b)
            if callee is None or callee in [f[1] for f in stack]:
                return
            rec(ref["subs"][callee]["entry"], path, stack + [(b, callee)], executed + [frozenset()])
        elif k == "retsub":
            cs = stack[-1][0]
            if cs is None:
                return
            rp = blocks[cs]["next"][0] if blocks[cs]["next"] else None
            if rp is not None:
                rec(rp, path, stack[:-1], executed[:-1])
        else:
            for n2 in nxt:
                rec(n2, path, stack, executed)
    rec(0, [], [(None, "__main__")], [frozenset()])
    return sorted(out)


SEARCH_PATTERNS = {"nothing validated": lambda i: False, "odd blocks validated": lambda i: i % 2 == 1, "every third block validated": lambda i: i % 3 == 2,
                   "entry validated": lambda i: i == 0}


def _search_worker(args):
    root, shard, nshards, kmain, ksub = args
    import sys
    sys.setrecursionlimit(20000)
    from .context import Ctx
    from .absint import PyRaise, Unsupported, Interp
    from .rules.cfg_rules import reference_cfg, PT, PF
    from .rules.detectors import _marker_pred, DU
    from . import gen
    ctx = Ctx(root)
    w = ctx.world
    w.module(PF).values["_apply_transaction_context_analysis"] = ("builtin", "noop")
    pt, cf = w.func(PT, "parse_teal"), w.func(PF, "construct_function")
    detect = w.func(DU, "detect_missing_tx_field_validations")
    pred = _marker_pred(ctx)
    out, n = [], 0
    import itertools as _it
    for k, (name, src) in enumerate(_it.chain(gen.programs(kmain, ksub), gen.loop_call_programs())):
        if k % nshards != shard:
            continue
        n += 1
        try:
            ref = reference_cfg(ctx, src)
            teal = w.call(pt, src, "c")
            fn = w.call(cf, teal, ["B0"])
            fblocks = {w.getattr(b, "idx"): b for b in w.getattr(fn, "blocks")}
            main_retsubs = {b for b in ref["subs"]["__main__"]["blocks"] if ref["blocks"][b]["text"][-1].split()[0] == "retsub"}
            for pname, patt in SEARCH_PATTERNS.items():
                # a retsub outside a subroutine always carries the empty context after the real analysis (nothing is accepted through it)
                validated = {i for i in fblocks if patt(i)} | main_retsubs
                for i, b in fblocks.items():
                    c = w.call(w.method(fn, "transaction_context"), b)
                    Interp(c.cls.mod).assign_attr(c, "max_fee_unknown", i in validated)
                got = sorted(tuple(w.getattr(x, "idx") for x in p) for p in w.call(detect, fn, pred))
                want = reference_search(ref, {i for i in validated if i in ref["blocks"]})
                if got != want:
                    out.append((name, src, pname, got[:6], want[:6]))
                    break
        except PyRaise as e:
            out.append((name, src, "runs", f"RAISES {e.exc} {e.where}", "completes"))
        except (Unsupported, RuntimeError) as e:
            out.append((name, src, "ANALYSIS", str(e), ""))
    return n, out


def sweep_search(ctx, rep, rule="T-SEARCH(sweep)", kmain=3, ksub=2):
    rep.rule(rule, "bounded-exhaustive: on every control skeleton (<= 3 main blocks, <= 2 subroutine blocks, full terminator alphabet incl. retsub in "
                   "the main program; plus the 3640 skeletons with 3+3 blocks in which the main program loops back over a call and the callee can both "
                   "return and end the program) and four validation patterns, the paths reported by detect_missing_tx_field_validations are exactly the paths "
                   "C02 describes, computed independently on the reference graph (start at the entry, global successor relation with call/return "
                   "matching, cut at validated blocks, per-activation loop cut, recursion cut, end at a block where execution can terminate); "
                   "compared as multisets, so every path is reported once")
    nshards = JOBS
    with concurrent.futures.ProcessPoolExecutor(max_workers=JOBS, mp_context=_SPAWN) as ex:
        results = list(ex.map(_search_worker, [(str(ctx.root), s, nshards, kmain, ksub) for s in range(nshards)]))
    total = sum(n for n, _ in results)
    bad = [x for _, o in results for x in o]
    for name, src, what, got, want in bad:
        if what == "ANALYSIS":
            raise AnalysisError(f"program {name}: {got}")
    for name, src, what, got, want in bad[:5]:
        rep.violation(rule, f"{what}: {name}", ctx.path("tealer.detectors.utils"), {"program": src, "paths": got}, want,
                      why="the reported paths differ from the paths of the reference search")
    good = total - len(bad)
    rep.obligations += good
    rep.discharged += good
    rep.rules[rule]["obligations"] += good
    rep.count("skeletons searched", total)
    rep.counts["validation patterns per skeleton"] = len(SEARCH_PATTERNS)
    rep.samples.append({"rule": rule, "case": {"programs": total, "patterns": list(SEARCH_PATTERNS)}, "verdict": "ok" if not bad else "disagreements"})
    if total < 1000:
        raise AnalysisError(f"only {total} skeletons searched")
