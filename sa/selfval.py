"""thorough tier: self-validation of the rules on scratch variants (filled in per property)"""


def run(pid, ctx, rep):
    rep.note("self-validation corpus: see /verif/seeded and tools/selftest.py")
