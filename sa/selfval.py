"""Thorough tier, part 2: self-validation of a property's rules on scratch variants of the *current* tree.

* must fire  : every seeded change / fix revert under /verif/seeded that this property's check is recorded to catch
               (seeded/matrix.json) is applied to a scratch copy of /repo/tealer (outside /repo and /verif, deleted
               afterwards) and the check must exit 1 there;
* must stay silent: behaviour-preserving rewrites (locals renamed, helper extracted, isinstance tuples split,
               statements without dependence reordered ...) are applied the same way and the check must exit 0.

A variant whose anchor text is no longer present in the tree is skipped and counted (the tree moved on; it is
not a verdict).  A variant that applies but gives the wrong answer means the *checker* is broken:
ANALYSIS-ERROR, never a VIOLATION.
"""
import concurrent.futures
import json
import os
import pathlib
import shutil
import subprocess
import tempfile

from .report import AnalysisError

VERIF = pathlib.Path(__file__).resolve().parent.parent

# behaviour-preserving rewrites: (file, old text, new text, properties whose checks must stay silent)
SILENT = [
    ("tealer/analyses/dataflow/transaction_context/fee_field.py", "        if isinstance(comparison_ins, Eq):\n            # x == i => i, U\n            return compared_value, FeeValue()",
     "        if type(comparison_ins).__name__ == \"Eq\" or isinstance(comparison_ins, Eq):\n            return compared_value, FeeValue()", ["C09", "C03"]),
    ("tealer/analyses/dataflow/transaction_context/int_fields.py", "        elif isinstance(comparison_ins, Less):\n            return [i for i in U if i < compared_int]",
     "        elif isinstance(comparison_ins, Less):\n            smaller = []\n            for candidate in U:\n                if candidate < compared_int:\n                    smaller.append(candidate)\n            return smaller", ["C06", "C03"]),
    ("tealer/analyses/dataflow/transaction_context/generic.py", "        if isinstance(ins_stack_value.instruction, Not):\n            arg = ins_stack_value.args[0]",
     "        negation = isinstance(ins_stack_value.instruction, Not)\n        if negation:\n            arg = ins_stack_value.args[0]", ["C03", "C01", "C06"]),
    ("tealer/detectors/utils.py", "        if bb in current_subroutine_executed[-1]:", "        executed_in_this_activation = current_subroutine_executed[-1]\n        if bb in executed_in_this_activation:", ["C02"]),
    ("tealer/detectors/rekeyto.py", "            return not block_ctx.rekeyto.any_addr", "            any_address_possible = block_ctx.rekeyto.any_addr\n            return not any_address_possible", ["C01"]),
    ("tealer/teal/parse_teal.py", "        if isinstance(ins, (B, BZ, BNZ)):\n            ins.add_next(labels[ins.label])\n            labels[ins.label].add_prev(ins)",
     "        if isinstance(ins, B) or isinstance(ins, (BZ, BNZ)):\n            target = labels[ins.label]\n            ins.add_next(target)\n            target.add_prev(ins)", ["C04", "C05", "C12"]),
    ("tealer/teal/parse_teal.py", "    for bb in basic_blocks:\n        ins = bb.exit_instr\n        for next_ins in ins.next:", "    for bb in basic_blocks:\n        for next_ins in bb.exit_instr.next:", ["C04", "C02"]),
    ("tealer/analyses/dataflow/transaction_context/utils/group_helpers.py", "            offset = -int_value  # pylint: disable=invalid-unary-operand-type", "            offset = 0 - int_value", ["C10"]),
    ("tealer/analyses/dataflow/transaction_context/addr_fields.py", "        if ANY_ADDRESS in a or ANY_ADDRESS in b:\n            return self._universal_set()",
     "        if ANY_ADDRESS in a:\n            return self._universal_set()\n        if ANY_ADDRESS in b:\n            return self._universal_set()", ["C08"]),
    ("tealer/utils/output.py", "        return \" -> \".join(map(str, [bb.idx for bb in path_bbs]))", "        ids = [str(bb.idx) for bb in path_bbs]\n        return \" -> \".join(ids)", ["C02", "C18"]),
    ("tealer/teal/instructions/instructions.py", "class Dig(Instruction):", "class Dig(Instruction):\n    # reads the n-th value from the top", ["C11", "C16", "C19"]),
    ("tealer/utils/analyses.py", "    if block.is_retsub_block:\n        return function.return_point_blocks(block.subroutine)", "    if block.is_retsub_block:\n        owner = block.subroutine\n        return function.return_point_blocks(owner)", ["C04", "C05", "C01"]),
    ("tealer/execution_context/transactions.py", "            other_txn = txn.relative_indexes[offset]\n            # other_txn.group_index() = txn.group_index() + offset\n            group.group_relative_indexes[other_txn][txn] = offset",
     "            seen = txn.relative_indexes[offset]\n            group.group_relative_indexes[seen][txn] = offset", ["C13"]),
    # dict dispatch instead of an if chain
    ("tealer/analyses/dataflow/transaction_context/fee_field.py", "        if isinstance(comparison_ins, Less):\n            return Greater()\n        if isinstance(comparison_ins, LessE):\n            return GreaterE()\n        if isinstance(comparison_ins, Greater):\n            return Less()\n        if isinstance(comparison_ins, GreaterE):\n            return LessE()\n        return comparison_ins",
     "        mirrored = {Less: Greater, LessE: GreaterE, Greater: Less, GreaterE: LessE}\n        for cls, other in mirrored.items():\n            if isinstance(comparison_ins, cls):\n                return other()\n        return comparison_ins", ["C09", "C03", "C01"]),
    # early return instead of nesting
    ("tealer/detectors/utils.py", "    if absolute_index is not None:\n        if checks_field(function.transaction_context(block).gtxn_context(absolute_index)):\n            return True\n        return False",
     "    if absolute_index is not None:\n        return bool(checks_field(function.transaction_context(block).gtxn_context(absolute_index)))", ["C01", "C13"]),
    # all() instead of a loop
    ("tealer/detectors/utils.py", "    for i in function.transaction_context(block).group_indices:\n        if not checks_field(function.transaction_context(block).gtxn_context(i)):\n            return False\n    return True",
     "    own = function.transaction_context(block)\n    return all(checks_field(own.gtxn_context(i)) for i in own.group_indices)", ["C01", "C13"]),
    # helper extracted
    ("tealer/utils/analyses.py", "    return len(block.next) == 0 and not block.is_retsub_block and not block.is_callsub_block",
     "    has_successor = len(block.next) != 0\n    transfers_control = block.is_retsub_block or block.is_callsub_block\n    return not has_successor and not transfers_control", ["C01", "C02", "C04", "C13"]),
    # comprehension instead of a loop in the parser table consumer
    ("tealer/teal/parse_teal.py", "        if isinstance(ins, (Switch, Match)):\n            for ins_label in ins.labels:\n                ins.add_next(labels[ins_label])\n                labels[ins_label].add_prev(ins)",
     "        if isinstance(ins, (Switch, Match)):\n            for target in [labels[name] for name in ins.labels]:\n                ins.add_next(target)\n                target.add_prev(ins)", ["C04", "C05", "C14"]),
    # property body rewritten
    ("tealer/teal/basic_blocks.py", "        return self.next[0] if self.next else None", "        if len(self.next) == 0:\n            return None\n        return self.next[0]", ["C05", "C02", "C04"]),
    # sets built differently
    ("tealer/analyses/dataflow/transaction_context/addr_fields.py", "            return set([ins.addr])", "            return {ins.addr}", ["C08", "C03"]),
    ("tealer/analyses/dataflow/transaction_context/int_fields.py", "            return set(asserted_values), set(U) - set(asserted_values)\n        return set(U), set(U)\n\n    def _get_asserted_groupindices(",
     "            true_values = set(asserted_values)\n            return true_values, set(U).difference(true_values)\n        return set(U), set(U)\n\n    def _get_asserted_groupindices(", ["C06", "C03"]),
    # f-string vs concatenation in a printed form
    ("tealer/teal/instructions/instructions.py", "        return f\"gtxns {self._field}\"", "        return \"gtxns \" + str(self._field)", ["C16"]),
    # output: edge emission loop restructured
    ("tealer/utils/output.py", "            for src_bb in bb.called_subroutine.retsub_blocks:\n                bb_nodes_dot.append(\n                    graph_edge_str(src_bb, return_point_block, config.remaining_edges_color)\n                )",
     "            bb_nodes_dot.extend(\n                graph_edge_str(src_bb, return_point_block, config.remaining_edges_color)\n                for src_bb in bb.called_subroutine.retsub_blocks\n            )", ["C18", "C17"]),
    # version check written the other way round
    ("tealer/teal/parse_teal.py", "        if program_version < ins.version:", "        if ins.version > program_version:", ["C19"]),
    # worklist as deque-like pops
    ("tealer/analyses/dataflow/transaction_context/generic.py", "        while worklist:\n            b = worklist[0]\n            worklist = worklist[1:]\n            updated = self._merge_information_forward(analysis_keys, b, global_reachout)",
     "        while worklist:\n            b, worklist = worklist[0], worklist[1:]\n            updated = self._merge_information_forward(analysis_keys, b, global_reachout)", ["C03", "C01", "C06"]),
    ("tealer/analyses/dataflow/transaction_context/txn_types.py", "        U = set(self.UNIVERSAL_SETS[self.TRANSACTION_TYPE_KEY])", "        U = set(self._universal_set(self.TRANSACTION_TYPE_KEY))", ["C07", "C14"]),
    ("tealer/teal/instructions/parse_instruction.py", "    if x.startswith(\"0x\"):\n        return int(x[2:], 16)\n    if x.startswith(\"0\"):", "    if x[:2] == \"0x\":\n        return int(x[2:], 16)\n    if x[:1] == \"0\":", ["C15", "C16"]),
    ("tealer/printers/call_graph.py", "            graph[subroutine.name] = set(\n                map(lambda bi: bi.subroutine.name, subroutine.caller_blocks)\n            )", "            graph[subroutine.name] = {bi.subroutine.name for bi in subroutine.caller_blocks}", ["C05", "C18", "C17"]),
    ("tealer/utils/regex/regex.py", "    reaching: Set[Instruction] = set(match[0] for match in matches)\n    worklist: List[Instruction] = list(reaching)\n    while worklist:\n        ins = worklist.pop()\n        for prev_ins in ins.prev:\n            if prev_ins in visited and prev_ins not in covered:\n                covered.add(prev_ins)\n                if prev_ins not in reaching:\n                    reaching.add(prev_ins)\n                    worklist.append(prev_ins)",
     "    reaching: Set[Instruction] = set(match[0] for match in matches)\n    grew = True\n    while grew:\n        grew = False\n        for ins in reachable:\n            if ins in covered:\n                continue\n            if any(n in reaching for n in ins.next):\n                covered.add(ins)\n                reaching.add(ins)\n                grew = True", ["C20"]),
    ("tealer/utils/regex/regex.py", "    stack: List[Instruction] = [start]\n    while stack:\n        ins = stack.pop()\n        if ins in seen:\n            continue\n        seen.add(ins)\n        reachable.append(ins)\n        # reversed: the first next instruction is explored first\n        stack.extend(reversed(ins.next))\n    return reachable",
     "    def visit(ins: Instruction) -> None:\n        if ins in seen:\n            return\n        seen.add(ins)\n        reachable.append(ins)\n        for next_ins in ins.next:\n            visit(next_ins)\n\n    visit(start)\n    return reachable", ["C20"]),
    ("tealer/detectors/rekeyto.py",
     ["        def checks_field(block_ctx: \"BlockTransactionContext\") -> bool:\n            # return False if RekeyTo field can have any address.\n            # return True if RekeyTo should have some address or zero address\n            return not block_ctx.rekeyto.any_addr\n",
      "    def detect(self) -> \"ListOutput\":"],
     ["        checks_field = self._rekey_to_is_restricted\n",
      "    @staticmethod\n    def _rekey_to_is_restricted(block_ctx: \"BlockTransactionContext\") -> bool:\n        return not block_ctx.rekeyto.any_addr\n\n    def detect(self) -> \"ListOutput\":"],
     ["C01", "C14"]),
    ("tealer/teal/parse_functions.py", "    for bb_copy, bb_orig in zip(all_bbs, original_blocks):\n        bb_copy.idx = bb_orig.idx", "    for position, bb_copy in enumerate(all_bbs):\n        bb_copy.idx = original_blocks[position].idx", ["C12"]),
]


# which properties read the code a refactoring area touches
REFACTOR_AREAS = {"R1": ("C04", "C05", "C02", "C12", "C17"), "R2": ("C06", "C07", "C08", "C09", "C10", "C01", "C03"), "R3": ("C01", "C02", "C13", "C14"),
                  "R4": ("C17", "C18"), "R5": ("C16", "C19", "C20", "C11", "C15"), "R6": ("C11", "C10", "C12", "C13")}


def _run_variant(job):
    kind, name, prop, root, spec = job
    tmp = pathlib.Path(tempfile.mkdtemp(prefix="selfval_", dir="/tmp"))
    try:
        shutil.copytree(pathlib.Path(root) / "tealer", tmp / "tealer")
        if kind in ("patch", "refactor"):
            r = subprocess.run(["patch", "-p1", "-s", "-f", "-i", spec], cwd=tmp, capture_output=True, text=True)
            if r.returncode:
                return kind, name, "skipped (patch does not apply to the current tree)", None
        else:
            f, old, new = spec
            p = tmp / f
            s = p.read_text() if p.exists() else ""
            pairs = list(zip(old, new)) if isinstance(old, (list, tuple)) else [(old, new)]
            for o, n_ in pairs:
                if o not in s:
                    return kind, name, "skipped (anchor text not present in the current tree)", None
                s = s.replace(o, n_, 1)
            p.write_text(s)
        r = subprocess.run([str(VERIF / "check"), prop, "--tier", "quick", "--root", str(tmp), "--evidence-dir", str(tmp / "ev"), "--quiet"],
                           capture_output=True, text=True)
        first = [l for l in r.stdout.splitlines() if "KNOWN-FINDING" not in l][:1]
        return kind, name, r.returncode, (first[0][:160].replace(str(tmp) + "/", "") if first else "")
    finally:
        shutil.rmtree(tmp, ignore_errors=True)


def run(pid, ctx, rep):
    if os.environ.get("VERIF_NO_SELFVAL"):
        rep.note("self-validation skipped (VERIF_NO_SELFVAL)")
        return
    jobs = []
    mpath = VERIF / "seeded" / "matrix.json"
    if mpath.exists():
        matrix = json.loads(mpath.read_text())
        for name, info in matrix.items():
            if pid in info.get("caught_by", []):
                sid = name.split("/")[-1]
                patch = VERIF / "seeded" / name if name.endswith(".diff") else VERIF / "seeded" / sid / "patch.diff"
                if patch.exists():
                    jobs.append(("patch", sid, pid, str(ctx.root), str(patch)))
    # behaviour-preserving refactorings written by independent agents (suite passes, outputs compared): must stay silent
    rdir = VERIF / "seeded" / "refactors"
    if rdir.is_dir():
        for d in sorted(rdir.iterdir()):
            area = d.name.split("-")[0]
            if (d / "patch.diff").exists() and pid in REFACTOR_AREAS.get(area, ()):
                jobs.append(("refactor", d.name, pid, str(ctx.root), str(d / "patch.diff")))
    for f, old, new, props_ in SILENT:
        if pid in props_:
            jobs.append(("silent", f"{f.split('/')[-1]}: {(old[0] if isinstance(old, (list, tuple)) else old).strip().splitlines()[0][:50]}", pid, str(ctx.root), (f, old, new)))
    if not jobs:
        rep.note("self-validation: no variants registered for this property")
        return
    with concurrent.futures.ThreadPoolExecutor(max_workers=min(12, len(jobs))) as ex:
        results = list(ex.map(_run_variant, jobs))
    fired = silent = skipped = 0
    broken = []
    for kind, name, rc, first in results:
        if isinstance(rc, str):
            skipped += 1
            rep.note(f"self-validation variant '{name}': {rc}")
            continue
        if kind == "patch":
            if rc == 1:
                fired += 1
                rep.samples.append({"rule": "self-validation", "case": {"variant": name, "expected": "fires", "first report": first}, "verdict": "ok"})
            else:
                broken.append(f"seeded change {name} is no longer detected by {pid} (exit {rc}) {first}")
        else:
            if rc == 0:
                silent += 1
                rep.samples.append({"rule": "self-validation", "case": {"variant": name, "expected": "silent"}, "verdict": "ok"})
            else:
                broken.append(f"behaviour-preserving rewrite '{name}' makes {pid} report (exit {rc}): {first}")
    rep.counts["selfval must-fire variants fired"] = fired
    rep.counts["selfval behaviour-preserving variants silent"] = silent
    rep.counts["selfval variants skipped"] = skipped
    if broken:
        raise AnalysisError("self-validation failed: " + " | ".join(broken))
