"""E1 - declarative tables read out of the source by abstract evaluation (absint).

* instruction table: for every `Instruction` subclass, for every abstract shape of its
  immediates: printed form, pops, pushes (affine forms in the immediates), version, mode,
  cost per declared program version 1..8;
* parser table: the ordered `parser_rules` list and the mnemonics handled before it;
* field tables, enum and constant tables.
"""
import ast

from .absint import World, Obj, Term, ClassV, FuncV, Interp, Unsupported, PyRaise, EnumMember

INS = "tealer.teal.instructions.instructions"
TXF = "tealer.teal.instructions.transaction_field"
GLF = "tealer.teal.global_field"
PARSE = "tealer.teal.instructions.parse_instruction"
FIELD_MODULES = {
    "TransactionField": TXF,
    "GlobalField": GLF,
    "AssetHoldingField": "tealer.teal.instructions.asset_holding_field",
    "AssetParamsField": "tealer.teal.instructions.asset_params_field",
    "AppParamsField": "tealer.teal.instructions.app_params_field",
    "AcctParamsField": "tealer.teal.instructions.acct_params_field",
}


def module_classes(world, dotted):
    mod = world.module(dotted)
    if mod is None:
        raise Unsupported(f"module {dotted} not found")
    out = []
    for name, st in mod.defs.items():
        if isinstance(st, ast.ClassDef):
            out.append(mod.lookup(name))
    return out


def instruction_classes(world):
    base = world.cls(INS, "Instruction")
    return [c for c in module_classes(world, INS) if c.is_sub(base)]


def field_classes(world, family):
    base = world.cls(FIELD_MODULES[family], family)
    return [c for c in module_classes(world, FIELD_MODULES[family]) if c.is_sub(base) and c is not base]


def init_params(cls):
    c, init = cls.find("__init__")
    if init is None or not isinstance(init, ast.FunctionDef):
        return []
    return [(a.arg, ast.unparse(a.annotation) if a.annotation is not None else None) for a in init.args.args[1:]]


def abstract_field(world, family):
    """an abstract field object of the family: prints as <FIELD>"""
    base = world.cls(FIELD_MODULES[family], family)
    o = Obj(base)
    o.fields["__tag__"] = "FIELD"
    return o


class FieldStandIn:
    pass


# named-constant immediates: the values the AVM assembler accepts for them (spec/avm_ops.json "enum")
def arg_variants(world, cls, enums=None):
    """abstract shapes of the constructor arguments, from the annotations.

    int -> a symbolic atom `imm<k>` (k = position); str -> a marker string, or each value of the
    opcode's named-constant domain when `enums` gives one for this class; lists -> lengths 0..3;
    Optional -> None and the value; Union[str,int] -> both; field classes -> an abstract field."""
    variants = [[]]
    for k, (name, ann) in enumerate(init_params(cls)):
        if ann == "int":
            vs = [Term(f"imm{k}")]
        elif ann == "str":
            if enums and cls.name in enums:
                vs = list(enums[cls.name])
            else:
                vs = [f"<imm{k}>"]
        elif ann in ("Union[str, int]", "Union[int, str]"):
            vs = [Term(f"imm{k}"), f"<imm{k}>"]
        elif ann == "Optional[int]":
            vs = [None, Term(f"imm{k}")]
        elif ann == "List[int]":
            vs = [[Term(f"imm{k}_{i}") for i in range(n)] for n in range(0, 4)]
        elif ann == "List[str]":
            vs = [[f"<imm{k}_{i}>" for i in range(n)] for n in range(0, 4)]
        elif ann in FIELD_MODULES:
            vs = [abstract_field(world, ann)]
        else:
            raise Unsupported(f"constructor parameter {cls.name}.{name}: {ann}")
        variants = [v + [x] for v in variants for x in vs]
    return variants


def arg_kinds(args):
    out = []
    for a in args:
        if isinstance(a, Obj):
            out.append("field")
        elif isinstance(a, list):
            out.append(f"list{len(a)}")
        elif isinstance(a, Term):
            out.append("int")
        elif a is None:
            out.append("none")
        elif isinstance(a, str) and a.startswith("<"):
            out.append("str")
        else:
            out.append(f"={a}")
    return out


def describe_args(cls, args):
    out = {}
    for (name, ann), a in zip(init_params(cls), args):
        if isinstance(a, Obj):
            out[name] = "<field>"
        elif isinstance(a, list):
            out[name] = f"list[{len(a)}]"
        else:
            out[name] = repr(a)
    return out


def with_version(world, ins_obj, version):
    """attach an abstract block/contract of the given program version (what `cost` reads)"""
    bbcls = world.cls("tealer.teal.basic_blocks", "BasicBlock")
    tealcls = world.cls("tealer.teal.teal", "Teal")
    teal = Obj(tealcls, _version=version)
    bb = Obj(bbcls, _teal=teal, _instructions=[ins_obj], _idx=0)
    ins_obj.fields["_bb"] = bb
    return ins_obj


def safe(fn):
    try:
        return fn()
    except PyRaise as e:
        return ("RAISES", e.exc)


def instruction_rows(world, versions=range(1, 9), enums=None):
    """one row per (class, abstract argument shape)"""
    rows = []
    for cls in instruction_classes(world):
        for args in arg_variants(world, cls, enums):
            o = world.new(cls, *args)
            it = Interp(cls.mod)
            row = {
                "class": cls.name,
                "line": cls.node.lineno,
                "args": describe_args(cls, args),
                "kinds": arg_kinds(args),
                "raw_args": args,
                "str": safe(lambda: it.to_str(o)),
                "pops": safe(lambda: world.getattr(o, "stack_pop_size")),
                "pushes": safe(lambda: world.getattr(o, "stack_push_size")),
                "version": safe(lambda: world.getattr(o, "version")),
                "mode": safe(lambda: world.getattr(o, "mode")),
                "cost": {},
            }
            for v in versions:
                with_version(world, o, v)
                row["cost"][v] = safe(lambda: world.getattr(o, "cost"))
            rows.append(row)
    return rows


def field_rows(world, family):
    """one row per field class; array fields (one int parameter) are printed with index 7 and with -1 (= no index)"""
    rows = []
    for cls in field_classes(world, family):
        ips = init_params(cls)
        if any(ann != "int" for _, ann in ips):
            raise Unsupported(f"field constructor {cls.name}: {ips}")
        it = Interp(cls.mod)
        o = world.new(cls, *[7 for _ in ips])
        row = {
            "class": cls.name,
            "line": cls.node.lineno,
            "str": safe(lambda: it.to_str(o)),
            "version": safe(lambda: world.getattr(o, "version")),
            "nargs": len(ips),
        }
        if ips:
            o2 = world.new(cls, *[-1 for _ in ips])
            row["str_noidx"] = safe(lambda: it.to_str(o2))
        rows.append(row)
    return rows


def module_constant(world, dotted, name):
    mod = world.module(dotted)
    if mod is None:
        raise Unsupported(f"module {dotted} not found")
    try:
        return mod.lookup(name)
    except KeyError:
        raise Unsupported(f"{dotted}.{name} not found")


def parser_rules(world):
    """the ordered list of (prefix, handler) from parse_instruction.parser_rules"""
    rules = module_constant(world, PARSE, "parser_rules")
    out = []
    for r in rules:
        if not (isinstance(r, tuple) and len(r) == 2 and isinstance(r[0], str)):
            raise Unsupported(f"parser rule shape {r!r}")
        out.append(r)
    return out
