"""property -> rules.  A property appears here only when its check is complete enough to be claimed."""
from .rules import optable, stack_rules, spelling, effects

PROPS = {}


def prop(pid, explanation):
    def deco(fn):
        PROPS[pid] = (explanation, fn)
        return fn
    return deco


def _r(rule_fn, ctx, rep, *args, **kw):
    """run one rule; an unsupported construct or vanished anchor in it is recorded and the remaining rules still run, so that a
    violation found by another rule is reported as such (the run ends as ANALYSIS-ERROR only when no violation was found)"""
    from .absint import Unsupported, PyRaise
    from .report import AnalysisError
    try:
        rule_fn(ctx, rep, *args, **kw)
    except (AnalysisError, Unsupported) as e:
        rep.errors.append(f"{rule_fn.__module__.split('.')[-1]}.{rule_fn.__name__}: {type(e).__name__}: {e}")
    except PyRaise as e:
        # an exception of the analysed code outside any row a rule had prepared for it
        rep.errors.append(f"{rule_fn.__module__.split('.')[-1]}.{rule_fn.__name__}: the analysed code raises {e.exc} at {e.where} while the rule sets up its inputs")
    except RecursionError:
        rep.errors.append(f"{rule_fn.__module__.split('.')[-1]}.{rule_fn.__name__}: recursion limit of the evaluator")


def run(pid, ctx, rep):
    explanation, fn = PROPS[pid]
    fn(ctx, rep)
    return explanation


@prop("C11", "Decides the structural clauses of C11: (T-OP(stack)) for every AVM v1-v8 opcode, the instruction class the parser "
             "constructs for it has stack pops/pushes equal to the AVM stack effect, compared as affine forms in symbolic "
             "immediates (all immediate values at once); tealer-only pseudo instructions are stack-neutral; (STACK) the symbolic "
             "stack discipline of Stack/construct_stack_ast/_flatten_ast on abstract blocks. Not decided: operand positions "
             "after arbitrary instruction sequences (follows by induction from these clauses; not mechanised).")
def c11(ctx, rep):
    _r(optable.rule_opcode_classes, ctx, rep)
    _r(optable.rule_stack_effect, ctx, rep)
    _r(stack_rules.rule_stack_discipline, ctx, rep)
    _r(optable.rule_int_push_table, ctx, rep)
    _r(gtxn_tables.rule_index_classification, ctx, rep)
    rep.assume("spec/avm_ops.json is the AVM stack effect of every v1-v8 opcode (hand-reviewed; version/mode cross-checked with PyTeal)")


@prop("C16", "Decides the structural clauses of C16: (T-PREFIX) every AVM opcode spelling (every opcode x every field of its "
             "family x immediate shapes) is mapped by the parser's first-match prefix table to that opcode's own class, no "
             "parser rule is shadowed; (T-RT) the parsed instruction prints the source spelling and parses back to the same "
             "class and text; (T-FIELD) field tables map each AVM field name to a class printing that name. Decided by abstract "
             "evaluation of parse_line/__str__ syntax trees; not decided: byte-literal decoding over the infinite literal grammar.")
def c16(ctx, rep):
    _r(optable.rule_prefix_table, ctx, rep)
    _r(optable.rule_prefix_and_roundtrip, ctx, rep)
    _r(optable.rule_field_tables, ctx, rep)
    _r(optable.rule_tokens, ctx, rep)
    _r(spelling.rule_int_spellings, ctx, rep)


@prop("C19", "Decides the structural clauses of C19: (T-OP(version,mode)) introduction version and mode of every opcode class and "
             "(T-FIELD(version)) of every field class equal the AVM tables; (T-OP(cost)) cost for every declared version >= "
             "introduction equals the AVM cost table and BasicBlock.cost is the sum; (T-VERSION) _verify_version over every opcode x declared version 1-8 and every field x boundary versions, mixed-mode rows; (T-MODE) mode detection table, declared version, contract type and routing on program shapes. Not decided: run-time size dependent cost parts.")
def c19(ctx, rep):
    _r(optable.rule_opcode_classes, ctx, rep)
    _r(optable.rule_version_mode, ctx, rep)
    _r(optable.rule_field_versions, ctx, rep)
    _r(optable.rule_cost, ctx, rep)
    _r(version_rules.rule_verify_version, ctx, rep)
    _r(version_rules.rule_detect_mode_table, ctx, rep)
    _r(version_rules.rule_mode_and_type, ctx, rep)
    _r(version_rules.rule_config_version, ctx, rep)


from .rules import cmptables  # noqa: E402


@prop("C06", "Decides the structural clauses of C06: (T-CMP(int)) the complete comparison table of the GroupSize/GroupIndex "
             "analysis - 6 operators x both operand orders x c in 0..18, plus non-constant/named/unknown comparands - equals "
             "{v in U | comparison}, complement in U; universes, null set, set algebra; (T-STORE(int)) index<size coupling and "
             "defaults. Extracted by abstract evaluation of _get_asserted_single and its callees (incl. tealer's own stack "
             "reconstruction). Not decided: soundness/exactness of the fixpoint over all programs.")
def c06(ctx, rep):
    _r(cmptables.rule_int_tables, ctx, rep)
    _r(cmptables.rule_set_algebra, ctx, rep, which=("int_fields",))
    _r(cmptables.rule_int_store, ctx, rep)
    generic_core(ctx, rep)


@prop("C09", "Decides the structural clauses of C09: (T-CMP(fee)) the complete fee comparison table - 6 operators x both operand "
             "orders, symbolic c and boundary constants, unknown comparands - equals the implied bound; (T-LATTICE(fee)) the "
             "FeeValue chain with 'unknown' at 272000, constants; (T-STORE(fee)) key family <-> context accessor pairing. "
             "Not decided: the fixpoint over all programs.")
def c09(ctx, rep):
    _r(cmptables.rule_fee_tables, ctx, rep)
    _r(cmptables.rule_fee_lattice, ctx, rep)
    _r(cmptables.rule_fee_store, ctx, rep)
    generic_core(ctx, rep)


@prop("C08", "Decides the structural clauses of C08: (T-LATTICE(addr)) union/intersection with ANY/NO markers denote set "
             "union/intersection (all pairs of abstract elements); (T-CMP(addr)) ==/!= table for the four governed fields x "
             "{ZeroAddress, literal, zero literal, CreatorAddress} x both operand orders, other operators and unrelated values "
             "give (ANY, ANY); (T-STORE(addr)) _set_addr_values and key->attribute pairing over self/at-index/absolute/relative "
             "contexts. Not decided: the fixpoint over all programs.")
def c08(ctx, rep):
    _r(cmptables.rule_addr_lattice, ctx, rep)
    _r(cmptables.rule_addr_tables, ctx, rep)
    _r(cmptables.rule_addr_store, ctx, rep)
    generic_core(ctx, rep)


@prop("C07", "Decides the structural clause of C07: (T-KIND) for every cell of the transaction-kind comparison table - field in "
             "{TypeEnum, OnCompletion, ApplicationID} x {bare, !, == c, != c} x both operand orders x every named and numeric "
             "constant incl. invalid ones x {true, false} - each of Pay/Axfer/ApplUpdateApplication/ApplDeleteApplication whose "
             "field valuation can make the comparison come out that way is retained. Not decided: propagation through the solver.")
def c07(ctx, rep):
    _r(cmptables.rule_kind_tables, ctx, rep)
    _r(cmptables.rule_set_algebra, ctx, rep, which=("txn_types",))
    _r(cmptables._store_family_rule, ctx, rep, "T-STORE(kind)", "txn_types")
    generic_core(ctx, rep)


from .rules import generic_tables  # noqa: E402


def generic_core(ctx, rep):
    """the generic solver's tables: every per-field property (C06-C10) and C01 rest on them"""
    _r(generic_tables.rule_comb, ctx, rep)
    _r(generic_tables.rule_block, ctx, rep)
    _r(generic_tables.rule_edge, ctx, rep)
    _r(generic_tables.rule_eqn, ctx, rep)
    _r(generic_tables.rule_worklist, ctx, rep)
    _r(generic_tables.rule_fixpoint_programs, ctx, rep)
    _r(function_rules.rule_function_construction, ctx, rep)
    _r(optable.rule_int_push_table, ctx, rep)
    _r(stack_rules.rule_stack_discipline, ctx, rep, full=False)
    _r(spelling.rule_constant_block, ctx, rep)
    _r(effects.rule_pure_lattice, ctx, rep)


@prop("C03", "Decides the structural clauses of C03 (exactness of the transfer tables on direct checks): (T-COMB) Boolean "
             "combinators over condition values incl. unknown operands, over the set, fee-chain and address lattices; (T-BLOCK) "
             "assert/return/err block constraints; (T-EDGE) bz/bnz edge constraints incl. target = next instruction and branch as "
             "last instruction; (T-EQN) reach-in/live-in equations with call-site refinement on abstract CFG neighbourhoods; "
             "(T-CMP exactness) the comparison tables of C06/C08/C09 and exactness of the compared label for the kind domain. "
             "Not decided: exactness of the fixpoint for every placement of checks in every control shape.")
def c03(ctx, rep):
    _r(generic_tables.rule_comb, ctx, rep)
    _r(generic_tables.rule_block, ctx, rep)
    _r(generic_tables.rule_edge, ctx, rep)
    _r(generic_tables.rule_eqn, ctx, rep)
    _r(generic_tables.rule_worklist, ctx, rep)
    _r(cmptables.rule_fee_tables, ctx, rep)
    _r(cmptables.rule_addr_tables, ctx, rep)
    _r(cmptables.rule_int_tables, ctx, rep)
    _r(cmptables.rule_kind_exact_compared, ctx, rep)
    _r(detectors.rule_checks_field, ctx, rep)
    _r(spelling.rule_int_spellings, ctx, rep)
    _r(generic_tables.rule_fixpoint_programs, ctx, rep, only=("rekey-to verdict: spurious", "RekeyTo exact", "GroupSize exact", "GroupIndex exact", "Fee exact", "Fee empty", "runs"))
    _r(function_rules.rule_function_construction, ctx, rep)


from .rules import gtxn_tables  # noqa: E402


@prop("C10", "Decides the structural clauses of C10: (T-INDEX) index classification Self/Absolute/Relative/Unknown incl. sign of "
             "offsets and operand order; (T-KEYMATCH) key family x read kind matching matrix; (T-KEYNAME) key constructors vs "
             "predicates vs decoder for every index and offset incl. negative; (T-KEYRANGE) index/offset ranges of the contexts; "
             "(T-ATTR) a check read through gtxn/gtxns constrains exactly the keys of that transaction; (T-GTXNMERGE) merge of "
             "own-field information into at-index keys only; (T-STORE) key family <-> accessor pairing of every analysis. "
             "Not decided: soundness for other group members over all programs.")
def c10(ctx, rep):
    _r(gtxn_tables.rule_index_classification, ctx, rep)
    _r(gtxn_tables.rule_key_matching, ctx, rep)
    _r(gtxn_tables.rule_key_names, ctx, rep)
    _r(gtxn_tables.rule_key_universe, ctx, rep)
    _r(gtxn_tables.rule_gtxn_attribution, ctx, rep)
    _r(gtxn_tables.rule_gtxn_merge, ctx, rep)
    _r(gtxn_tables.rule_gtxn_programs, ctx, rep)
    for name, mod in (("T-STORE(fee)", "fee_field"), ("T-STORE(addr)", "addr_fields"), ("T-STORE(kind)", "txn_types")):
        rep.rule(name, "key family <-> context accessor pairing in _store_results")
        cmptables._store_family_rule(ctx, rep, name, mod)
    generic_core(ctx, rep)


from .rules import detectors  # noqa: E402


@prop("C01", "Decides the detector-side structural clauses of C01: (T-PRED) the dangerous-value predicate of each of the nine "
             "path-reporting detectors as a complete truth table over the context atoms it reads; (T-VALIDATED) validated_in_block "
             "is a for-all over possible own indices (240 rows); (R-GATE) guard table of search_paths: report gate, the four prunes, "
             "complete successor coverage, retsub continuation at the top frame's return point, persistent arguments; (T-SEARCH) "
             "the path search on abstract CFG neighbourhoods; (T-GROUPALL) the search over all configured functions of a Tealer object returns "
             "each function's own paths. The analysis-side clauses are decided under C03/C06-C10. "
             "Not decided: soundness of the per-block contexts for every program (the fixpoint).")
def c01(ctx, rep):
    _r(detectors.rule_checks_field, ctx, rep)
    _r(detectors.rule_validated_in_block, ctx, rep)
    _r(detectors.rule_search_paths_exits, ctx, rep)
    _r(detectors.rule_search_paths_rows, ctx, rep)
    _r(detectors.rule_absolute_index_access, ctx, rep)
    _r(detectors.rule_group_all, ctx, rep)
    generic_core(ctx, rep)
    _r(optable.rule_stack_effect, ctx, rep)
    _r(cmptables.rule_addr_tables, ctx, rep)
    _r(cmptables.rule_fee_tables, ctx, rep)


@prop("C13", "Decides the structural clauses of C13: (T-GROUP) the group verdict function on abstract two-member groups with marker "
             "contexts - full product of own / at-index / absolute / relative validation flags x index and offset configurations "
             "(direction and sign), leaf-only and for-all-leaves evaluation, eligibility by detector type and transaction type; "
             "(T-OFFSET) offset inversion; (T-VALIDATED) validated_in_block rows; (T-INDEX, T-KEYMATCH) which key family (absolute / "
             "relative offset, either operand order) an indexed read is credited to. Not decided: agreement with concrete group "
             "semantics over all programs; equality with the single-contract verdict.")
def c13(ctx, rep):
    _r(detectors.rule_group_verdicts, ctx, rep)
    _r(detectors.rule_offset_inversion, ctx, rep)
    _r(detectors.rule_group_config, ctx, rep)
    _r(output_rules.rule_main_group, ctx, rep)
    _r(detectors.rule_validated_in_block, ctx, rep)
    _r(gtxn_tables.rule_index_classification, ctx, rep)
    _r(gtxn_tables.rule_key_matching, ctx, rep)
    # the information the verdict reads per route (absolute / relative / at-index context) is the information the analyses stored there
    _r(cmptables.rule_fee_store, ctx, rep)
    _r(cmptables.rule_addr_store, ctx, rep)


from .rules import cfg_rules  # noqa: E402


@prop("C04", "Decides the structural clauses of C04: (T-FLOW) the control-flow table of the four parser passes for every AVM opcode "
             "(fall-through, jump targets, block boundary, ordered successors, mirrored predecessors); (T-CFG) parse_teal on 29 "
             "abstract program shape classes against an independent reference construction incl. pruning of unreachable code and "
             "well-formedness; (R-PAIR) edge pairing, (R-ITER) no mutation under iteration, (R-ORDER) pass order, (R-DEDUP) "
             "duplicate-free successors, (R-OWN) who may write edges; (T-GLOBAL) global successor/predecessor tables mutually "
             "inverse. Not decided: that every concrete execution of every program is a walk in the graph.")
def c04(ctx, rep):
    _r(cfg_rules.rule_flow_table, ctx, rep)
    _r(cfg_rules.rule_cfg_shapes, ctx, rep)
    _r(cfg_rules.rule_no_mutation_under_iteration, ctx, rep)
    _r(cfg_rules.rule_edge_pairing, ctx, rep)
    _r(cfg_rules.rule_pass_order, ctx, rep)
    _r(cfg_rules.rule_successor_dedup, ctx, rep)
    _r(cfg_rules.rule_edge_ownership, ctx, rep)
    _r(cfg_rules.rule_global_edges_inverse, ctx, rep)
    _r(cfg_rules.rule_global_edges_programs, ctx, rep)


@prop("C05", "Decides the structural clauses of C05: (T-CFG subroutines) on 29 abstract program shape classes (0-3 subroutines; nested, "
             "shared, recursive and mutually recursive calls; calls in loops; dead call sites; subroutines before/after main; callsub as "
             "last instruction) the subroutine set, membership, exits, retsub blocks, caller and return-point tables equal an independent "
             "reference construction, every callsub block knows its callee and return point; (T-CALLGRAPH) call-graph edges = retained "
             "call sites; (R-SIBLING) the three return-point implementations agree. Not decided: every arrangement of every program.")
def c05(ctx, rep):
    _r(cfg_rules.rule_cfg_shapes, ctx, rep, rule="T-CFG(subroutines)", subs_only=True)
    _r(cfg_rules.rule_call_graph, ctx, rep)
    _r(cfg_rules.rule_return_point_siblings, ctx, rep)
    _r(cfg_rules.rule_global_edges_inverse, ctx, rep)
    _r(cfg_rules.rule_global_edges_programs, ctx, rep)


@prop("C02", "Decides the structural clauses of C02: (R-GATE) guard table of search_paths - a path is appended only at a global leaf, "
             "unvalidated, with the current block included; the four prunes; retsub resumes at the top frame's return point with the "
             "frame popped; persistent path/call-stack/executed arguments; initial call; (T-SEARCH) the path search on 13 abstract CFG "
             "neighbourhoods incl. loops through callsub blocks and shared subroutines: exact list of reported block sequences, no "
             "duplicates; (R-DEDUP + T-CFG) duplicate-free successor lists; (T-RENDER) short notation / JSON / filter renderings. "
             "Not decided: duplicate- and cycle-freedom of the enumeration for every graph (follows from these clauses; not mechanised).")
def c02(ctx, rep):
    _r(detectors.rule_search_paths_exits, ctx, rep)
    _r(detectors.rule_search_paths_rows, ctx, rep)
    _r(detectors.rule_renderings, ctx, rep)
    _r(detectors.rule_group_all, ctx, rep)
    _r(cfg_rules.rule_successor_dedup, ctx, rep)
    _r(cfg_rules.rule_global_edges_inverse, ctx, rep)
    _r(cfg_rules.rule_global_edges_programs, ctx, rep)
    _r(cfg_rules.rule_cfg_shapes, ctx, rep, rule="T-CFG")


from .rules import function_rules  # noqa: E402


@prop("C12", "Decides the structural clauses of C12: (T-FUNCTION) copy_main_cfg/construct_function evaluated abstractly on 11 program "
             "shape classes and 5 dispatch paths (context analysis phase abstracted away): [B0] gives an isomorphic main graph of fresh "
             "blocks sharing the subroutine blocks, used-subroutine closure, contexts for every block, off-path successors replaced by "
             "error blocks symmetrically except at the last path block, invalid paths rejected, the contract's graph unchanged, functions "
             "independent of each other; (R-ORDER/R-PAIR/R-ITER/R-OWN) structural rules over parse_functions; (T-BLOCK) the error block "
             "constrains to the empty set. Not decided: C06-C10 relative to exactly the function's executions.")
def c12(ctx, rep):
    _r(function_rules.rule_function_construction, ctx, rep)
    _r(cfg_rules.rule_pass_order, ctx, rep)
    _r(cfg_rules.rule_edge_pairing, ctx, rep)
    _r(cfg_rules.rule_no_mutation_under_iteration, ctx, rep)
    _r(cfg_rules.rule_edge_ownership, ctx, rep)
    _r(generic_tables.rule_block, ctx, rep)


from .rules import output_rules  # noqa: E402
from .rules import version_rules  # noqa: E402


@prop("C17", "Decides the structural clauses of C17 (absence of classes of internal errors, each with a true positive in this code base): "
             "(T-COMPLETE) every printer and the detect path with text and JSON output evaluated abstractly on 25 program shape "
             "classes (dead code that branches or calls, loops, recursion, branch/call as last instruction, labels at end, empty "
             "subroutines, back-to-back labels) complete without an exception of the analysed code; (T-CFG well-formedness) no stale "
             "edges after pruning; (T-KIND/T-CMP totality) no RAISES row in any comparison table for constants a valid program can "
             "contain; (T-DOT(context)) context lookups use the function's own blocks; (R-ITER). In the quick tier the fixpoint phase is "
             "abstracted away (its equations are decided under C03); the thorough tier evaluates it on selected shapes. "
             "Not decided: termination and absence of all exceptions on all programs.")
def c17(ctx, rep):
    _r(output_rules.rule_outputs_complete, ctx, rep)
    _r(output_rules.rule_main_print, ctx, rep)
    _r(output_rules.rule_main_selection, ctx, rep)
    _r(output_rules.rule_context_annotations, ctx, rep)
    _r(cfg_rules.rule_cfg_shapes, ctx, rep)
    _r(cfg_rules.rule_no_mutation_under_iteration, ctx, rep)
    _r(cmptables.rule_totality, ctx, rep)
    _r(effects.rule_block_provenance, ctx, rep)


@prop("C18", "Decides the structural clauses of C18: (T-DOT(cfg)) node set, instruction rows and edge set of the cfg export equal the "
             "global graph of an independent reference construction on 25 program shape classes; (T-DOT(subroutine-cfg)) per "
             "subroutine nodes, edges and one call box per call site; (T-DOT(subroutine-cfg files)) one file per subroutine also when labels differ "
             "only in punctuation or case; (T-DOT(path)) the path DOT marks exactly the path's blocks; "
             "(T-DOT(context)) annotations are the blocks' own contexts; (T-ENV) JSON envelope: success iff no error, count = number "
             "of paths, and (T-MAIN) the error side of the envelope reached through main() for a contract that cannot be loaded; (T-RENDER) filter "
             "removes exactly the matching paths, a block that occurs twice in a path is listed twice; (T-CALLGRAPH). "
             "Not decided: textual well-formedness of DOT/JSON for all inputs.")
def c18(ctx, rep):
    _r(output_rules.rule_dot_full, ctx, rep)
    _r(output_rules.rule_dot_subroutines, ctx, rep)
    _r(output_rules.rule_dot_subroutine_files, ctx, rep)
    _r(output_rules.rule_path_highlight, ctx, rep)
    _r(output_rules.rule_context_annotations, ctx, rep)
    _r(output_rules.rule_json_envelope, ctx, rep)
    _r(output_rules.rule_main_detect, ctx, rep)
    _r(output_rules.rule_num_ranges, ctx, rep)
    _r(detectors.rule_renderings, ctx, rep)
    _r(cfg_rules.rule_call_graph, ctx, rep)
    _r(effects.rule_block_provenance, ctx, rep)


from .rules import effects  # noqa: E402


@prop("C14", "Decides the structural clauses of C14: (E-SHARED) whole-package alias analysis: no module-level or class-level mutable "
             "container nor any alias of one (assignments, element reads, returns, parameters; copies cut the alias) is mutated after "
             "module initialisation; _universal_set returns a fresh object; (E-ORDER) sets of strings are sorted before they are stored "
             "in block-context attributes or returned by to_json; (R-OWN(context)) only the analyses write context attributes - a "
             "detector cannot change what another reads; (T-STORE) stored lists are functions of the computed sets only; (T-HISTORY) the "
             "predicate and report-condition closures a detector's detect() hands to the path search give the same verdict per context / "
             "path whatever was asked before (two contracts whose blocks share ids, both orders, repeated); thorough tier: (T-HISTORY(runs)) "
             "whole runs with the real analyses give the same contexts and JSON results after another contract, with the detectors "
             "registered in the opposite order, and when run twice; (R-DEFAULT) no mutable default arguments; (E-PURE(export)) the rendering "
             "functions change no container of the objects they render. "
             "(T-HISTORY(contracts)) every detector reports for each of two contracts loaded together what it reports for it alone; (T-EQN) "
             "the live-in equations give the same answer whatever was asked before and in whatever order callees are listed; "
             "(T-ORDER(fixpoint)) the analyses give the same contexts when the function's block list and subroutine table are listed in the "
             "opposite order (5 programs with two subroutines, loops, early exits). Not decided: uniqueness of the fixpoint under every "
             "worklist order on every program; byte-identity of whole outputs.")
def c14(ctx, rep):
    _r(effects.rule_shared_roots, ctx, rep)
    _r(effects.rule_hash_order, ctx, rep)
    _r(effects.rule_context_writers, ctx, rep)
    _r(effects.rule_mutable_defaults, ctx, rep)
    _r(effects.rule_renderers_pure, ctx, rep)
    _r(effects.rule_pure_lattice, ctx, rep)
    _r(detectors.rule_history, ctx, rep)
    _r(spelling.rule_fixpoint_order, ctx, rep)
    _r(output_rules.rule_history_contracts, ctx, rep)
    _r(generic_tables.rule_eqn, ctx, rep)
    _r(cmptables.rule_addr_store, ctx, rep)
    _r(cmptables.rule_int_store, ctx, rep)
    _r(cmptables.rule_universe_fresh, ctx, rep)


from .rules import spelling  # noqa: E402


@prop("C15", "Decides the clauses of C15 visible in the source: (T-SPELL(int)) decimal/hex/octal spellings parse to the same value in both "
             "integer parsers and in every integer immediate of every opcode of the specification that has one (8 / 0x8 / 010); (T-SPELL(named)) named and numeric transaction types / completion "
             "actions give the same table cell; (T-SPELL(intc)) int / pushint / intc / intc_k give the same cell, unresolvable intc gives no "
             "information, constant block resolved only when unique and in the entry block; (R-DOOR) constants are recognised only through "
             "is_int_push_ins / is_byte_push_ins; (T-REWRITE) label renaming, comments, blank lines, indentation leave the graph of 30 "
             "program shape classes unchanged; (T-REWRITE(contexts)) padding at statement boundaries; (T-REWRITE(move)) subroutine bodies written in a different order. The thorough tier adds (T-META(sweep)): ~580 enumerated "
             "programs of the direct-check fragment x 7 rewritings (layout, hex, octal, pushint, intcblock/intc, padding, all together) - the "
             "per-block contexts and the rekey-to paths of the rewritten program equal those of the original. Not decided: the metamorphic "
             "relation for all programs and all compositions.")
def c15(ctx, rep):
    _r(spelling.rule_int_spellings, ctx, rep)
    _r(spelling.rule_named_constants, ctx, rep)
    _r(spelling.rule_constant_block, ctx, rep)
    _r(spelling.rule_one_door, ctx, rep)
    _r(optable.rule_int_push_table, ctx, rep)
    _r(spelling.rule_rewrite_invariance, ctx, rep)
    _r(spelling.rule_padding_invariance, ctx, rep)
    _r(spelling.rule_move_subroutines, ctx, rep)
    _r(spelling.rule_spelled_programs, ctx, rep)
    _r(spelling.rule_layout_pairs, ctx, rep)


from .rules import regex_rules  # noqa: E402


@prop("C20", "Decides C20 on program shape classes: (T-REGEX) match_regex evaluated abstractly on 11 programs (straight line, diamonds, "
             "three-way join, loops, unreachable occurrences, occurrences across labels and interrupted by branches, subroutine calls) x 4 "
             "patterns of 1-3 instructions x 2 labels against an independent two-pass reference on the instruction graph: the matches are "
             "exactly the reachable straight-line occurrences, listed in order; the covered set is exactly the set of instructions from which "
             "a match is reachable; (T-RT, C16) printed text identifies instructions. The thorough tier sweeps all control skeletons. "
             "Not decided: all programs and patterns beyond the enumerated space.")
def c20(ctx, rep):
    _r(regex_rules.rule_regex, ctx, rep)
    _r(output_rules.rule_main_regex, ctx, rep)
    _r(optable.rule_prefix_and_roundtrip, ctx, rep)
