"""Regenerates MANIFEST.json from sa/props.py (claimed properties) and the tables below."""
import json, sys, pathlib
sys.path.insert(0, str(pathlib.Path(__file__).resolve().parent.parent))
from sa import props

VERIF = pathlib.Path(__file__).resolve().parent.parent
ALL = [json.loads(l)["id"] for l in open(VERIF / "properties.jsonl")]
A = "static analysis (abstract interpretation of tealer's syntax trees, never executed): "
TECH = {
    "C01": A + "decision tables of the detectors' predicates and of the path search on abstract CFG neighbourhoods, the dataflow equations as tables, whole small programs through the analysis against an independent reference semantics; guard inference over search_paths",
    "C02": A + "path search evaluated on abstract neighbourhoods and (thorough) on every control skeleton against an independent reference search; guard table of search_paths; renderings compared with the block sequence",
    "C03": A + "complete comparison tables of the four analyses (every operator x operand order x constant), Boolean combinators, block/edge constraint tables, whole programs against the reference semantics for exactness",
    "C04": A + "control-flow table of the parser passes for every opcode; parse_teal on program shape classes and (thorough) all control skeletons against an independent reference graph; structural pairing/ordering rules over the passes",
    "C05": A + "subroutine / caller / return-point tables of parse_teal and of Function on shape classes and skeletons against the reference graph; call-graph export evaluated; global neighbour functions as inverse relations",
    "C06": A + "complete comparison table of GroupSize/GroupIndex (c in 0..18, both operand orders), store coupling, lattice tables, whole programs against the reference semantics (sound and exact per block)",
    "C07": A + "complete table of TypeEnum / OnCompletion / ApplicationID comparisons against the AVM's kind semantics, lattice and store tables, generic solver tables",
    "C08": A + "address comparison tables, lattice with ANY/NO elements, store function, edge constraints incl. branch to the next line, whole programs against the reference semantics",
    "C09": A + "fee comparison tables with symbolic and boundary constants, the fee chain lattice, store function per key family, whole programs against the reference semantics",
    "C10": A + "index classification, key matching / naming / universe tables, gtxn merge and attribution tables, the address analysis with all gtxn keys on programs against the reference semantics",
    "C11": A + "stack effect of every AVM opcode as affine forms in symbolic immediates against a hand-reviewed AVM table; stack reconstruction against a reference stack machine; which instructions count as integer constants",
    "C12": A + "copy_main_cfg / construct_function evaluated on program shape classes and dispatch paths: isomorphism, fresh vs shared blocks, error blocks at departures, contract snapshot unchanged",
    "C13": A + "group verdict function on abstract groups with marker contexts (full product of routes), offset inversion table, configurations loaded from documents, main() with --group-config evaluated",
    "C14": "static analysis: whole-package alias / effect / ordering analysis over the syntax trees (shared mutable roots, hash-order of set-to-sequence conversions, who writes contexts, mutable defaults, parameter mutation) plus abstract evaluation of detectors' closures, two-contract runs and equation functions for history independence",
    "C15": A + "spelling tables (decimal/hex/octal, named constants, int/pushint/intc), one-door rule for constants, graph and context invariance under rewrites on program pairs and (thorough) a metamorphic sweep",
    "C16": A + "parse_line and __str__ evaluated on every opcode spelling x field x immediate sample, prefix table, tokenizer rows (comments, byte-literal alphabets), unknown words, line numbers through parse_teal",
    "C17": A + "every printer, the detect path and main() (detect, print, regex, option handling) evaluated on program shape classes with an abstract file system; (thorough) the whole tool with nothing abstracted",
    "C18": A + "DOT text produced by the exporters parsed and compared with the reference graph (nodes, edges, call boxes, highlights, annotations), JSON envelope and --filter-paths through main(), number-range rendering exhaustively",
    "C19": A + "version / mode / cost of every opcode and field against the AVM table, the version test for every (opcode, declared version), mode detection incl. unreachable code, block cost, contracts loaded through a configuration",
    "C20": A + "match_regex / parse_regex / run_regex evaluated on program shapes x patterns x labels and (thorough) all control skeletons against an independent two-pass reference on the instruction graph",
}
NA = {}   # every property is claimed (C20 through T-REGEX since the D11 repair)
NOT_YET = "check not built yet in this session (planned, see DESIGN.md section 4); not claimed until it runs clean"
TECH_DEFAULT = "static analysis: abstract evaluation of the source's syntax trees into decision tables compared with AVM-derived oracles; structural/flow rules over the parsed package"
checks = []
for pid in ALL:
    if pid not in props.PROPS:
        continue
    expl, _ = props.PROPS[pid]
    checks.append({
        "property_id": pid,
        "quick_cmd": f"./check {pid} --tier quick",
        "thorough_cmd": f"./check {pid} --tier thorough",
        "evidence_file": f"/verif/evidence/{pid}.json",
        "replay_cmd_template": f"./check {pid} --replay {{path}}",
        "engine": "sa",
        "level_claimed": {
            "category": "other",
            "text": "Static analysis of /repo's source (never executed): finite structural obligations that are necessary conditions of the "
                    "property, each discharged for every input at once by exhaustive table extraction or whole-package flow analysis. "
                    "It decides the stated clauses, not the behavioural property as a whole. " + expl,
            "design_ref": f"DESIGN.md section 4 ({pid})",
        },
        "level_note": "Trusted base: CPython ast, the engines in /verif/sa, the hand-written AVM tables in /verif/spec. "
                      "Undecided parts are listed in the evidence file under assumptions/explanation.",
        "technique": TECH.get(pid, TECH_DEFAULT),
    })
na = []
for pid in ALL:
    if pid in props.PROPS:
        continue
    na.append({"property_id": pid, "reason": NA.get(pid, NOT_YET)})
man = {
    "version": 1,
    "setup_cmd": "./check --help >/dev/null && PYTHONHASHSEED=0 /venv/bin/python tools/eval_conformance.py >/dev/null",
    "hooks": {"guard": "TEALER_VERIF", "enable": "none needed: the checks parse /repo's sources and never run them", 
              "baseline_off_cmd": "cd /repo && /venv/bin/python -m pytest -ra -q -p no:cacheprovider --timeout=900 --continue-on-collection-errors",
              "source_commits": [], "add_only": True},
    "engines": [{"name": "sa", "path": "/verif/sa", "serves_properties": [c["property_id"] for c in checks],
                 "kind_free_text": "static analysis over Python syntax trees: abstract evaluator (decision tables), structured guard inference, flow/provenance propagation"}],
    "checks": checks,
    "notes": "Family: static analysis. See DESIGN.md. known_findings.json lists recorded defects and fix commits.",
    "not_applicable": na,
}
(VERIF / "MANIFEST.json").write_text(json.dumps(man, indent=1))
print("claimed", [c["property_id"] for c in checks], "not claimed", [n["property_id"] for n in na])
