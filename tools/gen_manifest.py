"""Regenerates MANIFEST.json from sa/props.py (claimed properties) and the tables below."""
import json, sys, pathlib
sys.path.insert(0, str(pathlib.Path(__file__).resolve().parent.parent))
from sa import props

VERIF = pathlib.Path(__file__).resolve().parent.parent
ALL = [json.loads(l)["id"] for l in open(VERIF / "properties.jsonl")]
TECH = {}
NA = {}   # every property is claimed (C20 through T-REGEX since the D11 repair)
NOT_YET = "check not built yet in this session (planned, see DESIGN.md section 4); not claimed until it runs clean"
TECH_DEFAULT = "static analysis: abstract evaluation of the source's syntax trees into decision tables compared with AVM-derived oracles; structural/flow rules over the parsed package"
checks = []
for pid in ALL:
    if pid not in props.PROPS:
        continue
    expl, _ = props.PROPS[pid]
    checks.append({
        "property_id": pid,
        "quick_cmd": f"./check {pid} --tier quick",
        "thorough_cmd": f"./check {pid} --tier thorough",
        "evidence_file": f"/verif/evidence/{pid}.json",
        "replay_cmd_template": f"./check {pid} --replay {{path}}",
        "engine": "sa",
        "level_claimed": {
            "category": "other",
            "text": "Static analysis of /repo's source (never executed): finite structural obligations that are necessary conditions of the "
                    "property, each discharged for every input at once by exhaustive table extraction or whole-package flow analysis. "
                    "It decides the stated clauses, not the behavioural property as a whole. " + expl,
            "design_ref": f"DESIGN.md section 4 ({pid})",
        },
        "level_note": "Trusted base: CPython ast, the engines in /verif/sa, the hand-written AVM tables in /verif/spec. "
                      "Undecided parts are listed in the evidence file under assumptions/explanation.",
        "technique": TECH.get(pid, TECH_DEFAULT),
    })
na = []
for pid in ALL:
    if pid in props.PROPS:
        continue
    na.append({"property_id": pid, "reason": NA.get(pid, NOT_YET)})
man = {
    "version": 1,
    "setup_cmd": "./check --help >/dev/null && PYTHONHASHSEED=0 /venv/bin/python tools/eval_conformance.py >/dev/null",
    "hooks": {"guard": "TEALER_VERIF", "enable": "none needed: the checks parse /repo's sources and never run them", 
              "baseline_off_cmd": "cd /repo && /venv/bin/python -m pytest -ra -q -p no:cacheprovider --timeout=900 --continue-on-collection-errors",
              "source_commits": [], "add_only": True},
    "engines": [{"name": "sa", "path": "/verif/sa", "serves_properties": [c["property_id"] for c in checks],
                 "kind_free_text": "static analysis over Python syntax trees: abstract evaluator (decision tables), structured guard inference, flow/provenance propagation"}],
    "checks": checks,
    "notes": "Family: static analysis. See DESIGN.md. known_findings.json lists recorded defects and fix commits.",
    "not_applicable": na,
}
(VERIF / "MANIFEST.json").write_text(json.dumps(man, indent=1))
print("claimed", [c["property_id"] for c in checks], "not claimed", [n["property_id"] for n in na])
