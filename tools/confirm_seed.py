"""Confirm a seeded change myself in a scratch worktree and file it under /verif/seeded/<id>/.
usage: confirm_seed.py <seed dir, e.g. /tmp/seed/C02/a> <id e.g. C02-a> [--no-suite]"""
import json, os, shutil, subprocess, sys, pathlib, time
src = pathlib.Path(sys.argv[1]); sid = sys.argv[2]
wt = pathlib.Path(f"/tmp/wt/confirm_{sid}")
out = pathlib.Path("/verif/seeded") / sid
def run(cmd, cwd=None, timeout=3600):
    r = subprocess.run(cmd, shell=True, cwd=cwd, capture_output=True, text=True, timeout=timeout)
    return r.returncode, (r.stdout + r.stderr)
subprocess.run(f"git -C /repo worktree remove --force {wt}", shell=True, capture_output=True)
rc, o = run(f"git -C /repo worktree add --detach {wt} HEAD -q")
assert rc == 0, o
meta = {"id": sid, "base_commit": run("git -C /repo rev-parse --short HEAD")[1].strip()}
try:
    notes = json.load(open(src / "notes.json"))
    env = f"cd {wt} && PYTHONPATH={wt} "
    rc0, o0 = run(env + f"/venv/bin/python {src}/demo.py")
    rc, o = run(f"git apply {src}/patch.diff", cwd=wt)
    assert rc == 0, "patch does not apply: " + o
    rc1, o1 = run(env + f"/venv/bin/python {src}/demo.py")
    imp = run(env + "/venv/bin/python -c 'import tealer.__main__, tealer; print(tealer.__file__)'")
    suite = "skipped"
    if "--no-suite" not in sys.argv:
        t = time.time()
        rcs, os_ = run(env + "/venv/bin/python -m pytest -q -p no:cacheprovider --timeout=900 -n 6 2>&1 | tail -3", timeout=3000)
        suite = os_.strip().splitlines()[-1] if os_.strip() else f"rc={rcs}"
    meta.update({"property": notes.get("property"), "summary": notes.get("summary"), "needs_to_manifest": notes.get("needs_to_manifest"),
                 "files": notes.get("files"), "demo_exit_on_head": rc0, "demo_exit_with_patch": rc1, "imports_ok": imp[0] == 0,
                 "suite_with_patch": suite, "demo_output_with_patch": o1.strip().splitlines()[-3:],
                 "what_i_ran": ["git worktree add --detach <scratch> HEAD", "demo.py on HEAD", "git apply patch.diff", "demo.py with patch",
                                "pytest -q -n 6 (full suite) with patch", "worktree removed"]})
    ok = rc0 == 0 and rc1 == 1 and imp[0] == 0 and ("passed" in suite and "failed" not in suite or suite == "skipped")
    meta["confirmed"] = ok
    out.mkdir(parents=True, exist_ok=True)
    for f in src.iterdir():
        if f.is_file() and f.name != "notes.json":
            shutil.copy(f, out / f.name)
    json.dump(meta, open(out / "meta.json", "w"), indent=1)
    print(sid, "CONFIRMED" if ok else "NOT CONFIRMED", rc0, rc1, suite)
finally:
    subprocess.run(f"git -C /repo worktree remove --force {wt}", shell=True, capture_output=True)
