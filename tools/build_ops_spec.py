"""One-off: turn the reviewed dump (tools/gen_ops_spec.py) into spec/avm_ops.json, applying the hand
corrections found during the review against the AVM opcode documentation, and cross-check version/mode
with PyTeal's OpType table (parsed, not imported).  Not used by any check."""
import ast, json, sys, re

dump = json.load(open(sys.argv[1]))
PSEUDO = {"instruction", "TealerCustomErrInstruction", "UNSUPPORTED", "instructionwithlabel", "intcinstruction",
          "bytecinstruction", "#pragma"}
FLOW = {"b": "jump", "bz": "cond", "bnz": "cond", "switch": "multi", "match": "multi", "callsub": "call",
        "retsub": "retsub", "err": "exit", "return": "exit"}
LIST_EXPR = {"intcblock": ("0", "0"), "bytecblock": ("0", "0"), "pushints": ("0", "len"), "pushbytess": ("0", "len"),
             "switch": ("1", "0"), "match": ("len+1", "0")}
# corrections: tealer's value -> AVM value, with the source
CORRECTIONS = {
    ("frame_bury", ("int",)): {"pushes": "0", "note": "AVM: frame_bury pops A and pushes nothing (tealer: 1)"},
}
ops, pseudo = [], []
for e in dump:
    mn = e["mnemonic"]
    kinds = ["list" if k.startswith("list") else k for k in e["imm"]]
    if mn in PSEUDO or mn.endswith(":"):
        if mn.endswith(":"):
            mn = "<label>:"
        pseudo.append({"class": e["class_hint"], "pops": e["pops"], "pushes": e["pushes"]})
        continue
    ent = {"mnemonic": mn, "imm": kinds, "version": e["version"], "mode": e["mode"], "pops": e["pops"], "pushes": e["pushes"],
           "cost": e["cost"], "flow": FLOW.get(mn, "next")}
    if mn in LIST_EXPR:
        ent["pops"], ent["pushes"] = LIST_EXPR[mn]
    c = CORRECTIONS.get((mn, tuple(kinds)))
    if c:
        ent.update(c)
    ops.append(ent)

# PyTeal cross-reference
src = open("/venv/lib/python3.12/site-packages/pyteal/ir/ops.py").read()
pt = {}
for n in ast.walk(ast.parse(src)):
    if isinstance(n, ast.Call) and getattr(n.func, "id", "") == "OpType" and len(n.args) == 3:
        try:
            pt[n.args[0].value] = (ast.unparse(n.args[1]).replace("Mode.", "").replace(" ", ""), n.args[2].value)
        except AttributeError:
            pass
bad = []
for o in ops:
    if o["mnemonic"] in pt:
        mode, ver = pt[o["mnemonic"]]
        m = {"Signature": "STATELESS", "Application": "STATEFUL", "Signature|Application": "ANY"}[mode]
        if m != o["mode"] or (max(ver, 2) != max(o["version"], 2)):
            bad.append((o["mnemonic"], o["mode"], o["version"], mode, ver))
        o["pyteal"] = True
print("pyteal entries", len(pt), "shared", sum(1 for o in ops if o.get("pyteal")), "disagreements", bad, file=sys.stderr)
enums = {"ecdsa_verify": ["Secp256k1", "Secp256r1"], "ecdsa_pk_decompress": ["Secp256k1", "Secp256r1"],
         "ecdsa_pk_recover": ["Secp256k1", "Secp256r1"], "base64_decode": ["URLEncoding", "StdEncoding"],
         "json_ref": ["JSONString", "JSONUint64", "JSONObject"], "vrf_verify": ["VrfAlgorand"], "block": ["BlkSeed", "BlkTimestamp"]}
json.dump({"_about": "AVM opcode table for TEAL v1-v8: mnemonic, immediates, introduction version, mode, stack pops/pushes "
           "(affine in the immediates: imm<k> = k-th immediate, len = number of list immediates), cost per program version, "
           "control-flow kind. Written by hand review against the AVM opcode documentation; version/mode cross-checked with "
           "PyTeal's OpType table (entries marked pyteal). 'pseudo' lists tealer-only classes and their required neutral stack effect.",
           "opcodes": ops, "pseudo": pseudo, "enums": enums}, sys.stdout, indent=1)
