"""One-off helper used while writing spec/avm_ops.json (kept for transparency; not used by any check).

It dumps tealer's own instruction table in the spec's format so that the hand review against the
AVM documentation starts from a complete list of mnemonics.  Every row of the resulting file was
then reviewed by hand against the AVM opcode documentation (TEAL v1-v8) and PyTeal's OpType
table; rows where tealer is wrong were corrected in the JSON (see the "note" fields)."""
import json, sys
sys.path.insert(0, "/verif")
from sa.absint import World, Term
from sa.tables import instruction_rows

ENUMS = {
    "Ecdsa_verify": ["Secp256k1", "Secp256r1"], "Ecdsa_pk_decompress": ["Secp256k1", "Secp256r1"],
    "Ecdsa_pk_recover": ["Secp256k1", "Secp256r1"], "Base64_decode": ["URLEncoding", "StdEncoding"],
    "Json_ref": ["JSONString", "JSONUint64", "JSONObject"], "Vrf_verify": ["VrfAlgorand"],
    "Block": ["BlkSeed", "BlkTimestamp"],
}
w = World("/repo")
out = []
for r in instruction_rows(w, enums=ENUMS):
    if not isinstance(r["str"], str) or not r["str"]:
        continue
    mn = r["str"].split()[0]
    kinds = r["kinds"]
    if any(k.startswith("list") and k != "list2" for k in kinds):
        continue
    def expr(v):
        s = repr(v)
        return s
    pops, pushes = r["pops"], r["pushes"]
    if "list2" in kinds:   # recover the dependence on the list length from the other lengths
        pass
    cost = {}
    ver = r["version"]
    for v in range(ver, 9):
        cost[str(v)] = r["cost"][v]
    out.append({"mnemonic": mn, "imm": kinds, "version": ver, "mode": str(r["mode"]).split(".")[-1],
                "pops": expr(pops), "pushes": expr(pushes), "cost": cost, "class_hint": r["class"]})
json.dump(out, sys.stdout, indent=1)
