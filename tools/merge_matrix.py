"""Merge the result of a seed_matrix.py run (/tmp/seed_matrix.json, or the file given) into /verif/seeded/matrix.json.
An entry of the run replaces the entry of the same seeded change; entries the run did not touch stay as they are.
usage: merge_matrix.py [run.json]"""
import json, sys
src = sys.argv[1] if len(sys.argv) > 1 else "/tmp/seed_matrix.json"
new = json.load(open(src))
path = "/verif/seeded/matrix.json"
m = json.load(open(path))
for k, v in new.items():
    if "caught_by" not in v:
        continue
    old = m.get(k)
    if old and len(v["caught_by"]) < len(old["caught_by"]) and "--replace" not in sys.argv:
        # a targeted run asks fewer checks than the full run that made the old entry: keep the union
        v = {"caught_by": sorted(set(old["caught_by"]) | set(v["caught_by"])), "errors": v["errors"],
             "first": {**old["first"], **v["first"]}}
    m[k] = v
json.dump(m, open(path, "w"), indent=1, sort_keys=True)
print(len(m), "entries;", sorted(k for k, v in m.items() if not v["caught_by"]), "uncaught")
