"""Conformance of the abstract evaluator (sa/absint.py) with CPython on the Python constructs a maintainer's refactoring of
tealer could introduce.  Each function t_* of the battery below is run by CPython and by the evaluator; results must agree.
This tests the machinery, not /repo.  usage: eval_conformance.py [-v]"""
import pathlib, shutil, sys, tempfile, textwrap
sys.path.insert(0, str(pathlib.Path(__file__).resolve().parent.parent))
from sa.absint import World, Obj, EnumMember, PyRaise, Unsupported

BATTERY = r'''
import itertools
import functools
import operator
import collections
import copy
import math
from collections import deque, OrderedDict, Counter, defaultdict, namedtuple
from dataclasses import dataclass, field
from enum import Enum, IntEnum, auto
from functools import lru_cache, reduce, partial
from itertools import chain, product
from typing import List, Dict, Set, Optional, Tuple, cast, NamedTuple


class Color(Enum):
    RED = 1
    GREEN = 2
    BLUE = auto()


class Base:
    KIND = "base"

    def __init__(self, x: int = 0):
        self._x = x
        self.items: List[int] = []

    @property
    def x(self) -> int:
        return self._x

    @x.setter
    def x(self, v: int) -> None:
        self._x = v

    @staticmethod
    def twice(v):
        return 2 * v

    @classmethod
    def make(cls, v):
        return cls(v)

    def describe(self):
        return f"{self.KIND}:{self._x}"

    def __eq__(self, other):
        return isinstance(other, Base) and self._x == other._x

    def __hash__(self):
        return hash(self._x)

    def __lt__(self, other):
        return self._x < other._x

    def __len__(self):
        return len(self.items)

    def __iter__(self):
        return iter(self.items)

    def __contains__(self, v):
        return v in self.items

    def __getitem__(self, i):
        return self.items[i]

    def __repr__(self):
        return f"Base({self._x})"


class Derived(Base):
    KIND = "derived"

    def __init__(self, x=0, y=1):
        super().__init__(x)
        self.y = y

    def describe(self):
        return super().describe() + f"/{self.y}"


@dataclass
class Point:
    a: int = 0
    b: List[int] = field(default_factory=list)


@dataclass(frozen=True)
class Key:
    name: str
    idx: int = 0


def t_walrus():
    data = [1, 5, 9, 12]
    out = []
    for v in data:
        if (d := v * 2) > 9:
            out.append(d)
    return out


def t_generator():
    def gen(n):
        for i in range(n):
            if i % 2:
                yield i
        yield 100
    return list(gen(7)) + [sum(gen(4))]


def t_generator_send_free():
    def pairs(xs):
        prev = None
        for x in xs:
            if prev is not None:
                yield (prev, x)
            prev = x
    return [a + b for a, b in pairs([1, 2, 3, 4])]


def t_yield_from():
    def inner():
        yield 1
        yield 2
    def outer():
        yield 0
        yield from inner()
        yield 3
    return list(outer())


def t_itertools():
    a = list(chain([1, 2], (3,), {4}))
    b = list(product("ab", repeat=2))
    c = list(itertools.chain.from_iterable([[1], [2, 3]]))
    d = list(itertools.islice(itertools.count(5), 3))
    e = [list(g) for _, g in itertools.groupby([1, 1, 2, 3, 3])]
    f = list(itertools.zip_longest([1, 2], [3], fillvalue=0))
    g = list(itertools.combinations([1, 2, 3], 2))
    h = list(itertools.accumulate([1, 2, 3]))
    return a, b, c, d, e, f, g, h


def t_functools():
    add3 = partial(operator.add, 3)
    return reduce(lambda a, b: a * b, [1, 2, 3, 4], 1), add3(4), reduce(operator.or_, [{1}, {2}], set())


def t_lru_cache():
    calls = []

    @lru_cache(maxsize=None)
    def sq(x):
        calls.append(x)
        return x * x
    r = [sq(2), sq(2), sq(3)]
    sq.cache_clear()
    r.append(sq(2))
    return r, calls


def t_cache_method():
    @functools.lru_cache
    def f(x):
        return x + 1
    return f(1), f(1)


def t_deque():
    d = deque([1, 2, 3])
    d.append(4)
    d.appendleft(0)
    a = d.popleft()
    b = d.pop()
    d.extend([7, 8])
    return a, b, list(d), len(d), bool(d)


def t_worklist_deque():
    graph = {0: [1, 2], 1: [3], 2: [3], 3: []}
    seen, order = set(), []
    wl = deque([0])
    while wl:
        n = wl.popleft()
        if n in seen:
            continue
        seen.add(n)
        order.append(n)
        wl.extend(graph[n])
    return order


def t_collections():
    c = Counter("abca")
    od = OrderedDict()
    od["x"] = 1
    od["y"] = 2
    dd = defaultdict(list)
    dd["k"].append(1)
    P = namedtuple("P", ["u", "v"])
    p = P(1, 2)
    return sorted(c.items()), list(od.items()), dict(dd), p.u + p.v, tuple(p)


def t_copy():
    b = Derived(3, 4)
    b.items.append(1)
    c = copy.copy(b)
    c.items.append(2)
    d = copy.deepcopy(b)
    d.items.append(3)
    return b.items, c.items, d.items, c.y, c is b, d == b


def t_math():
    return math.floor(2.5), math.ceil(2.1), max(1, 2), min([3, 1]), abs(-2), divmod(7, 2), pow(2, 5), round(2.6), 7 // 2, 7 % 3, 2 ** 10


def t_cast():
    v = cast(int, "7")
    w: Optional[int] = cast("Optional[int]", None)
    return v, w


def t_enum():
    return [c.name for c in Color], Color(2).name, Color["RED"].value, Color.BLUE.value, Color.RED is Color.RED, Color.RED == Color.GREEN, len(Color), Color.RED in (Color.RED, Color.BLUE)


def t_class_features():
    b = Base.make(5)
    b.x = 7
    d = Derived(1, 2)
    d.items.extend([4, 5])
    return (b.x, Base.twice(4), b.describe(), d.describe(), d == Base(1), len(d), list(d), 4 in d, d[1], sorted([Base(3), Base(1)])[0].x,
            isinstance(d, Base), issubclass(Derived, Base), type(d).__name__, d.__class__.__name__, repr(b), {Base(1), Base(1)} == {Base(1)}, getattr(d, "y"), getattr(d, "zz", None), hasattr(d, "y"))


def t_dataclass():
    p, q = Point(), Point()
    p.b.append(1)
    k = Key("a", 1)
    return p.a, p.b, q.b, p == Point(0, [1]), k == Key("a", 1), {k: 1}[Key("a", 1)], k.name


def t_closures():
    def counter():
        n = 0
        def inc(by=1):
            nonlocal n
            n += by
            return n
        return inc
    c = counter()
    c()
    c(5)
    return c(), [f(2) for f in [lambda x, k=k: x + k for k in range(3)]]


_G = 0


def t_global():
    global _G
    _G += 1
    return _G > 0


def t_control():
    out = []
    for i in range(5):
        if i == 1:
            continue
        if i == 4:
            break
        out.append(i)
    else:
        out.append("nobreak")
    n = 0
    while n < 3:
        n += 1
    else:
        out.append("wdone")
    try:
        [][1]
    except (IndexError, KeyError) as e:
        out.append(type(e).__name__)
    finally:
        out.append("fin")
    try:
        raise ValueError("x")
    except ValueError as e:
        out.append(str(e))
    try:
        out.append(int("12"))
    except ValueError:
        out.append("bad")
    else:
        out.append("else")
    assert out, "nonempty"
    return out


def t_custom_exception():
    class MyErr(Exception):
        def __init__(self, msg, code):
            super().__init__(msg)
            self.code = code
    try:
        raise MyErr("boom", 3)
    except MyErr as e:
        return e.code, str(e)


def t_unpacking():
    a, *b = [1, 2, 3]
    (c, d), e = (1, 2), 3
    f = [*b, *[9]]
    g = {**{"a": 1}, "b": 2}
    def h(*args, **kw):
        return args, sorted(kw.items())
    x = y = 5
    return a, b, c, d, e, f, g, h(1, *[2, 3], k=1, **{"z": 2}), x + y


def t_slicing():
    s = [0, 1, 2, 3, 4, 5]
    t = "hello"
    s2 = list(s)
    s2[1:3] = [9]
    del s2[0]
    return s[1:], s[:-1], s[::2], s[::-1], s[-2:], t[1:3], t[::-1], s2, s[-1], t[-1]


def t_strings():
    s = "  Hello, World  "
    return (s.strip(), s.lower(), s.upper(), s.split(","), "a-b".partition("-"), "x".join(["1", "2"]), s.startswith("  H"), s.strip().endswith("d"), "abc".replace("b", "x"),
            "%s=%d" % ("k", 3), "{}:{:>3}".format("a", 7), f"{3:02d}|{'x'!r}|{1.5:.1f}", "a,b".rsplit(",", 1), "abc".find("c"), "abc".index("b"), "7".isdigit(), "ab".isalpha(),
            "a\nb".splitlines(), "abc".zfill(5), "x".ljust(3, "."), "abc".count("b"), "A".isupper(), "a b".title(), len("abc"), "b" in "abc", "ab" * 2, ord("a"), chr(98), "abc".encode().hex(),
            bytes.fromhex("6162").decode(), int("ff", 16), int("0x1f", 0), hex(255), oct(8), bin(5), str(12), repr("q"), "abc".removeprefix("a"), "abc".removesuffix("c"))


def t_comprehensions():
    m = {k: v for k, v in zip("abc", range(3)) if v}
    s = {x % 3 for x in range(7)}
    l = [(i, j) for i in range(3) for j in range(i) if (i + j) % 2]
    g = sum(x * x for x in range(4))
    n = [[y for y in range(x)] for x in range(3)]
    return m, sorted(s), l, g, n, any(x > 2 for x in range(4)), all(x for x in [1, 0])


def t_builtins():
    xs = [3, 1, 2]
    return (sorted(xs, reverse=True), sorted(["b", "A"], key=str.lower), list(reversed(xs)), list(enumerate(xs, 1)), list(zip(xs, "abc")), list(map(str, xs)), list(filter(None, [0, 1, 2])),
            sum(xs), len(xs), min(xs, default=0), max([], default=-1), list(range(5, 0, -2)), dict(a=1), dict([("k", 2)]), set([1, 1]), frozenset([1]) == frozenset([1]), tuple(xs), bool([]),
            isinstance(1, (int, str)), isinstance(True, int), callable(len), next(iter(xs)), next(iter([]), "d"), id(xs) == id(xs), type(1) is int, type("a") == str)


def t_dict_set_methods():
    d = {"a": 1}
    d.setdefault("b", []).append(1)
    d.update({"c": 3}, e=5)
    p = d.pop("a")
    q = d.pop("zz", None)
    s = {1, 2, 3}
    s.discard(9)
    s.remove(1)
    s |= {7}
    s &= {2, 7, 8}
    t = s.copy()
    t.update([5])
    return (sorted(d.keys()), d.get("c"), d.get("zz", 0), p, q, sorted(s), sorted(t), s.issubset(t), s <= t, s < s, s.isdisjoint({1}), s.union({0}) == {0, 2, 7}, s.intersection({2}) == {2},
            s.difference({2}), s.symmetric_difference({2, 3}) == {7, 3}, s - {7}, s ^ {7}, list(d.items())[0], "b" in d, len(d), dict.fromkeys(["x"], 0), {**d}["c"], list(d), d.copy() == d)


def t_list_methods():
    l = [1, 2, 3]
    l.insert(0, 0)
    l.extend([4])
    l.remove(2)
    i = l.index(3)
    l.reverse()
    p = l.pop(0)
    l.sort()
    l2 = l + [9]
    l += [10]
    l3 = l * 2
    c = l.count(1)
    l.clear()
    return i, p, l2, l3, c, l, [1, 2] == [1, 2], [1, 2] < [1, 3], (1, 2) + (3,)


def t_chained_compare_and_bool():
    x = 5
    return 1 < x <= 5, 1 < x < 3, x if x else 0, x and None, x or 7, not x, None is None, x is not None, 0 or [] or "z", 1 == 1.0, (x > 3) + 1, x in range(10), -x, +x, ~x, x & 3, x | 8, x ^ 1, x << 2, x >> 1


def t_namedtuple_class():
    class R(NamedTuple):
        a: int
        b: str = "z"
    r = R(1)
    return r.a, r.b, r[0], tuple(r), r._replace(a=2).a


def t_match_isinstance_dispatch():
    table = {int: "i", str: "s"}
    out = []
    for v in (1, "a", 2.0):
        out.append(table.get(type(v), "?"))
    handlers = {"add": operator.add, "mul": operator.mul}
    return out, handlers["mul"](3, 4), operator.itemgetter(1)([5, 6]), operator.attrgetter("y")(Derived(0, 9))


def t_iter_protocol():
    it = iter([1, 2, 3])
    a = next(it)
    rest = list(it)
    z = list(zip(*[[1, 2], [3, 4]]))
    return a, rest, z


def t_recursion_default_kwonly():
    def f(n, *, acc=None):
        acc = [] if acc is None else acc
        if n == 0:
            return acc
        acc.append(n)
        return f(n - 1, acc=acc)
    return f(3)


def t_sorted_stability_tuple_keys():
    rows = [("b", 2), ("a", 2), ("c", 1)]
    return sorted(rows, key=lambda r: (r[1], r[0])), sorted(rows, key=operator.itemgetter(1)), max(rows, key=lambda r: r[1]), min(rows, key=lambda r: r[0])


def t_int_methods_and_bytes():
    return (5).bit_length(), (1024).to_bytes(2, "big"), int.from_bytes(b"\x01\x00", "big"), b"ab" + b"c", len(b"abc"), b"abc"[0], bytes([65, 66]), b"ab".decode("utf-8"), bytearray(b"a") + b"b" == b"ab"


def t_staticmethod_via_instance_and_class_attr_mutation():
    class T:
        registry: List[str] = []
        count = 0

        @classmethod
        def reg(cls, n):
            cls.registry.append(n)
            cls.count += 1
            return cls.count
    T.reg("a")
    t = T()
    t.reg("b")
    return T.registry, T.count, t.count


def t_lambda_sort_in_place_and_any_all_gen():
    bs = [Base(3), Base(1), Base(2)]
    bs.sort(key=lambda b: b.x)
    return [b.x for b in bs], any(b.x == 2 for b in bs), all(isinstance(b, Base) for b in bs)


def t_with_contextmanager():
    import contextlib
    log = []

    @contextlib.contextmanager
    def cm(tag):
        log.append("in " + tag)
        try:
            yield tag.upper()
        finally:
            log.append("out " + tag)
    with cm("a") as v:
        log.append(v)
    with contextlib.suppress(KeyError):
        {}["x"]
        log.append("unreached")
    return log


def t_abstract_and_super_chain():
    from abc import ABC, abstractmethod

    class A(ABC):
        @abstractmethod
        def f(self):
            ...

        def g(self):
            return "g" + self.f()

    class B(A):
        def f(self):
            return "b"

    class C(B):
        def f(self):
            return "c" + super().f()
    return C().g(), B().g()


def t_string_constants_and_textwrap():
    import string
    return string.digits, string.ascii_lowercase[:3], string.hexdigits[-1]


def t_frozenset_dict_keys_and_tuple_hash():
    d = {(1, "a"): 1, frozenset([1, 2]): 2}
    return d[(1, "a")], d[frozenset([2, 1])], (1, 2) in {(1, 2)}


def t_conditional_expression_chain_and_early_return():
    def kind(v):
        if v is None:
            return "none"
        elif isinstance(v, bool):
            return "bool"
        elif isinstance(v, int):
            return "int" if v >= 0 else "neg"
        return "other"
    return [kind(v) for v in (None, True, 3, -1, "s")]


def t_star_expr_in_call_and_keyword_only_defaults():
    def f(a, b=2, *rest, c=3, **kw):
        return a, b, rest, c, kw
    return f(1), f(1, 5, 6, 7, c=9, d=1), f(*(1, 2), **{"c": 0})


def t_try_return_finally_order():
    log = []
    def f():
        try:
            log.append("t")
            return "r"
        finally:
            log.append("f")
    return f(), log


def t_exception_propagation_through_frames():
    def inner(d, k):
        return d[k]
    def outer(d):
        try:
            return inner(d, "missing")
        except KeyError as e:
            return "KeyError " + str(e)
    return outer({})


def t_int_str_conversions_errors():
    out = []
    for s in ("12", "0x1", "1_0", "", "ab"):
        try:
            out.append(int(s))
        except ValueError:
            out.append("VE")
    return out


def t_nested_functions_defaults_mutable():
    def f(x, acc=[]):
        acc.append(x)
        return list(acc)
    return f(1), f(2)


def t_is_identity_lists_and_aliasing():
    a = [1]
    b = a
    c = list(a)
    b.append(2)
    return a, c, a is b, a is not c, a == [1, 2]


def t_print_and_format_do_not_crash():
    print("ignored", 1, sep=",", end="")
    return "ok"


@dataclass(order=True)
class Ver:
    major: int
    minor: int = 0


class Slotted:
    __slots__ = ("a", "b")

    def __init__(self, a, b):
        self.a = a
        self.b = b


def t_dataclass_order_replace():
    import dataclasses
    vs = sorted([Ver(2, 1), Ver(1, 9), Ver(2)])
    r = dataclasses.replace(vs[0], minor=3)
    return [(v.major, v.minor) for v in vs], (r.major, r.minor), Ver(1) < Ver(1, 1), dataclasses.asdict(Ver(4, 5)), [f.name for f in dataclasses.fields(Ver)]


def t_slots_and_dict_merge():
    s = Slotted(1, 2)
    d = {"a": 1} | {"b": 2}
    d |= {"c": 3}
    return s.a + s.b, d, list(d)


def t_match_statement():
    def f(v):
        match v:
            case 0:
                return "zero"
            case [x, y]:
                return f"pair {x} {y}"
            case {"k": val}:
                return f"map {val}"
            case str() as s2:
                return "str " + s2
            case Ver(major=m):
                return f"ver {m}"
            case int() | float():
                return "num"
            case _:
                return "other"
    return [f(v) for v in (0, [1, 2], {"k": 3}, "s", Ver(7), 2.5, None)]


def t_generator_return_and_try():
    def g():
        try:
            yield 1
            yield 2
            return
            yield 3
        finally:
            pass
    def h():
        for i in range(3):
            try:
                if i == 1:
                    raise ValueError("x")
                yield i
            except ValueError:
                yield -1
    return list(g()), list(h())


def t_property_deleter_and_class_getattr():
    class P:
        def __init__(self):
            self._v = 1

        @property
        def v(self):
            return self._v

        @v.setter
        def v(self, x):
            self._v = x * 2

        def __getattr__(self, name):
            if name.startswith("dyn_"):
                return name[4:]
            raise AttributeError(name)
    p = P()
    p.v = 5
    try:
        p.nope
        r = "no error"
    except AttributeError as e:
        r = "AE " + str(e)
    return p.v, p.dyn_x, r


def t_singledispatch_free_total_ordering():
    from functools import total_ordering

    @total_ordering
    class K:
        def __init__(self, n):
            self.n = n

        def __eq__(self, o):
            return self.n == o.n

        def __lt__(self, o):
            return self.n < o.n

        def __hash__(self):
            return hash(self.n)
    return K(1) < K(2), K(2) > K(1), K(1) <= K(1), K(3) >= K(4), max(K(1), K(5)).n, sorted([K(3), K(1)])[0].n


def t_enumerate_zip_strict_formatmap():
    return list(enumerate("ab", start=2)), "{a}-{b}".format_map({"a": 1, "b": 2}), list(zip([1, 2], [3, 4], strict=True)), "x".center(5, "*"), "a\tb".expandtabs(4), " a b ".split(), "a,b,,c".split(",", 2)


def t_list_membership_uses_eq():
    ks = [Key("a", 1), Key("b", 2)]
    return Key("a", 1) in ks, ks.index(Key("b", 2)), ks.count(Key("a", 1)), Key("z") in ks, [Point(1, [2])] == [Point(1, [2])], Point(1) in [Point(2), Point(1)]


def t_set_of_objects_and_frozen_hash():
    s = {Key("a", 1), Key("a", 1), Key("b", 1)}
    d = {}
    d[Key("a", 1)] = "x"
    d[Key("a", 1)] = "y"
    return len(s), len(d), d[Key("a", 1)], Key("a", 1) in s


def t_bool_int_arith_and_comparisons_of_containers():
    return True + True, sum([True, False, True]), [1, [2, 3]] == [1, [2, 3]], (1, 2) < (1, 3), {1: [2]} == {1: [2]}, {1, 2} == {2, 1}, "a" < "b", [] == (), not [], None == 0


def t_while_with_pop_worklist_and_visited():
    graph = {"a": ["b", "c"], "b": ["d"], "c": ["d"], "d": []}
    seen, order, wl = set(), [], ["a"]
    while wl:
        n = wl.pop()
        if n in seen:
            continue
        seen.add(n)
        order.append(n)
        wl.extend(reversed(graph[n]))
    return order


def t_nested_data_mutation_through_alias():
    table = {"x": [1], "y": [2]}
    alias = table["x"]
    alias.append(3)
    snapshot = {k: list(v) for k, v in table.items()}
    table["y"] += [4]
    vals = table.values()
    return table, snapshot, sorted(map(len, vals)), list(table.items())[0][1] is alias


def t_str_methods_more():
    return ("a-b_c".replace("-", " ").split(), "Hello".swapcase(), "x=1;y=2".split(";")[1].split("="), "%05.1f|%-4s|%x" % (3.14159, "ab", 255), "abc"[::2], "abc" > "abd", "  x".lstrip(), "x\n".rstrip("\n"),
            "a.b.c".rpartition("."), "ab".encode("utf-8"), b"ab".hex(), str(b"ab", "utf-8"), "é".encode("utf-8"), int("-12"), float("1.5"), str(1.0), repr(1e3), "1,2".split(",") == ["1", "2"], "abc".casefold(), "TeAL".lower().startswith(("te", "x")))


def t_exceptions_more():
    out = []
    try:
        try:
            raise KeyError("k")
        except KeyError as e:
            raise ValueError("wrapped") from e
    except ValueError as e2:
        out.append((type(e2).__name__, str(e2), type(e2.__cause__).__name__ if e2.__cause__ else None))
    try:
        assert 1 == 2, "msg"
    except AssertionError as e3:
        out.append(str(e3))
    try:
        {}.pop("x")
    except LookupError as e4:
        out.append(type(e4).__name__)
    try:
        1 / 0
    except ArithmeticError:
        out.append("arith")
    try:
        raise NotImplementedError
    except RuntimeError as e5:
        out.append(type(e5).__name__)
    try:
        None.x
    except AttributeError:
        out.append("attr")
    try:
        [1][5]
    except Exception as e6:
        out.append(e6.args[0])
    return out


class ToolError(Exception):
    pass


def _load(fail):
    if fail:
        try:
            raise FileNotFoundError("f")
        except FileNotFoundError as e:
            raise ToolError from e
    return "loaded"


def t_unbound_local_and_empty_exception(fail=True):
    out = []
    error = None
    try:
        thing = _load(fail)
    except ToolError as e:
        error = str(e)
    out.append(error)
    out.append(bool(error))
    try:
        out.append(thing)
    except UnboundLocalError as e2:
        out.append(type(e2).__name__)
    try:
        out.append(thing)
    except NameError:
        out.append("name error too")
    out.append(str(ToolError("a", 2)))
    return out
'''


def plain(v, depth=0):
    """comparable plain form of concrete or abstract results"""
    if isinstance(v, EnumMember):
        return ("enum", v.name)
    if isinstance(v, Obj):
        return ("obj", v.cls.name)
    if isinstance(v, (list, collections_deque)):
        return [plain(x) for x in v]
    if isinstance(v, tuple):
        return tuple(plain(x) for x in v)
    if isinstance(v, (set, frozenset)):
        return ("set", sorted(map(repr, (plain(x) for x in v))))
    if isinstance(v, dict):
        return {repr(plain(k)): plain(x) for k, x in v.items()}
    if isinstance(v, bytearray):
        return bytes(v)
    import enum
    if isinstance(v, enum.Enum):
        return ("enum", v.name)
    if type(v).__module__ == "conf_real":
        return ("obj", type(v).__name__)
    return v


import collections
collections_deque = collections.deque


def main():
    verbose = "-v" in sys.argv
    tmp = pathlib.Path(tempfile.mkdtemp(prefix="evalconf_", dir="/tmp"))
    try:
        (tmp / "tealer").mkdir()
        (tmp / "tealer" / "__init__.py").write_text("")
        (tmp / "tealer" / "conf.py").write_text(BATTERY)
        import types
        real = types.ModuleType("conf_real")
        sys.modules["conf_real"] = real
        exec(compile(BATTERY, "conf_real", "exec"), real.__dict__)
        names = [n for n in real.__dict__ if n.startswith("t_")]
        bad = 0
        for n in names:
            import io, contextlib
            with contextlib.redirect_stdout(io.StringIO()):
                want = plain(getattr(real, n)())
            w = World(str(tmp))
            try:
                got = plain(w.call(w.func("tealer.conf", n)))
            except PyRaise as e:
                got = f"RAISES {e.exc} {e.where}"
            except Unsupported as e:
                got = f"UNSUPPORTED {e}"
            except Exception as e:  # evaluator crash
                got = f"CRASH {type(e).__name__}: {e}"
            ok = got == want
            bad += not ok
            if verbose or not ok:
                print(("ok   " if ok else "FAIL ") + n)
                if not ok:
                    print("   want:", repr(want)[:400])
                    print("   got: ", repr(got)[:400])
        print(f"{len(names) - bad}/{len(names)} conform")
        return 1 if bad else 0
    finally:
        shutil.rmtree(tmp, ignore_errors=True)


if __name__ == "__main__":
    sys.exit(main())
