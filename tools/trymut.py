"""Developer helper: run checks on a scratch copy of /repo/tealer with one textual edit or a patch applied.
usage: trymut.py <props,comma> <file-relative-to-repo> <old> <new>     |   trymut.py <props> --patch <diff>"""
import os, shutil, subprocess, sys, tempfile, pathlib
props = sys.argv[1].split(",")
tmp = pathlib.Path(tempfile.mkdtemp(prefix="mut_", dir="/tmp"))
try:
    shutil.copytree("/repo/tealer", tmp / "tealer")
    if sys.argv[2] == "--patch":
        r = subprocess.run(["patch", "-p1", "-s", "-i", os.path.abspath(sys.argv[3])], cwd=tmp)
        if r.returncode:
            sys.exit("patch failed")
    else:
        f = tmp / sys.argv[2]
        s = f.read_text()
        old, new = sys.argv[3], sys.argv[4]
        if s.count(old) < 1:
            sys.exit(f"pattern not found in {f}")
        f.write_text(s.replace(old, new, 1))
    import ast
    for p in (tmp / "tealer").rglob("*.py"):
        ast.parse(p.read_text())
    for pr in props:
        r = subprocess.run(["/verif/check", pr, "--root", str(tmp), "--evidence-dir", str(tmp / "ev")], capture_output=True, text=True)
        lines = [l for l in (r.stdout + r.stderr).splitlines() if "KNOWN-FINDING" not in l]
        print(f"== {pr} exit={r.returncode}")
        for l in lines[:8]:
            print("   ", l[:260].replace(str(tmp) + "/", ""))
finally:
    shutil.rmtree(tmp, ignore_errors=True)
