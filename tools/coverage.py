"""Which functions of /repo/tealer does the abstract evaluator execute while the quick checks run?  Lists the functions no check
evaluates (candidates for coverage gaps; structural rules that only read syntax trees do not count here).
usage: coverage.py [ID ...]"""
import ast, json, pathlib, sys
sys.path.insert(0, str(pathlib.Path(__file__).resolve().parent.parent))
sys.setrecursionlimit(20000)
from sa import absint, props
from sa.context import Ctx
from sa.report import Report

ids = sys.argv[1:] or sorted(props.PROPS)
absint.COVERAGE = set()
absint.BRANCHES = set()
per = {}
for pid in ids:
    before = set(absint.COVERAGE)
    ctx = Ctx("/repo")
    rep = Report(pid, "quick", 0, "/repo")
    props.run(pid, ctx, rep)
    per[pid] = absint.COVERAGE - before
    print(pid, "functions evaluated:", len({(m, n, l) for m, n, l in absint.COVERAGE if m.startswith("tealer")}), "errors:", rep.errors[:1], file=sys.stderr)
allf = {}
ctx = Ctx("/repo")
for modname, tree in ctx.trees.items():
    def walk(node, prefix):
        for ch in ast.iter_child_nodes(node):
            if isinstance(ch, ast.FunctionDef):
                allf[(modname, ch.name, ch.lineno)] = prefix + ch.name
                walk(ch, prefix + ch.name + ".")
            elif isinstance(ch, ast.ClassDef):
                walk(ch, prefix + ch.name + ".")
            else:
                walk(ch, prefix)
    walk(tree, "")
cov = {k for k in absint.COVERAGE if k in allf}
missing = sorted(set(allf) - cov)
print(f"{len(cov)}/{len(allf)} functions evaluated")
by_mod = {}
for m, n, l in missing:
    by_mod.setdefault(m, []).append(f"{allf[(m, n, l)]}:{l}")
for m in sorted(by_mod):
    names = by_mod[m]
    print(f"{m} ({len(names)}): " + ", ".join(names[:40]) + (" ..." if len(names) > 40 else ""))


# ---- branch sides never taken, in the modules the properties are anchored in
FOCUS = ("tealer.detectors.", "tealer.analyses.", "tealer.teal.parse_teal", "tealer.teal.parse_functions", "tealer.teal.functions", "tealer.teal.basic_blocks",
         "tealer.teal.subroutine", "tealer.utils.analyses", "tealer.utils.output", "tealer.utils.regex", "tealer.execution_context", "tealer.utils.command_line",
         "tealer.__main__", "tealer.tealer", "tealer.printers", "tealer.teal.instructions.parse_", "tealer.utils.teal_enums")
print()
print("branch sides never evaluated (module:line outcome):")
n_all = n_miss = 0
for modname, tree in sorted(ctx.trees.items()):
    if not modname.startswith(FOCUS):
        continue
    src = pathlib.Path("/repo", tree._path).read_text().splitlines()
    out = []
    for node in ast.walk(tree):
        if isinstance(node, (ast.If, ast.IfExp)):
            if isinstance(node, ast.If) and ast.unparse(node.test) in ("TYPE_CHECKING", "__name__ == '__main__'"):
                continue
            for side in (True, False):
                n_all += 1
                if (modname, node.lineno, side) not in absint.BRANCHES:
                    n_miss += 1
                    out.append(f"{node.lineno}:{'T' if side else 'F'} {src[node.lineno - 1].strip()[:70]}")
    if out:
        print(f"{modname} ({len(out)}):")
        for o in sorted(out, key=lambda x: int(x.split(':')[0])):
            print("    " + o)
print(f"{n_all - n_miss}/{n_all} branch sides evaluated in the focus modules")
