"""Which functions of /repo/tealer does the abstract evaluator execute while the quick checks run?  Lists the functions no check
evaluates (candidates for coverage gaps; structural rules that only read syntax trees do not count here).
usage: coverage.py [ID ...]"""
import ast, json, pathlib, sys
sys.path.insert(0, str(pathlib.Path(__file__).resolve().parent.parent))
sys.setrecursionlimit(20000)
from sa import absint, props
from sa.context import Ctx
from sa.report import Report

ids = sys.argv[1:] or sorted(props.PROPS)
absint.COVERAGE = set()
per = {}
for pid in ids:
    before = set(absint.COVERAGE)
    ctx = Ctx("/repo")
    rep = Report(pid, "quick", 0, "/repo")
    props.run(pid, ctx, rep)
    per[pid] = absint.COVERAGE - before
    print(pid, "functions evaluated:", len({(m, n, l) for m, n, l in absint.COVERAGE if m.startswith("tealer")}), "errors:", rep.errors[:1], file=sys.stderr)
allf = {}
ctx = Ctx("/repo")
for modname, tree in ctx.trees.items():
    def walk(node, prefix):
        for ch in ast.iter_child_nodes(node):
            if isinstance(ch, ast.FunctionDef):
                allf[(modname, ch.name, ch.lineno)] = prefix + ch.name
                walk(ch, prefix + ch.name + ".")
            elif isinstance(ch, ast.ClassDef):
                walk(ch, prefix + ch.name + ".")
            else:
                walk(ch, prefix)
    walk(tree, "")
cov = {k for k in absint.COVERAGE if k in allf}
missing = sorted(set(allf) - cov)
print(f"{len(cov)}/{len(allf)} functions evaluated")
by_mod = {}
for m, n, l in missing:
    by_mod.setdefault(m, []).append(f"{allf[(m, n, l)]}:{l}")
for m in sorted(by_mod):
    names = by_mod[m]
    print(f"{m} ({len(names)}): " + ", ".join(names[:40]) + (" ..." if len(names) > 40 else ""))
