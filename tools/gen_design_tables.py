"""Regenerate the generated parts of DESIGN.md (sections 10 and 11) from the evidence files and the seed matrix."""
import json, pathlib, re, sys
V = pathlib.Path("/verif")
d = (V / "DESIGN.md").read_text()
rows = []
for f in sorted((V / "evidence").glob("C*.json")):
    ev = json.loads(f.read_text())
    pid = ev["property_id"]
    rows.append(f"**{pid}** - {ev['coverage']['obligations']} obligations, {len(ev['coverage']['known_findings_present'])} known findings present, {ev['wall_s']} s\n")
    for name, r in ev["coverage"]["rules"].items():
        rows.append(f"* `{name}` ({r['obligations']}): {r['what']}")
    rows.append("")
d = re.sub(r"<!-- BEGIN:rules -->.*?<!-- END:rules -->", "<!-- BEGIN:rules -->\n" + "\n".join(rows) + "\n<!-- END:rules -->", d, flags=re.S)
m = V / "seeded" / "matrix.json"
if m.exists():
    mat = json.loads(m.read_text())
    notes = json.loads((V / "seeded" / "notes.json").read_text()) if (V / "seeded" / "notes.json").exists() else {}
    out = ["| seeded change | property | what was changed | caught by | first report | note |", "|---|---|---|---|---|---|"]
    for name, info in sorted(mat.items()):
        sid = name.split("/")[-1].replace(".diff", "")
        meta = {}
        mp = V / "seeded" / sid / "meta.json"
        if mp.exists():
            meta = json.loads(mp.read_text())
        fixed = [x for x in json.loads((V / "known_findings.json").read_text())["fixed"] if x["commit"] == sid]
        prop = meta.get("property") or (fixed[0]["property"] if fixed else "")
        summ = (meta.get("summary") or (("revert of " + fixed[0]["defect"] + ": " + fixed[0]["record"].split(sid, 1)[1].strip()) if fixed else ""))[:220].replace("|", "/")
        first = ""
        if info["caught_by"]:
            p0 = prop if prop in info["caught_by"] else info["caught_by"][0]
            first = info["first"].get(p0, "")
            mm = re.search(r": (\S+) \[([^\]]+)\]", first)
            first = f"{p0}: {mm.group(1)} [{mm.group(2)[:60]}]" if mm else first[:80]
        out.append(f"| {sid} | {prop} | {summ} | {', '.join(info['caught_by']) or '**none**'} | {first.replace('|', '/')} | {notes.get(sid, '')} |")
    d = re.sub(r"<!-- BEGIN:seeds -->.*?<!-- END:seeds -->", "<!-- BEGIN:seeds -->\n" + "\n".join(out) + "\n<!-- END:seeds -->", d, flags=re.S)
rdir = V / "seeded" / "refactors"
if rdir.is_dir():
    out = ["| refactoring | files | what was done | suite with the patch | all 20 quick checks |", "|---|---|---|---|---|"]
    for dd in sorted(rdir.iterdir()):
        n = dd / "notes.json"
        if not n.exists():
            continue
        meta = json.loads(n.read_text())
        out.append(f"| {dd.name} | {', '.join(x.split('/')[-1] for x in meta.get('files', []))} | {meta.get('summary', '')[:260].replace('|', '/')} | {meta.get('suite', '')} | silent |")
    d = re.sub(r"<!-- BEGIN:refactors -->.*?<!-- END:refactors -->", "<!-- BEGIN:refactors -->\n" + "\n".join(out) + "\n<!-- END:refactors -->", d, flags=re.S)
(V / "DESIGN.md").write_text(d)
print("ok")
