"""Run every claimed check against every seeded change (on a scratch copy of /repo/tealer) and print the detection matrix.
usage: seed_matrix.py [dir-with-patch.diff ...]   (default: /verif/seeded/*)"""
import concurrent.futures, json, os, pathlib, shutil, subprocess, sys, tempfile
sys.path.insert(0, "/verif")
from sa import props
PROPS = sorted(props.PROPS)

def one(seed):
    seed = pathlib.Path(seed).resolve()
    tmp = pathlib.Path(tempfile.mkdtemp(prefix="seedm_", dir="/tmp"))
    res = {}
    try:
        shutil.copytree("/repo/tealer", tmp / "tealer")
        r = subprocess.run(["patch", "-p1", "-s", "-i", str(seed / "patch.diff") if seed.is_dir() else str(seed)], cwd=tmp, capture_output=True, text=True)
        if r.returncode:
            return str(seed), {"_patch": "FAILED " + r.stdout[:200]}
        for p in PROPS:
            r = subprocess.run(["/verif/check", p, "--root", str(tmp), "--evidence-dir", str(tmp / "ev"), "--quiet"], capture_output=True, text=True)
            first = [l for l in r.stdout.splitlines() if "KNOWN-FINDING" not in l and "VIOLATION" not in l][:1]
            res[p] = (r.returncode, first[0][:200].replace(str(tmp) + "/", "") if first and r.returncode else "")
    finally:
        shutil.rmtree(tmp, ignore_errors=True)
    return str(seed), res

seeds = sys.argv[1:] or sorted(str(p) for p in pathlib.Path("/verif/seeded").iterdir() if (p / "patch.diff").exists()) + \
    sorted(str(p) for p in pathlib.Path("/verif/seeded/reverts").glob("*.diff"))
with concurrent.futures.ThreadPoolExecutor(max_workers=8) as ex:
    results = list(ex.map(one, seeds))
out = {}
for seed, res in results:
    name = "/".join(pathlib.Path(seed).parts[-2:])
    if "_patch" in res:
        print(name, res); continue
    caught = [p for p, (rc, _) in res.items() if rc == 1]
    errs = [p for p, (rc, _) in res.items() if rc not in (0, 1)] if "_patch" not in res else ["patch"]
    print(f"{name:28s} caught_by={caught} errors={errs}")
    for p in caught[:2]:
        print(f"      {p}: {res[p][1]}")
    for p in errs:
        if p != "patch":
            print(f"      {p}: ERR {res[p][1]}")
    out[name] = {"caught_by": caught, "errors": errs, "first": {p: res[p][1] for p in caught}}
json.dump(out, open("/tmp/seed_matrix.json", "w"), indent=1)
