"""Run every claimed check against every seeded change (on a scratch copy of /repo/tealer) and print the detection matrix.
usage: seed_matrix.py [dir-with-patch.diff ...]   (default: /verif/seeded/*)"""
import concurrent.futures, json, os, pathlib, shutil, subprocess, sys, tempfile
sys.path.insert(0, "/verif")
from sa import props
PROPS = sorted(props.PROPS)

OLD = {}
if "--targeted" in sys.argv:
    # run, for a seed already in seeded/matrix.json, only the checks that caught it there plus the check of its own property
    sys.argv.remove("--targeted")
    try:
        OLD = json.load(open("/verif/seeded/matrix.json"))
    except (OSError, ValueError):
        OLD = {}


def props_for(seed):
    name = "/".join(seed.parts[-2:])
    if name not in OLD:
        return PROPS
    want = set(OLD[name]["caught_by"])
    meta = seed / "meta.json" if seed.is_dir() else None
    if meta is not None and meta.exists():
        want.add(json.load(open(meta)).get("property"))
    else:
        fixed = [x for x in json.load(open("/verif/known_findings.json"))["fixed"] if x["commit"] == seed.stem]
        want |= {x["property"] for x in fixed}
    return [p for p in PROPS if p in want] or PROPS


def one(seed):
    seed = pathlib.Path(seed).resolve()
    tmp = pathlib.Path(tempfile.mkdtemp(prefix="seedm_", dir="/tmp"))
    res = {}
    try:
        shutil.copytree("/repo/tealer", tmp / "tealer")
        r = subprocess.run(["patch", "-p1", "-s", "-i", str(seed / "patch.diff") if seed.is_dir() else str(seed)], cwd=tmp, capture_output=True, text=True)
        if r.returncode:
            return str(seed), {"_patch": "FAILED " + r.stdout[:200]}
        for p in props_for(seed):
            r = subprocess.run(["/verif/check", p, "--root", str(tmp), "--evidence-dir", str(tmp / "ev"), "--quiet"], capture_output=True, text=True)
            first = [l for l in r.stdout.splitlines() if "KNOWN-FINDING" not in l and "VIOLATION" not in l][:1]
            res[p] = (r.returncode, first[0][:200].replace(str(tmp) + "/", "") if first and r.returncode else "")
    finally:
        shutil.rmtree(tmp, ignore_errors=True)
    return str(seed), res

seeds = sys.argv[1:] or sorted(str(p) for p in pathlib.Path("/verif/seeded").iterdir() if (p / "patch.diff").exists()) + \
    sorted(str(p) for p in pathlib.Path("/verif/seeded/reverts").glob("*.diff"))
with concurrent.futures.ThreadPoolExecutor(max_workers=8) as ex:
    results = list(ex.map(one, seeds))
out = {}
for seed, res in results:
    name = "/".join(pathlib.Path(seed).parts[-2:])
    if "_patch" in res:
        print(name, res); continue
    caught = [p for p, (rc, _) in res.items() if rc == 1]
    errs = [p for p, (rc, _) in res.items() if rc not in (0, 1)] if "_patch" not in res else ["patch"]
    print(f"{name:28s} caught_by={caught} errors={errs}")
    for p in caught[:2]:
        print(f"      {p}: {res[p][1]}")
    for p in errs:
        if p != "patch":
            print(f"      {p}: ERR {res[p][1]}")
    out[name] = {"caught_by": caught, "errors": errs, "first": {p: res[p][1] for p in caught}}
json.dump(out, open("/tmp/seed_matrix.json", "w"), indent=1)
