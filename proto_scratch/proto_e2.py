"""Throwaway prototype of E2: abstract evaluation of tealer's table-like functions from their AST.
Nothing from /repo is imported or executed by Python; this evaluator walks the syntax trees."""
import ast, pathlib, itertools, sys

ROOT = pathlib.Path('/repo')


class Unsupported(Exception):
    pass


class PyRaise(Exception):
    def __init__(self, exc):
        self.exc = exc


class ClassV:
    def __init__(self, mod, node):
        self.mod, self.node, self.name = mod, node, node.name
        self._bases = None

    def bases(self):
        if self._bases is None:
            out = []
            for b in self.node.bases:
                try:
                    v = self.mod.ev(b, {})
                except Unsupported:
                    v = None
                if isinstance(v, ClassV):
                    out.append(v)
                else:
                    out.append(('ext', ast.unparse(b)))
            self._bases = out
        return self._bases

    def mro(self):
        out = [self]
        for b in self.bases():
            if isinstance(b, ClassV):
                for c in b.mro():
                    if c not in out:
                        out.append(c)
        return out

    def ext_bases(self):
        s = set()
        for c in self.mro():
            for b in c.bases():
                if not isinstance(b, ClassV):
                    s.add(b[1])
        return s

    def is_sub(self, other):
        return other in self.mro()

    def find(self, name):
        for c in self.mro():
            for st in c.node.body:
                if isinstance(st, ast.FunctionDef) and st.name == name:
                    return c, st
                if isinstance(st, ast.Assign) and any(isinstance(t, ast.Name) and t.id == name for t in st.targets):
                    return c, st
                if isinstance(st, ast.AnnAssign) and isinstance(st.target, ast.Name) and st.target.id == name and st.value is not None:
                    return c, st
        return None, None

    def is_dataclass(self):
        return any('dataclass' in ast.unparse(d) for d in self.node.decorator_list)

    def is_enum(self):
        return any('Enum' in e for e in self.ext_bases())

    def __repr__(self):
        return f'<class {self.name}>'


class EnumMember:
    def __init__(self, cls, name, value):
        self.cls, self.name, self.value = cls, name, value

    def __eq__(self, o):
        return isinstance(o, EnumMember) and self.value == o.value

    def __hash__(self):
        return hash(self.value)

    def __repr__(self):
        return f'{self.cls.name}.{self.name}'


class Obj:
    def __init__(self, cls, **fields):
        self.cls, self.fields = cls, dict(fields)

    def __repr__(self):
        return f'{self.cls.name}({", ".join(f"{k}={v!r}" for k, v in self.fields.items())})'


class FuncV:
    def __init__(self, mod, node, closure=None, self_obj=None, owner=None):
        self.mod, self.node, self.closure, self.self_obj, self.owner = mod, node, closure or {}, self_obj, owner

    def __repr__(self):
        return f'<func {getattr(self.node, "name", "lambda")}>'


class Term:
    """opaque integer term over the symbolic constant c"""

    def __init__(self, s):
        self.s = s

    def __repr__(self):
        return self.s

    def __eq__(self, o):
        return isinstance(o, Term) and o.s == self.s

    def __hash__(self):
        return hash(self.s)


class Ret(Exception):
    def __init__(self, v):
        self.v = v


BUILTIN_TYPES = {'int': int, 'str': str, 'bool': bool, 'list': list, 'set': set, 'tuple': tuple, 'dict': dict}


class Module:
    cache = {}

    @classmethod
    def get(cls, dotted):
        if dotted not in cls.cache:
            p = ROOT / (dotted.replace('.', '/') + '.py')
            if not p.exists():
                p = ROOT / dotted.replace('.', '/') / '__init__.py'
            if not p.exists():
                return None
            cls.cache[dotted] = Module(dotted, ast.parse(p.read_text()))
        return cls.cache[dotted]

    def __init__(self, name, tree):
        self.name, self.tree = name, tree
        self.defs = {}
        self.imports = {}
        self.values = {}
        for st in tree.body:
            self._scan(st)

    def _scan(self, st):
        if isinstance(st, (ast.FunctionDef, ast.ClassDef)):
            self.defs[st.name] = st
        elif isinstance(st, ast.Assign):
            for t in st.targets:
                if isinstance(t, ast.Name):
                    self.defs[t.id] = st
        elif isinstance(st, ast.AnnAssign) and isinstance(st.target, ast.Name) and st.value is not None:
            self.defs[st.target.id] = st
        elif isinstance(st, ast.ImportFrom):
            for a in st.names:
                self.imports[a.asname or a.name] = (st.module, a.name)
        elif isinstance(st, ast.Import):
            for a in st.names:
                self.imports[a.asname or a.name.split('.')[0]] = (a.name, None)
        elif isinstance(st, ast.If):  # TYPE_CHECKING blocks
            for s in st.body:
                self._scan(s)

    def lookup(self, name):
        if name in self.values:
            return self.values[name]
        if name in self.defs:
            st = self.defs[name]
            if isinstance(st, ast.FunctionDef):
                v = FuncV(self, st)
            elif isinstance(st, ast.ClassDef):
                v = ClassV(self, st)
            else:
                # module-level statements executed in order up to this one (subscript stores etc.)
                v = self._module_value(name)
            self.values[name] = v
            return v
        if name in self.imports:
            m, n = self.imports[name]
            mod = Module.get(m)
            if mod is None:
                raise Unsupported(f'external import {m}.{n}')
            if n is None:
                return ('module', mod)
            if n in mod.defs or n in mod.imports:
                return mod.lookup(n)
            sub = Module.get(m + '.' + n)
            if sub is not None:
                return ('module', sub)
            raise Unsupported(f'cannot resolve {m}.{n}')
        raise KeyError(name)

    def _module_value(self, name):
        # evaluate all simple module-level assignments in order (cheap, pure)
        env = {}
        for st in self.tree.body:
            if isinstance(st, (ast.Assign, ast.AnnAssign)):
                try:
                    Interp(self).exec_stmt(st, env)
                except Unsupported:
                    pass
        for k, v in env.items():
            self.values.setdefault(k, v)
        if name not in env:
            raise Unsupported(f'module constant {self.name}.{name}')
        return env[name]

    def ev(self, node, env):
        return Interp(self).ev(node, env)


class Interp:
    def __init__(self, mod):
        self.mod = mod

    # ---- statements
    def exec_block(self, body, env):
        for st in body:
            self.exec_stmt(st, env)

    def exec_stmt(self, st, env):
        if isinstance(st, ast.Expr):
            if isinstance(st.value, ast.Constant):
                return
            self.ev(st.value, env)
        elif isinstance(st, ast.Return):
            raise Ret(self.ev(st.value, env) if st.value else None)
        elif isinstance(st, ast.Assign):
            v = self.ev(st.value, env)
            for t in st.targets:
                self.assign(t, v, env)
        elif isinstance(st, ast.AnnAssign):
            if st.value is not None:
                self.assign(st.target, self.ev(st.value, env), env)
        elif isinstance(st, ast.AugAssign):
            cur = self.ev(ast.Expression(st.target).body if False else st.target, env)
            v = self.binop(st.op, cur, self.ev(st.value, env))
            self.assign(st.target, v, env)
        elif isinstance(st, ast.If):
            if self.truth(self.ev(st.test, env)):
                self.exec_block(st.body, env)
            else:
                self.exec_block(st.orelse, env)
        elif isinstance(st, ast.For):
            for x in self.iterate(self.ev(st.iter, env)):
                self.assign(st.target, x, env)
                self.exec_block(st.body, env)
        elif isinstance(st, ast.Pass):
            pass
        elif isinstance(st, ast.Assert):
            if not self.truth(self.ev(st.test, env)):
                raise PyRaise('AssertionError')
        elif isinstance(st, ast.Raise):
            raise PyRaise(ast.unparse(st.exc) if st.exc else 'reraise')
        elif isinstance(st, (ast.FunctionDef,)):
            env[st.name] = FuncV(self.mod, st, closure=env)
        else:
            raise Unsupported(f'stmt {type(st).__name__} at {self.mod.name}:{st.lineno}')

    def assign(self, t, v, env):
        if isinstance(t, ast.Name):
            env[t.id] = v
        elif isinstance(t, (ast.Tuple, ast.List)):
            vs = list(self.iterate(v))
            if len(vs) != len(t.elts):
                raise PyRaise('ValueError unpack')
            for tt, vv in zip(t.elts, vs):
                self.assign(tt, vv, env)
        elif isinstance(t, ast.Attribute):
            o = self.ev(t.value, env)
            if isinstance(o, Obj):
                o.fields[t.attr] = v
            else:
                raise Unsupported(f'attr store on {o!r}')
        elif isinstance(t, ast.Subscript):
            o = self.ev(t.value, env)
            k = self.ev(t.slice, env)
            o[k] = v
        else:
            raise Unsupported(f'assign target {type(t).__name__}')

    # ---- expressions
    def truth(self, v):
        if isinstance(v, (Term,)):
            raise Unsupported('truth of symbolic term')
        if isinstance(v, (Obj, ClassV, FuncV, EnumMember)):
            return True
        return bool(v)

    def iterate(self, v):
        if isinstance(v, (list, tuple, set, frozenset, range, dict, str)):
            return list(v)
        if hasattr(v, '__iter__'):
            return list(v)
        raise Unsupported(f'iterate {v!r}')

    def ev(self, n, env):
        m = getattr(self, 'ev_' + type(n).__name__, None)
        if m is None:
            raise Unsupported(f'expr {type(n).__name__} at {self.mod.name}:{getattr(n, "lineno", "?")}')
        return m(n, env)

    def ev_Constant(self, n, env):
        return n.value

    def ev_Name(self, n, env):
        e = env
        while e is not None:
            if n.id in e:
                return e[n.id]
            e = e.get('__parent__') if isinstance(e, dict) else None
        try:
            return self.mod.lookup(n.id)
        except KeyError:
            pass
        if n.id in BUILTIN_TYPES:
            return BUILTIN_TYPES[n.id]
        if n.id in ('isinstance', 'len', 'range', 'max', 'min', 'sorted', 'print', 'any', 'all', 'map', 'getattr', 'enumerate', 'zip', 'sum', 'abs'):
            return ('builtin', n.id)
        if n.id in ('True', 'False', 'None'):
            return {'True': True, 'False': False, 'None': None}[n.id]
        raise Unsupported(f'name {n.id} in {self.mod.name}')

    def ev_Tuple(self, n, env):
        return tuple(self.ev(e, env) for e in n.elts)

    def ev_List(self, n, env):
        return [self.ev(e, env) for e in n.elts]

    def ev_Set(self, n, env):
        return {self.ev(e, env) for e in n.elts}

    def ev_Dict(self, n, env):
        return {self.ev(k, env): self.ev(v, env) for k, v in zip(n.keys, n.values)}

    def ev_IfExp(self, n, env):
        return self.ev(n.body, env) if self.truth(self.ev(n.test, env)) else self.ev(n.orelse, env)

    def ev_BoolOp(self, n, env):
        if isinstance(n.op, ast.And):
            v = True
            for e in n.values:
                v = self.ev(e, env)
                if not self.truth(v):
                    return v
            return v
        v = False
        for e in n.values:
            v = self.ev(e, env)
            if self.truth(v):
                return v
        return v

    def ev_UnaryOp(self, n, env):
        v = self.ev(n.operand, env)
        if isinstance(n.op, ast.Not):
            return not self.truth(v)
        if isinstance(n.op, ast.USub):
            if isinstance(v, Term):
                return Term(f'-({v.s})')
            return -v
        raise Unsupported('unary')

    def binop(self, op, a, b):
        if isinstance(a, Term) or isinstance(b, Term):
            sym = {ast.Add: '+', ast.Sub: '-', ast.Mult: '*'}.get(type(op))
            if sym is None:
                raise Unsupported('term op')
            return Term(f'({a!r}{sym}{b!r})')
        import operator as o
        f = {ast.Add: o.add, ast.Sub: o.sub, ast.Mult: o.mul, ast.BitOr: o.or_, ast.BitAnd: o.and_, ast.LShift: o.lshift,
             ast.FloorDiv: o.floordiv, ast.Mod: o.mod}.get(type(op))
        if f is None:
            raise Unsupported(f'binop {type(op).__name__}')
        return f(a, b)

    def ev_BinOp(self, n, env):
        return self.binop(n.op, self.ev(n.left, env), self.ev(n.right, env))

    def ev_Compare(self, n, env):
        left = self.ev(n.left, env)
        for op, rn in zip(n.ops, n.comparators):
            right = self.ev(rn, env)
            if isinstance(op, (ast.Is, ast.IsNot)):
                r = (left is right) or (left is None and right is None)
                if isinstance(op, ast.IsNot):
                    r = not r
            elif isinstance(op, (ast.In, ast.NotIn)):
                r = left in right
                if isinstance(op, ast.NotIn):
                    r = not r
            else:
                if isinstance(left, Term) or isinstance(right, Term):
                    if isinstance(op, ast.Eq):
                        r = left == right
                    elif isinstance(op, ast.NotEq):
                        r = not (left == right)
                    else:
                        raise Unsupported('ordering on symbolic term')
                else:
                    import operator as o
                    r = {ast.Eq: o.eq, ast.NotEq: o.ne, ast.Lt: o.lt, ast.LtE: o.le, ast.Gt: o.gt, ast.GtE: o.ge}[type(op)](left, right)
            if not r:
                return False
            left = right
        return True

    def ev_Subscript(self, n, env):
        o = self.ev(n.value, env)
        if isinstance(n.slice, ast.Slice):
            lo = self.ev(n.slice.lower, env) if n.slice.lower else None
            hi = self.ev(n.slice.upper, env) if n.slice.upper else None
            return o[lo:hi]
        k = self.ev(n.slice, env)
        try:
            return o[k]
        except (KeyError, IndexError) as e:
            raise PyRaise(f'{type(e).__name__}({k!r})')

    def ev_JoinedStr(self, n, env):
        out = ''
        for v in n.values:
            if isinstance(v, ast.Constant):
                out += v.value
            else:
                x = self.ev(v.value, env)
                spec = self.ev(v.format_spec, env) if v.format_spec else ''
                if isinstance(x, (Obj, Term)):
                    x = repr(x)
                out += format(x, spec)
        return out

    def ev_ListComp(self, n, env):
        return list(self.comp(n, env))

    def ev_SetComp(self, n, env):
        return set(self.comp(n, env))

    def ev_GeneratorExp(self, n, env):
        return list(self.comp(n, env))

    def comp(self, n, env):
        def rec(i, e):
            if i == len(n.generators):
                yield self.ev(n.elt, e)
                return
            g = n.generators[i]
            for x in self.iterate(self.ev(g.iter, e)):
                e2 = dict(e)
                self.assign(g.target, x, e2)
                if all(self.truth(self.ev(c, e2)) for c in g.ifs):
                    yield from rec(i + 1, e2)
        return rec(0, dict(env))

    def ev_Lambda(self, n, env):
        return FuncV(self.mod, n, closure=env)

    def ev_Attribute(self, n, env):
        o = self.ev(n.value, env)
        return self.getattr(o, n.attr)

    def getattr(self, o, a):
        if isinstance(o, tuple) and len(o) == 2 and o[0] == 'module':
            return o[1].lookup(a)
        if isinstance(o, Obj):
            if a in o.fields:
                return o.fields[a]
            c, st = o.cls.find(a)
            if st is None:
                if a == '__class__':
                    return o.cls
                raise PyRaise(f'AttributeError({o.cls.name}.{a})')
            if isinstance(st, ast.FunctionDef):
                if any(isinstance(d, ast.Name) and d.id == 'staticmethod' for d in st.decorator_list):
                    return FuncV(c.mod, st, owner=c)
                f = FuncV(c.mod, st, self_obj=o, owner=c)
                if any(isinstance(d, ast.Name) and d.id == 'property' for d in st.decorator_list):
                    return self.call(f, [], {})
                return f
            return Interp(c.mod).ev(st.value, {})
        if isinstance(o, ClassV):
            if o.is_enum():
                for st in o.node.body:
                    if isinstance(st, ast.Assign) and isinstance(st.targets[0], ast.Name) and st.targets[0].id == a:
                        return EnumMember(o, a, Interp(o.mod).ev(st.value, {}))
            if a in ('__name__', '__qualname__'):
                return o.name
            c, st = o.find(a)
            if st is None:
                raise PyRaise(f'AttributeError({o.name}.{a})')
            if isinstance(st, ast.FunctionDef):
                f = FuncV(c.mod, st, owner=c)
                return f
            return Interp(c.mod).ev(st.value, {})
        if isinstance(o, EnumMember) and a in ('value', 'name'):
            return getattr(o, a)
        if isinstance(o, (str, list, set, dict, tuple, frozenset)):
            return ('pymethod', o, a)
        raise Unsupported(f'getattr {o!r}.{a}')

    def ev_Call(self, n, env):
        f = self.ev(n.func, env)
        args = []
        for a in n.args:
            if isinstance(a, ast.Starred):
                args.extend(self.iterate(self.ev(a.value, env)))
            else:
                args.append(self.ev(a, env))
        kw = {k.arg: self.ev(k.value, env) for k in n.keywords}
        try:
            return self.call(f, args, kw)
        except TypeError as e:
            raise Unsupported(f'TypeError {e} calling {ast.unparse(n)} with {args!r} at {self.mod.name}:{n.lineno}')

    def isinstance_(self, v, c):
        if isinstance(c, tuple):
            return any(self.isinstance_(v, x) for x in c)
        if isinstance(c, ClassV):
            return isinstance(v, Obj) and v.cls.is_sub(c)
        if c is int:
            return isinstance(v, Term) or (isinstance(v, int) and not isinstance(v, bool)) or isinstance(v, bool)
        if isinstance(c, type):
            return isinstance(v, c)
        raise Unsupported(f'isinstance against {c!r}')

    def call(self, f, args, kw):
        if isinstance(f, tuple) and f[0] == 'builtin':
            name = f[1]
            if name == 'isinstance':
                return self.isinstance_(args[0], args[1])
            if name == 'max' or name == 'min':
                xs = args if len(args) > 1 else list(args[0])
                if any(isinstance(x, Term) for x in xs):
                    if 'default' in kw:
                        raise Unsupported('max default')
                    return Term(f'{name}({",".join(map(repr, xs))})')
                if not xs and 'default' in kw:
                    return kw['default']
                return (max if name == 'max' else min)(xs)
            if name == 'print':
                return None
            if name == 'map':
                return [self.call(args[0], [x], {}) for x in self.iterate(args[1])]
            if name == 'getattr':
                try:
                    return self.getattr(args[0], args[1])
                except PyRaise:
                    if len(args) > 2:
                        return args[2]
                    raise
            return {'len': len, 'range': range, 'sorted': sorted, 'any': any, 'all': all, 'enumerate': lambda x: list(enumerate(x)),
                    'zip': lambda *a: list(zip(*a)), 'sum': sum, 'abs': abs}[name](*args, **kw)
        if isinstance(f, tuple) and f[0] == 'pymethod':
            return getattr(f[1], f[2])(*args, **kw)
        if isinstance(f, type):
            return f(*args, **kw)
        if isinstance(f, ClassV):
            return self.instantiate(f, args, kw)
        if isinstance(f, FuncV):
            return self.call_func(f, args, kw)
        raise Unsupported(f'call {f!r}')

    def instantiate(self, cls, args, kw):
        o = Obj(cls)
        c, init = cls.find('__init__')
        if init is not None and isinstance(init, ast.FunctionDef):
            self.call_func(FuncV(c.mod, init, self_obj=o, owner=c), args, kw)
            return o
        if cls.is_dataclass():
            names = []
            for st in cls.node.body:
                if isinstance(st, ast.AnnAssign) and isinstance(st.target, ast.Name):
                    names.append((st.target.id, st.value))
            for (nm, default), a in itertools.zip_longest(names, args, fillvalue=None):
                if a is not None or (nm is not None and len(args) > names.index((nm, default))):
                    o.fields[nm] = a
                elif nm in kw:
                    o.fields[nm] = kw[nm]
                elif default is not None:
                    o.fields[nm] = Interp(cls.mod).ev(default, {})
                else:
                    raise PyRaise(f'TypeError missing {nm}')
            return o
        return o

    def call_func(self, f, args, kw):
        node = f.node
        a = node.args
        env = {'__parent__': f.closure} if f.closure else {}
        params = [p.arg for p in a.posonlyargs + a.args]
        vals = list(args)
        if f.self_obj is not None:
            vals = [f.self_obj] + vals
        defaults = [None] * (len(params) - len(a.defaults)) + list(a.defaults)
        for i, p in enumerate(params):
            if i < len(vals):
                env[p] = vals[i]
            elif p in kw:
                env[p] = kw[p]
            elif defaults[i] is not None:
                env[p] = Interp(f.mod).ev(defaults[i], {})
            else:
                raise PyRaise(f'TypeError missing arg {p}')
        for p, d in zip(a.kwonlyargs, a.kw_defaults):
            env[p.arg] = kw.get(p.arg, Interp(f.mod).ev(d, {}) if d is not None else None)
        it = Interp(f.mod)
        if isinstance(node, ast.Lambda):
            return it.ev(node.body, env)
        try:
            it.exec_block(node.body, env)
        except Ret as r:
            return r.v
        return None


# ------------------------------------------------------------------ driver: fee + int tables
I = 'tealer.teal.instructions.instructions'
insm = Module.get(I)
tf = Module.get('tealer.teal.instructions.transaction_field')
gf = Module.get('tealer.teal.global_field')
sab = Module.get('tealer.analyses.utils.stack_ast_builder')
KSV = sab.lookup('KnownStackValue')
USV = sab.lookup('UnknownStackValue')


def ins(clsname, **fields):
    return Obj(insm.lookup(clsname), **fields)


def ksv(instruction, args=()):
    return Obj(KSV, _ins=instruction, _args=list(args), _ins_out_values_index=0)


def txn(fieldname):
    return ksv(ins('Txn', _field=Obj(tf.lookup(fieldname))))


def glob(fieldname):
    return ksv(ins('Global', _field=Obj(gf.lookup(fieldname))))


def const(v):
    return ksv(ins('Int', _value=v))


OPS = ['Eq', 'Neq', 'Less', 'LessE', 'Greater', 'GreaterE']


def table(modname, clsname, key, fieldval, cvals):
    mod = Module.get(modname)
    cls = mod.lookup(clsname)
    me = Obj(cls)  # analysis object; no constructor run: the table functions read class attributes only
    rows = []
    for op in OPS:
        for pos in ('L', 'R'):
            for c in cvals:
                a, b = (fieldval, const(c)) if pos == 'L' else (const(c), fieldval)
                v = ksv(ins(op), [a, b])
                f = Interp(mod).getattr(me, '_get_asserted_single')
                try:
                    res = Interp(mod).call(f, [key, v], {})
                except PyRaise as e:
                    res = ('RAISES', e.exc)
                rows.append((op, pos, c, res))
    return rows


if __name__ == '__main__':
    c = Term('c')
    print('== FeeField._get_asserted_single, key Fee')
    for r in table('tealer.analyses.dataflow.transaction_context.fee_field', 'FeeField', 'Fee', txn('Fee'), [c]):
        print('  ', r)
    print('== GroupIndices._get_asserted_single, key GroupSize (c=3)')
    for r in table('tealer.analyses.dataflow.transaction_context.int_fields', 'GroupIndices', 'GroupSize', glob('GroupSize'), [3]):
        print('  ', r[0], r[1], r[2], sorted(r[3][0]), sorted(r[3][1]))
