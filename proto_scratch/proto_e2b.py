from proto_e2 import *
def run(modname, clsname, key, v):
    mod = Module.get(modname); cls = mod.lookup(clsname); me = Obj(cls)
    f = Interp(mod).getattr(me, '_get_asserted_single')
    try:
        return Interp(mod).call(f, [key, v], {})
    except PyRaise as e:
        return ('RAISES', e.exc)
TT='tealer.analyses.dataflow.transaction_context.txn_types'
AD='tealer.analyses.dataflow.transaction_context.addr_fields'
print('== TxnType')
for field in ['TypeEnum','OnCompletion','ApplicationID']:
    for op in ['Eq','Neq']:
        for c in ([0,1,4,6,7,'pay','appl','unknown'] if field=='TypeEnum' else [0,4,5,6,'NoOp','UpdateApplication'] if field=='OnCompletion' else [0,1]):
            for pos in 'LR':
                a,b=(txn(field),const(c)) if pos=='L' else (const(c),txn(field))
                r=run(TT,'TxnType','TransactionType',ksv(ins(op),[a,b]))
                if pos=='L' or True:
                    print('  ',field,op,repr(c),pos, r if r[0]=='RAISES' else (sorted(map(repr,r[0])), '|', sorted(map(repr,r[1]))))
for shape,v in [('bare',txn('ApplicationID')),('not',ksv(ins('Not'),[txn('ApplicationID')]))]:
    r=run(TT,'TxnType','TransactionType',v); print('  ApplicationID',shape,sorted(map(repr,r[0])),'|',sorted(map(repr,r[1])))
print('== AddrFields RekeyTo')
za=glob('ZeroAddress'); lit=ksv(ins('Addr',_addr='LITERALADDR')); zlit=ksv(ins('Addr',_addr='AAAAAAAAAAAAAAAAAAAAAAAAAAAAAAAAAAAAAAAAAAAAAAAAAAAAY5HFKQ')); cr=glob('CreatorAddress'); unk=Obj(USV); snd=txn('Sender')
for op in ['Eq','Neq','Less']:
    for name,o in [('zero',za),('lit',lit),('zerolit',zlit),('creator',cr),('unknown',unk),('otherfield',snd)]:
        for pos in 'LR':
            a,b=(txn('RekeyTo'),o) if pos=='L' else (o,txn('RekeyTo'))
            print('  ',op,name,pos,run(AD,'AddrFields','RekeyTo',ksv(ins(op),[a,b])))
# gtxn keys
g=ksv(ins('Gtxn',_idx=2,_field=Obj(tf.lookup('RekeyTo'))))
print('  gtxn2 under key RekeyTo', run(AD,'AddrFields','RekeyTo',ksv(ins('Eq'),[g,za])))
print('  gtxn2 under key GTXN_ABS_02_RekeyTo', run(AD,'AddrFields','GTXN_ABS_02_RekeyTo',ksv(ins('Eq'),[g,za])))
print('  gtxn2 under key GTXN_ABS_03_RekeyTo', run(AD,'AddrFields','GTXN_ABS_03_RekeyTo',ksv(ins('Eq'),[g,za])))
gi=txn('GroupIndex')
rel=ksv(ins('Gtxns',_field=Obj(tf.lookup('RekeyTo'))),[ksv(ins('Sub'),[gi,const(1)])])
for k in ['GTXN_RELATIVE_-1_RekeyTo','GTXN_RELATIVE_01_RekeyTo','RekeyTo']:
    print('  gtxns(GroupIndex-1) under', k, run(AD,'AddrFields',k,ksv(ins('Eq'),[rel,za])))
