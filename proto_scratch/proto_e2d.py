from proto_e2 import *
from proto_e2c import block, I, BB, FN
from collections import defaultdict
INT='tealer.analyses.dataflow.transaction_context.int_fields'
mod=Module.get(INT); cls=mod.lookup('GroupIndices')
U=set(range(1,17))
def nm(s):
    s=set(s)
    names={'U':U,'EMPTY':set(),'A':{3},'notA':U-{3},'B':{3,4},'notB':U-{3,4},'A&B':{3},'A|B':{3,4},'nA|nB':U-{3},'nA&nB':U-{3,4}}
    return [k for k,v in names.items() if v==s] or sorted(s)
def gs(c): return [I('Global',_field=Obj(gf.lookup('GroupSize'))), I('Int',_value=c)]
# T-COMB + T-BLOCK through _block_level_constraints on abstract blocks: A = (GroupSize==3), B = (GroupSize<=4 & >=3)
cases={
 'assert A':            gs(3)+[I('Eq'),I('Assert')],
 'assert !A':           gs(3)+[I('Eq'),I('Not'),I('Assert')],
 'assert A&&unknown':   [I('Load',_idx=0)]+gs(3)+[I('Eq'),I('And'),I('Assert')],
 'assert A||unknown':   [I('Load',_idx=0)]+gs(3)+[I('Eq'),I('Or'),I('Assert')],
 'assert !(A||unk)':    [I('Load',_idx=0)]+gs(3)+[I('Eq'),I('Or'),I('Not'),I('Assert')],
 'return A':            gs(3)+[I('Eq'),I('Return')],
 'int 0; return':       [I('Int',_value=0),I('Return')],
 'int 1; return':       [I('Int',_value=1),I('Return')],
 'err':                 [I('Err')],
 'plain':               gs(3)+[I('Eq'),I('Pop')],
}
for name,body in cases.items():
    b=block(body,0)
    me=Obj(cls,_function=Obj(FN),_path_contexts=defaultdict(dict),_block_contexts=defaultdict(dict))
    f=Interp(mod).getattr(me,'_block_level_constraints')
    try:
        Interp(mod).call(f,[['GroupSize'],b],{})
        print(f'{name:22s}', nm(me.fields['_block_contexts']['GroupSize'][b]))
    except (PyRaise,Unsupported) as e:
        print(name,'ERR',e)
