import sys, logging
logging.disable(logging.CRITICAL)
from tealer.teal.parse_teal import parse_teal
t=parse_teal(open(sys.argv[1]).read(),"x")
for b in t.bbs:
    print("B%d"%b.idx, [i.line for i in b.instructions], "next",[x.idx for x in b.next],"prev",[x.idx for x in b.prev], [p in t.bbs for p in b.prev])
