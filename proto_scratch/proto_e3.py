"""Throwaway prototype of E3-lite: structured guard inference (no gotos in Python => no dominator computation needed)."""
import ast
def terminates(stmts):
    """does every path through this statement list leave the enclosing block (return/raise/continue/break)?"""
    for st in stmts:
        if isinstance(st,(ast.Return,ast.Raise,ast.Continue,ast.Break)): return True
        if isinstance(st,ast.If) and st.orelse and terminates(st.body) and terminates(st.orelse): return True
    return False
def walk(stmts, guards, out):
    guards=list(guards)
    for st in stmts:
        out.append((st, tuple(guards)))
        if isinstance(st,ast.If):
            t=ast.unparse(st.test)
            walk(st.body, guards+[(t,True)], out)
            walk(st.orelse, guards+[(t,False)], out)
            if terminates(st.body): guards.append((t,False))
            elif st.orelse and terminates(st.orelse): guards.append((t,True))
        elif isinstance(st,(ast.For,ast.While)):
            walk(st.body, guards+[('loop:'+ast.unparse(st.target if isinstance(st,ast.For) else st.test),True)], out)
        elif isinstance(st,(ast.With,ast.Try)):
            walk(st.body, guards, out)
def find(tree,name):
    for n in ast.walk(tree):
        if isinstance(n,ast.FunctionDef) and n.name==name: return n
t=ast.parse(open('/repo/tealer/detectors/utils.py').read())
sp=find(t,'search_paths'); out=[]; walk(sp.body,[],out)
print('== search_paths: exits and effects with their guards')
for st,g in out:
    if isinstance(st,ast.Return) or (isinstance(st,ast.Expr) and isinstance(st.value,ast.Call) and ast.unparse(st.value.func) in('paths_without_check.append','search_paths')):
        print(f'  l.{st.lineno:<4}{ast.unparse(st)[:48]:50s}', [(c[:52],p) for c,p in g])
gc=find(t,'detect_missing_tx_field_validations_group_complete'); out=[]; walk(gc.body,[],out)
print('== group_complete: every `continue` / record with guards')
for st,g in out:
    if isinstance(st,ast.Continue) or (isinstance(st,ast.Assign) and 'is_vulnerable' in ast.unparse(st.targets[0])):
        print(f'  l.{st.lineno:<4}{ast.unparse(st)[:30]:32s}', [(c[:70],p) for c,p in g if not c.startswith('loop:')])
