from proto_e2 import *
from collections import defaultdict
GEN='tealer.analyses.dataflow.transaction_context.generic'
INT='tealer.analyses.dataflow.transaction_context.int_fields'
bbm=Module.get('tealer.teal.basic_blocks'); BB=bbm.lookup('BasicBlock')
fnm=Module.get('tealer.teal.functions'); FN=fnm.lookup('Function')

def block(instrs, idx):
    b=Obj(BB,_instructions=list(instrs),_next=[],_prev=[],_idx=idx,_teal=None,_subroutine=None)
    for i in instrs: i.fields['_bb']=b
    return b
def I(name,**f): return ins(name,**f)
def mkcond():
    return [I('Global',_field=Obj(gf.lookup('GroupSize'))), I('Int',_value=3), I('Eq')]

mod=Module.get(INT); cls=mod.lookup('GroupIndices')
for exitcls in ['BZ','BNZ']:
  for shape in ['two','one']:
    for cond in ['known','unknown']:
        body=(mkcond() if cond=='known' else [])+[I(exitcls,_label='L')]
        b=block(body,0); ft=block([I('Int',_value=1)],1); tg=block([I('Int',_value=1)],2)
        b.fields['_next']=[ft,tg] if shape=='two' else [tg]
        fn=Obj(FN)
        me=Obj(cls,_function=fn,_path_contexts=defaultdict(dict),_block_contexts=defaultdict(dict))
        f=Interp(mod).getattr(me,'_path_level_constraints')
        Interp(mod).call(f,[['GroupSize'],b],{})
        pc=me.fields['_path_contexts']['GroupSize']
        def name(s):
            s=set(s); U=set(range(1,17))
            return 'T' if s=={3} else 'F' if s==U-{3} else 'U' if s==U else 'EMPTY' if not s else sorted(s)
        out={('fallthrough' if succ is ft else 'target'): name(v[b]) for succ,v in pc.items()}
        print(exitcls,shape,cond,out)
