import sys, logging
logging.disable(logging.CRITICAL)
from tealer.utils.command_line.common import init_tealer_from_single_contract
from tealer.utils.teal_enums import ContractType
from tealer.detectors.all_detectors import *
from tealer.utils.command_line.common import get_detectors_and_printers
src=open(sys.argv[1]).read()
ctype = sys.argv[2] if len(sys.argv)>2 else None
t = init_tealer_from_single_contract(src, "x")
dets,_=get_detectors_and_printers()
for d in dets: t.register_detector(d)
c = t.contracts["x"]
print("mode", c.mode, "type", c.contract_type)
for f in c.functions.values():
    for b in sorted(f.blocks, key=lambda b:b.idx):
        ctx=f.transaction_context(b)
        print("B%d"%b.idx, "gs",ctx.group_sizes, "gi", ctx.group_indices, "tt",ctx.transaction_types, "rk",ctx.rekeyto, "fee", ctx.max_fee, ctx.max_fee_unknown)
res = t.run_detectors()
for r in res:
    for o in r:
        print(o.detector.NAME, [[b.idx for b in p] for p in o.paths] if hasattr(o,'paths') else o)
